// Triage replay (not part of any check): F4 -- BitArrayT::set() sets the padding bits of the last unit.
#define FFSM2_ENABLE_PLANS
#include <ffsm2/machine.hpp>
#include <cstdio>
int main() {
	ffsm2::detail::BitArrayT<12> bits;
	bits.set();
	for (unsigned i = 0; i < 12; ++i)
		bits.clear(i);
	bool any = false;
	for (unsigned i = 0; i < 12; ++i)
		any = any || bits.get(i);
	std::printf("after set(); clear(0..11): any bit set=%d empty()=%d (the set of integers is empty)\n", any, bits.empty());
	return bits.empty() ? 0 : 1;
}
