// Triage replay (not part of any check): F2 -- control.isActive(0) special case.
#define FFSM2_ENABLE_PLANS
#include <ffsm2/machine.hpp>
#include <cstdio>
using M = ffsm2::Machine;
struct Top; struct A; struct B; struct C;
using FSM = M::Root<Top, A, B, C>;
static bool controlSaysAActive = false;
static int firedToA = 0;
struct Top : FSM::State {};
struct A : FSM::State { void enter(PlanControl&) { ++firedToA; } };
struct B : FSM::State {};
struct C : FSM::State {
	void update(FullControl& control) {
		controlSaysAActive = control.isActive(FSM::stateId<A>());	// id 0
		control.succeed();
	}
};
int main() {
	FSM::Instance m;
	m.immediateChangeTo<C>();
	firedToA = 0;
	// plan: [A -> B, C -> A]; active is C and C succeeds. The first task's origin (A, id 0) is not active,
	// so the scan must stop there and the second task must not fire.
	auto plan = m.plan();
	plan.change<A, B>();
	plan.change<C, A>();
	m.update();
	std::printf("in C: control.isActive(A)=%d machine.isActive(A)=%d\n", controlSaysAActive, m.isActive<A>());
	std::printf("task C->A fired although task A->B is ahead of it: active now %d (A=0,B=1,C=2)\n", m.activeStateId());
	return controlSaysAActive ? 1 : 0;
}
