// Triage replay (not part of any check): O1 -- a payload-carrying re-request of the just-accepted destination is
// de-duplicated by applyRequest() without ever being shown to a guard, and its payload is lost.
#define FFSM2_ENABLE_TRANSITION_HISTORY
#include <ffsm2/machine.hpp>
#include <cstdio>
using M = ffsm2::MachineT<ffsm2::Config::PayloadT<int>>;
struct A; struct B;
using FSM = M::PeerRoot<A, B>;
static int seenByEnter = -1;
static int guardRoundsForB = 0;
struct A : FSM::State {};
struct B : FSM::State {
	void entryGuard(GuardControl& control) {
		++guardRoundsForB;
		if (!control.pendingTransition().payload())
			control.changeWith<B>(42);		// "come to me, but with this payload"
	}
	void enter(PlanControl& control) {
		seenByEnter = control.currentTransition().payload() ? *control.currentTransition().payload() : -1;
	}
};
int main() {
	FSM::Instance m;				// A active
	m.immediateChangeTo<B>();		// external, payload-free request; B's guard replaces it by a payload-carrying one
	const int* hp = m.previousTransition().payload();
	std::printf("B::enter saw payload %d (the last request that no guard cancelled carried 42); guard rounds for B: %d; history payload: %d\n",
		seenByEnter, guardRoundsForB, hp ? *hp : -1);
	return seenByEnter == 42 ? 0 : 1;
}
