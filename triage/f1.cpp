// Triage replay (not part of any check): F1 -- a request vetoed in a later guard round is applied anyway.
#define FFSM2_ENABLE_TRANSITION_HISTORY
#include <ffsm2/machine.hpp>
#include <cstdio>
using M = ffsm2::Machine;
struct A; struct B; struct C;
using FSM = M::PeerRoot<A, B, C>;
static int enteredC = 0;
struct A : FSM::State {};
struct B : FSM::State {
	void entryGuard(GuardControl& control) { control.changeTo<C>(); }	// accept B, but also ask for C
};
struct C : FSM::State {
	void entryGuard(GuardControl& control) { control.cancelPendingTransition(); }	// C always vetoes
	void enter(PlanControl&) { ++enteredC; }
};
int main() {
	FSM::Instance m;				// A active
	m.immediateChangeTo<B>();		// round 1: ->B passes; round 2: ->C is cancelled => must fall back to B
	std::printf("active=%d (A=0,B=1,C=2), C::enter ran %d time(s), previousTransition().destination=%d\n",
		m.activeStateId(), enteredC, m.previousTransition().destination);
	return m.activeStateId() == FSM::stateId<B>() && enteredC == 0 ? 0 : 1;
}
