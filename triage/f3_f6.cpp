// Triage replay (not part of any check): F3 (copy loses previousTransition) and F6 (planExists indeterminate).
#define FFSM2_ENABLE_PLANS
#define FFSM2_ENABLE_TRANSITION_HISTORY
#include <ffsm2/machine.hpp>
#include <cstdio>
#include <cstring>
#include <new>
using M = ffsm2::MachineT<ffsm2::Config::PayloadT<int>>;
struct Top; struct A; struct B;
using FSM = M::Root<Top, A, B>;
static int succeeded = 0;
struct Top : FSM::State { void planSucceeded(FullControl&) { ++succeeded; } };
struct A : FSM::State { void update(FullControl& c) { c.succeed(); } };
struct B : FSM::State {};
int main() {
	int bad = 0;
	{	// F3
		FSM::Instance m;
		m.immediateChangeWith<B>(42);
		FSM::Instance c{m};
		const bool orig = static_cast<bool>(m.previousTransition());
		const bool copy = static_cast<bool>(c.previousTransition());
		std::printf("F3: original has history=%d copy has history=%d\n", orig, copy);
		if (orig != copy) ++bad;
	}
	{	// F6: construct in 0xFF-filled storage; no plan was ever made, A succeeds
		alignas(FSM::Instance) static unsigned char storage[sizeof(FSM::Instance)];
		std::memset(storage, 0xFF, sizeof(storage));
		FSM::Instance* m = new (storage) FSM::Instance;
		m->update();
		std::printf("F6: planSucceeded delivered %d time(s) on a machine that never had a plan\n", succeeded);
		if (succeeded) ++bad;
		m->~InstanceT();
	}
	return bad;
}
