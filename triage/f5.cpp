// Triage replay (not part of any check): F5 -- payload storage misaligned under #pragma pack(1).
// Build with -fsanitize=alignment: the placement-new store and the payload() load are reported.
#define FFSM2_ENABLE_PLANS
#include <ffsm2/machine.hpp>
#include <cstdio>
#include <cstddef>
using M = ffsm2::MachineT<ffsm2::Config::PayloadT<double>>;
struct A; struct B;
using FSM = M::PeerRoot<A, B>;
static double seen = 0;
struct A : FSM::State {};
struct B : FSM::State { void enter(PlanControl& c) { if (c.currentTransition().payload()) seen = *c.currentTransition().payload(); } };
int main() {
	std::printf("alignof(Transition)=%zu offsetof(storage)=%zu alignof(double)=%zu\n",
		alignof(FSM::Transition), offsetof(FSM::Transition, storage), alignof(double));
	FSM::Instance m;
	m.immediateChangeWith<B>(2.5);
	std::printf("payload seen by enter: %g\n", seen);
	return (offsetof(FSM::Transition, storage) % alignof(double)) != 0 || (alignof(FSM::Transition) % alignof(double)) != 0;
}
