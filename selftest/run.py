#!/usr/bin/env python3
"""Both-ways self-test of the checkers (not a registered check).

  selftest/run.py [name-substring ...]      run the mutants / refactors whose name contains one of the substrings
  selftest/run.py --all

Each entry of mutants.json / refactors.json is a one-edit change of include/ffsm2/machine.hpp. It is applied to a
scratch copy of the repository's headers under /verif/.build/selftest/<name> (deleted as soon as the verdict is
recorded), the listed checks are run against the copy with --repo, and the outcome is compared with the expectation:
a mutant must make every listed check exit 1 and name the expected rule; a refactor must keep them at exit 0.
"""
import json
import os
import shutil
import subprocess
import sys
import concurrent.futures as cf

HERE = os.path.dirname(os.path.abspath(__file__))
VERIF = os.path.dirname(HERE)
REPO = '/repo'


def load(name):
    p = os.path.join(HERE, name)
    if not os.path.exists(p):
        return []
    with open(p) as f:
        return json.load(f)


def make_scratch(name, edits):
    d = os.path.join(VERIF, '.build', 'selftest', '%s-%d' % (name, os.getpid()))
    shutil.rmtree(d, ignore_errors=True)
    os.makedirs(d)
    for sub in ('include', 'development', 'tools'):
        shutil.copytree(os.path.join(REPO, sub), os.path.join(d, sub))
    for ed in edits:
        if ed.get('patch'):
            p = subprocess.run(['git', 'apply', '--unsafe-paths', '--directory=' + d, os.path.join(HERE, 'patches', ed['patch'])],
                               stdout=subprocess.PIPE, stderr=subprocess.STDOUT, universal_newlines=True, cwd='/')
            if p.returncode != 0:
                # not a git work tree: fall back to patch(1)
                p = subprocess.run('patch -p1 -s -d %s < %s' % (d, os.path.join(HERE, 'patches', ed['patch'])), shell=True,
                                   stdout=subprocess.PIPE, stderr=subprocess.STDOUT, universal_newlines=True)
                if p.returncode != 0:
                    raise SystemExit('%s: patch does not apply: %s' % (name, p.stdout[-200:]))
            continue
        path = os.path.join(d, ed.get('file', 'include/ffsm2/machine.hpp'))
        with open(path, encoding='utf-8') as f:
            s = f.read()
        cnt = s.count(ed['old'])
        want = ed.get('count', 1)
        if cnt != want:
            raise SystemExit('%s: pattern occurs %d time(s), expected %d: %r' % (name, cnt, want, ed['old'][:60]))
        s = s.replace(ed['old'], ed['new'])
        with open(path, 'w', encoding='utf-8') as f:
            f.write(s)
    return d


def compiles(d):
    """the mutant must still compile with the test-suite's own configuration families"""
    for flags in ([], ['-DFFSM2_ENABLE_PLANS='], ['-DFFSM2_ENABLE_PLANS=', '-DFFSM2_ENABLE_SERIALIZATION=', '-DFFSM2_ENABLE_TRANSITION_HISTORY=', '-DFFSM2_ENABLE_LOG_INTERFACE=']):
        p = subprocess.run(['clang++', '-std=c++11', '-fsyntax-only', '-I' + os.path.join(d, 'include'),
                            '-I' + os.path.join(VERIF, 'witness')] + flags + [os.path.join(VERIF, 'witness', 'w_core.cpp')],
                           stdout=subprocess.PIPE, stderr=subprocess.STDOUT, universal_newlines=True)
        if p.returncode != 0:
            return False, p.stdout[-400:]
    return True, ''


def run_one(entry, kind):
    name = entry['name']
    edits = entry.get('edits') or ([{'patch': entry['patch']}] if entry.get('patch') else None) or [{'old': entry['old'], 'new': entry['new'], 'count': entry.get('count', 1),
                                    'file': entry.get('file', 'include/ffsm2/machine.hpp')}]
    try:
        d = make_scratch(name, edits)
    except SystemExit as e:
        return name, kind, False, ['cannot apply: %s' % e]
    msgs = []
    ok = True
    try:
        if kind == 'mutant' and not entry.get('may_not_compile'):
            c, out = compiles(d)
            if not c:
                msgs.append('mutant does not compile: ' + out.strip().splitlines()[-1][:200] if out.strip() else 'no output')
        for pid, rule in entry['expect'].items():
            env = dict(os.environ, FFSM2_REPO=d, VERIF_EVIDENCE_DIR=os.path.join(d, 'evidence'), VERIF_REPORT_DIR=os.path.join(d, 'reports'))
            p = subprocess.run([os.path.join(VERIF, 'check'), pid, '--repo', d], cwd=VERIF, env=env,
                               stdout=subprocess.PIPE, stderr=subprocess.STDOUT, universal_newlines=True)
            out = p.stdout
            if kind == 'mutant':
                fired = p.returncode == 1 and 'VIOLATION property=%s' % pid in out
                named = (rule in out) if rule else True
                if not (fired and named):
                    ok = False
                    msgs.append('%s: expected rule %s to fire, exit=%d; tail: %s' % (pid, rule, p.returncode,
                                                                                     ' | '.join(out.strip().splitlines()[-4:])[:500]))
                else:
                    viol = [l.strip() for l in out.splitlines() if l.strip().startswith('violated')]
                    msgs.append('%s: fired %s' % (pid, '; '.join(viol)[:300]))
            else:
                if p.returncode != 0:
                    ok = False
                    msgs.append('%s: expected silence, exit=%d; tail: %s' % (pid, p.returncode,
                                                                              ' | '.join(out.strip().splitlines()[-5:])[:600]))
                else:
                    msgs.append('%s: silent' % pid)
    finally:
        shutil.rmtree(d, ignore_errors=True)
    return name, kind, ok, msgs


def write_table(table):
    """selftest/last_run.md: which check and rule caught which mutant, which refactors stayed silent (DESIGN.md Appendix B)"""
    import re
    L = ['# Last full self-test run (`selftest/run.py --all`)', '',
         '%d entries, %d not as expected.' % (len(table), sum(1 for t in table if not t[2])), '',
         '| entry | kind | as expected | outcome |', '|---|---|---|---|']
    for name, kind, ok, msgs in sorted(table, key=lambda t: (t[1], t[0])):
        d = []
        for m in msgs:
            m2 = re.match(r'(C\d\d): fired (.*)', m)
            if m2:
                d.append(m2.group(1) + ': ' + ', '.join(sorted(set(re.findall(r'violated (C\d\d\.[a-z])', m2.group(2))))))
            elif re.match(r'C\d\d: silent', m):
                d.append(m.replace(': silent', ' silent'))
            elif not ok:
                d.append(m[:160].replace('|', '/'))
        L.append('| %s | %s | %s | %s |' % (name, kind, 'yes' if ok else 'NO', '; '.join(d)))
    with open(os.path.join(HERE, 'last_run.md'), 'w') as f:
        f.write('\n'.join(L) + '\n')


def main(argv):
    pats = [a for a in argv[1:] if not a.startswith('--')]
    entries = [(e, 'mutant') for e in load('mutants.json')] + [(e, 'refactor') for e in load('refactors.json')]
    if pats:
        entries = [(e, k) for e, k in entries if any(p in e['name'] for p in pats)]
    bad = 0
    table = []
    with cf.ThreadPoolExecutor(max_workers=int(os.environ.get('SELFTEST_JOBS', '4'))) as ex:
        for name, kind, ok, msgs in ex.map(lambda ek: run_one(*ek), entries):
            print('%s %-8s %s' % ('ok  ' if ok else 'FAIL', kind, name), flush=True)
            for m in msgs:
                print('       ' + m)
            if not ok:
                bad += 1
            table.append((name, kind, ok, msgs))
    print('%d entries, %d failed' % (len(entries), bad))
    if '--all' in argv:
        write_table(table)
    return 1 if bad else 0


if __name__ == '__main__':
    sys.exit(main(sys.argv))
