#!/usr/bin/env python3
"""Silence test against behaviour-preserving refactorings written by independent sub-agents (not a registered check).

  refactor_seeds.py verify <dir-with-diffs>            each patch applies to a scratch worktree of /repo, the single header equals the
                                                       regenerated sources, the library builds and the unedited suite passes
  refactor_seeds.py run <dir-with-diffs> [ids..]       run the quick checks (default: all 20) against a scratch copy with each patch
                                                       applied; every check must exit 0
  refactor_seeds.py all                                `run` for /verif/seeded-refactors

A patch is kept under /verif/seeded-refactors/<name>.diff with <name>.txt (what was changed and why behaviour is unchanged).
"""
import concurrent.futures as cf
import glob
import json
import os
import shutil
import subprocess
import sys

VERIF = os.path.dirname(os.path.dirname(os.path.abspath(__file__)))
REPO = '/repo'
ALL = ['C%02d' % i for i in range(1, 21)]


def sh(cmd, cwd=None, timeout=3600, env=None):
    p = subprocess.run(cmd, shell=True, cwd=cwd, stdout=subprocess.PIPE, stderr=subprocess.STDOUT, universal_newlines=True, timeout=timeout, env=env)
    return p.returncode, p.stdout


def verify_one(diff):
    name = os.path.basename(diff)[:-5]
    wt = '/tmp/rfverify-%d-%s' % (os.getpid(), name)
    rc, out = sh('git -C %s worktree add -q --detach %s HEAD' % (REPO, wt))
    if rc:
        return name, False, ['worktree: ' + out[-200:]]
    msgs = []
    ok = True
    try:
        rc, out = sh('git apply %s' % diff, cwd=wt)
        if rc:
            return name, False, ['patch does not apply: ' + out[-300:]]
        rc, out = sh('git diff --stat | tail -1', cwd=wt)
        msgs.append(out.strip())
        rc, out = sh('cp include/ffsm2/machine.hpp machine.shipped && (cd tools && python3 -W ignore join.py >/dev/null) && cmp include/ffsm2/machine.hpp machine.shipped', cwd=wt)
        if rc:
            ok = False
            msgs.append('single header differs from the regenerated sources')
        rc, out = sh('cmake -G Ninja -S . -B _build -DCMAKE_BUILD_TYPE=RelWithDebInfo >/dev/null && cmake --build _build 2>&1 | tail -3 && ./_build/ffsm2_test | tail -3', cwd=wt)
        if not (rc == 0 and '21 passed' in out and ' 0 failed' in out):
            ok = False
            msgs.append('build/suite: ' + out[-300:])
    finally:
        sh('git -C %s worktree remove --force %s' % (REPO, wt))
    return name, ok, msgs


def run_one(diff, ids):
    name = os.path.basename(diff)[:-5]
    d = os.path.join(VERIF, '.build', 'rfseed', '%s-%d' % (name, os.getpid()))
    shutil.rmtree(d, ignore_errors=True)
    os.makedirs(d)
    for sub in ('include', 'development', 'tools'):
        shutil.copytree(os.path.join(REPO, sub), os.path.join(d, sub))
    rc, out = sh('patch -p1 -s -d %s < %s' % (d, diff))
    if rc:
        shutil.rmtree(d, ignore_errors=True)
        return name, None, ['patch does not apply: ' + out[-200:]]
    res = {}
    env = dict(os.environ, FFSM2_REPO=d, VERIF_EVIDENCE_DIR=os.path.join(d, 'evidence'), VERIF_REPORT_DIR=os.path.join(d, 'reports'))
    try:
        for pid in ids:
            rc, out = sh('%s/check %s --repo %s' % (VERIF, pid, d), cwd=VERIF, env=env)
            if rc != 0:
                lines = [l.strip() for l in out.splitlines() if l.strip().startswith('violated') or 'ANALYSIS-BROKEN' in l]
                res[pid] = (rc, lines[:4] or out.strip().splitlines()[-2:])
    finally:
        shutil.rmtree(d, ignore_errors=True)
    return name, res, []


def main(argv):
    if len(argv) < 2:
        print(__doc__)
        return 2
    mode = argv[1]
    if mode == 'results':
        n = results_from_log(argv[2], os.path.join(VERIF, 'seeded-refactors', 'RESULTS.md'))
        print('RESULTS.md written, %d alarms' % n)
        return 0
    d = argv[2] if len(argv) > 2 and mode != 'all' else os.path.join(VERIF, 'seeded-refactors')
    ids = [a for a in argv[3:]] or ALL
    diffs = sorted(glob.glob(os.path.join(d, '*.diff')))
    jobs = int(os.environ.get('SELFTEST_JOBS', '5'))
    bad = 0
    if mode == 'verify':
        with cf.ThreadPoolExecutor(max_workers=jobs) as ex:
            for name, ok, msgs in ex.map(verify_one, diffs):
                print('%s %s  %s' % ('ok  ' if ok else 'BAD ', name, ' | '.join(msgs)[:400]), flush=True)
                bad += 0 if ok else 1
        return 1 if bad else 0
    with cf.ThreadPoolExecutor(max_workers=jobs) as ex:
        for name, res, msgs in ex.map(lambda x: run_one(x, ids), diffs):
            if res is None:
                print('SKIP %s %s' % (name, msgs), flush=True)
                continue
            if not res:
                print('silent %s (%d checks)' % (name, len(ids)), flush=True)
            else:
                bad += 1
                print('ALARM  %s' % name, flush=True)
                for pid, (rc, lines) in sorted(res.items()):
                    print('    %s exit=%d: %s' % (pid, rc, ' | '.join(lines)[:700]))
    print('%d patches, %d with a non-zero check' % (len(diffs), bad))
    return 1 if bad else 0


def results_from_log(log, out):
    """seeded-refactors/RESULTS.md from the output of a complete `all` run"""
    import re
    rows = []
    cur = None
    for l in open(log):
        m = re.match(r'^(silent|ALARM|SKIP)\s+(\S+)', l)
        if m:
            cur = [m.group(2), m.group(1), []]
            rows.append(cur)
        elif cur is not None and l.startswith('    '):
            cur[2].append(l.strip()[:300])
    n_alarm = sum(1 for r in rows if r[1] != 'silent')
    L = ['# Behaviour-preserving refactorings vs. all 20 quick checks', '',
         'Produced by `selftest/refactor_seeds.py all` (each patch applied to a scratch copy of /repo, every quick check run with `--repo`).',
         'Every patch was first confirmed by `refactor_seeds.py verify`: it applies, the single header equals the regenerated sources, the',
         'library builds and the unedited suite passes 21/21. Expected outcome for every patch: all 20 checks exit 0.', '',
         '%d patches, %d with a non-zero check.' % (len(rows), n_alarm), '',
         '| patch | what it does (first line of its description) | outcome |', '|---|---|---|']
    base = os.path.join(VERIF, 'seeded-refactors')
    for name, verdict, det in rows:
        desc = ''
        t = os.path.join(base, name + '.txt')
        if os.path.exists(t):
            with open(t) as f:
                for line in f:
                    if line.strip():
                        desc = line.strip()[:160].replace('|', '/')
                        break
        L.append('| %s | %s | %s |' % (name, desc, 'silent (20 checks)' if verdict == 'silent' else '**' + verdict + '** ' + ' / '.join(det)[:400].replace('|', '/')))
    with open(out, 'w') as f:
        f.write('\n'.join(L) + '\n')
    return n_alarm


if __name__ == '__main__':
    sys.exit(main(sys.argv))
