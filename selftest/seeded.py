#!/usr/bin/env python3
"""Handling of the seeded changes written by independent sub-agents (not a registered check).

  seeded.py verify <seed-dir>          confirm in a scratch worktree of /repo that with the patch the library compiles, the
                                       unedited test suite passes and the demonstration fails, and that without the patch the
                                       demonstration passes
  seeded.py check  <seed-dir> [ids..]  apply the patch to /repo, run the listed checks (default: the seed's own property), undo it
  seeded.py all                        `check` for every directory under /verif/seeded, printing one line each

A seed directory holds patch.diff, demo.cpp, meta.json.
"""
import json
import os
import shutil
import subprocess
import sys

VERIF = os.path.dirname(os.path.dirname(os.path.abspath(__file__)))
REPO = '/repo'


def sh(cmd, cwd=None, timeout=1800):
    p = subprocess.run(cmd, shell=True, cwd=cwd, stdout=subprocess.PIPE, stderr=subprocess.STDOUT, universal_newlines=True, timeout=timeout)
    return p.returncode, p.stdout


def patch_of(d, head=True):
    """the patch as delivered applies to the commit the seed was written for; patch.rebased.diff (if present) is the same change
    rebased onto the current /repo HEAD (needed after later fix: commits touched the same lines)."""
    r = os.path.join(d, 'patch.rebased.diff')
    if head and os.path.exists(r):
        return r
    return os.path.join(d, 'patch.diff')


def demo_cmd(meta, include, src, out):
    build = meta.get('demo_build', '')
    import re
    flags = ' '.join(re.findall(r'(?<!\S)(-D[A-Za-z0-9_]+(?:=\S*)?|-std=[a-z0-9+]+)(?!\S)', build))
    if '-std' not in flags:
        flags += ' -std=c++14'
    return 'g++ %s -I%s %s -o %s' % (flags, include, src, out)


def verify(d, base=None):
    d = os.path.abspath(d)
    meta = json.load(open(os.path.join(d, 'meta.json')))
    wt = '/tmp/seedverify-%d' % os.getpid()
    rc, out = sh('git -C %s worktree add -q --detach %s %s' % (REPO, wt, base or 'HEAD'))
    if rc:
        print(out)
        return False
    res = {}
    try:
        demo = os.path.join(d, 'demo.cpp')
        rc, out = sh(demo_cmd(meta, wt + '/include', demo, wt + '/demo0') + ' && ' + wt + '/demo0', cwd=wt)
        res['demo passes without the patch'] = rc == 0
        rc, out = sh('git apply %s' % patch_of(d, base is None), cwd=wt)
        res['patch applies'] = rc == 0
        if rc:
            print(out[-500:])
        # both variants changed consistently?
        rc, out = sh('cd tools && cp ../include/ffsm2/machine.hpp /tmp/m-%d.hpp && python3 -W ignore join.py && cmp ../include/ffsm2/machine.hpp /tmp/m-%d.hpp; r=$?; cp /tmp/m-%d.hpp ../include/ffsm2/machine.hpp; rm -f /tmp/m-%d.hpp; exit $r' % ((os.getpid(),) * 4), cwd=wt)
        res['single header == regenerated sources'] = rc == 0
        rc, out = sh('cmake -G Ninja -S . -B _build -DCMAKE_BUILD_TYPE=RelWithDebInfo >/dev/null && cmake --build _build 2>&1 | tail -3 && ./_build/ffsm2_test | tail -3', cwd=wt)
        res['compiles and the unedited suite passes'] = rc == 0 and '21 passed' in out and ' 0 failed' in out
        if not res['compiles and the unedited suite passes']:
            print(out[-600:])
        rc, out = sh(demo_cmd(meta, wt + '/include', demo, wt + '/demo1') + ' && ' + wt + '/demo1', cwd=wt)
        res['demo fails with the patch'] = rc != 0
        res['demo output'] = out.strip().splitlines()[-3:]
    finally:
        sh('git -C %s worktree remove --force %s' % (REPO, wt))
    ok = all(v for k, v in res.items() if k != 'demo output')
    for k, v in res.items():
        print('  %-45s %s' % (k, v))
    return ok, res


def check(d, ids=None):
    """run checks against a scratch copy of /repo's headers with the seed applied (same mechanism as selftest/run.py), so that
    /repo itself is never modified while other checks may be running against it"""
    d = os.path.abspath(d)
    meta = json.load(open(os.path.join(d, 'meta.json')))
    ids = ids or [meta['property']]
    scratch = os.path.join(VERIF, '.build', 'seeded', os.path.basename(d) + '-%d' % os.getpid())
    shutil.rmtree(scratch, ignore_errors=True)
    os.makedirs(scratch)
    for sub in ('include', 'development', 'tools'):
        shutil.copytree(os.path.join(REPO, sub), os.path.join(scratch, sub))
    rc, out = sh('patch -p1 -s -d %s < %s' % (scratch, patch_of(d)))
    if rc:
        shutil.rmtree(scratch, ignore_errors=True)
        print('patch does not apply to /repo HEAD: ' + out[-300:])
        return None
    results = {}
    try:
        for pid in ids:
            rc, out = sh('FFSM2_REPO=%s VERIF_EVIDENCE_DIR=%s/evidence VERIF_REPORT_DIR=%s/reports %s/check %s --repo %s' % (scratch, scratch, scratch, VERIF, pid, scratch), cwd=VERIF)
            viol = [l.strip() for l in out.splitlines() if l.strip().startswith('violated')]
            results[pid] = (rc, viol[:6], out.strip().splitlines()[-1][:200] if out.strip() else '')
    finally:
        shutil.rmtree(scratch, ignore_errors=True)
    return results


def main(argv):
    if len(argv) < 2:
        print(__doc__)
        return 2
    if argv[1] == 'verify':
        base = argv[3] if len(argv) > 3 else None
        r = verify(argv[2], base)
        return 0 if r and r[0] else 1
    if argv[1] == 'check':
        r = check(argv[2], argv[3:] or None)
        if r is None:
            return 2
        for pid, (rc, viol, last) in r.items():
            print('%s exit=%d %s' % (pid, rc, last if rc != 1 else ''))
            for v in viol:
                print('   ' + v[:260])
        return 0
    if argv[1] == 'all':
        base = os.path.join(VERIF, 'seeded')
        for name in sorted(os.listdir(base)):
            d = os.path.join(base, name)
            if not os.path.isdir(d):
                continue
            meta = json.load(open(os.path.join(d, 'meta.json')))
            ids = meta.get('checks') or [meta['property']]
            r = check(d, ids)
            if r is None:
                print('%-28s NOT APPLICABLE' % name)
                continue
            line = ' '.join('%s:%s' % (pid, 'CAUGHT' if rc == 1 else ('silent' if rc == 0 else 'broken')) for pid, (rc, v, l) in r.items())
            print('%-28s %s' % (name, line))
        return 0
    return 2


if __name__ == '__main__':
    sys.exit(main(sys.argv))
