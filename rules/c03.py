"""C03 -- guards can veto: a cancelled transition is never applied.

C03.a  [flow] per round: exit guard first and on the active state, entry guard on the requested state, nothing consulted
       after a cancellation (short circuit).
C03.b  [flow] a fresh guard control per round (_cancelled == false), bound to (current, pending); the pending transition
       shown is the request under evaluation.
C03.c  [flow] acceptance only on the not-cancelled edge, from the pending transition of that round (with C02.d: fallback
       to the last survivor).
C03.d  [effect] nothing reachable from the guard rounds can reach an enter/exit/reenter dispatcher or write the registry.
C03.e  [cmp] the leaf guard wrappers return 'newly cancelled': true for (before=false, after=true), false for after=false;
       _cancelled is written only by cancelPendingTransition (to true).
C03.f  [effect] replayTransition, replayEnter, load, loadEnter cannot reach a guard dispatcher or a user guard.
"""
import itertools

from lint import facts, ir, effects, anchors, cfg as cfgmod
from lint.common import AnalysisBroken
from rules import flow_rules

LEVEL = 'other'

LIFECYCLE = {'wideEnter', 'wideExit', 'wideReenter', 'deepEnter', 'deepExit', 'deepReenter', 'deepChangeToRequested'}
GUARDS = {'wideEntryGuard', 'wideExitGuard', 'deepEntryGuard', 'deepExitGuard', 'deepForwardEntryGuard', 'deepForwardExitGuard',
          'cancelledByGuards', 'cancelledByEntryGuards'}


def bool_eval(e, env):
    """evaluate a boolean expression whose atoms are given by env[pp(atom)]"""
    e = ir.strip(e)
    key = ir.pp(e)
    if key in env:
        return env[key]
    if e['k'] == 'c':
        return bool(e['v'])
    if e['k'] == 'un' and e['op'] == '!':
        return not bool_eval(e['e'], env)
    if e['k'] == 'bin' and e['op'] == '&&':
        return bool_eval(e['l'], env) and bool_eval(e['r'], env)
    if e['k'] == 'bin' and e['op'] == '||':
        return bool_eval(e['l'], env) or bool_eval(e['r'], env)
    if e['k'] == 'bin' and e['op'] in ('==', '!='):
        r = bool_eval(e['l'], env) == bool_eval(e['r'], env)
        return r if e['op'] == '==' else not r
    if e['k'] == 'cond':
        return bool_eval(e['t'], env) if bool_eval(e['c'], env) else bool_eval(e['f'], env)
    raise AnalysisBroken('guard wrapper returns an expression outside the boolean fragment: ' + key)


class _Returned(Exception):
    def __init__(self, v):
        self.v = v


def guard_result(F, fn, user_ids, f0, cancels):
    """(value returned, flag at exit, number of user calls made) for a leaf guard wrapper entered with the cancellation flag `f0`, when the
    i-th user call it makes cancels iff cancels[i] (the flag only ever goes from false to true: its only writer sets it). The body is
    interpreted statement by statement; a user call under a condition is made or not according to the condition's value at that point."""
    st = {'flag': f0, 'calls': 0}
    refs = {}

    def user_call():
        i = st['calls']
        st['calls'] += 1
        if i < len(cancels) and cancels[i]:
            st['flag'] = True

    def ev(e, env, g, depth=0):
        e = ir.strip(e)
        k = e['k']
        if k == 'c':
            return bool(e['v'])
        if k == 'mem' and e['f'] == '_cancelled':
            return st['flag']
        if k == 'var':
            if e['id'] in refs:
                return ev(refs[e['id']], env, g, depth)       # a reference local: denotes its initialiser at the time of the read
            if e['id'] in env:
                return env[e['id']]
            raise AnalysisBroken('guard wrapper %s uses %s outside the boolean fragment' % (fn.short, e.get('n')))
        if k == 'un' and e['op'] == '!':
            return not ev(e['e'], env, g, depth)
        if k == 'bin' and e['op'] == '&&':
            return ev(e['l'], env, g, depth) and ev(e['r'], env, g, depth)
        if k == 'bin' and e['op'] == '||':
            return ev(e['l'], env, g, depth) or ev(e['r'], env, g, depth)
        if k == 'bin' and e['op'] in ('==', '!='):
            r = ev(e['l'], env, g, depth) == ev(e['r'], env, g, depth)
            return r if e['op'] == '==' else not r
        if k == 'cond':
            return ev(e['t'], env, g, depth) if ev(e['c'], env, g, depth) else ev(e['f'], env, g, depth)
        if k == 'call' and e.get('fn') is not None and F.fn(e['fn']) is not None and depth < 4 and id(e) not in user_ids:
            h = F.fn(e['fn'])
            cenv = {}
            for p, a in zip(h.params, e.get('args', [])):
                try:
                    cenv[p['id']] = ev(a, env, g, depth)
                except AnalysisBroken:
                    cenv[p['id']] = None      # an object (the control): its flag is read through st['flag']
            try:
                run_block(h.body, cenv, h, depth + 1)
            except _Returned as r:
                return r.v
            raise AnalysisBroken('helper %s returns nothing' % h.short)
        raise AnalysisBroken('guard wrapper returns an expression outside the boolean fragment: ' + ir.pp(e))

    def effects_in(e):
        for x in ir.walk(e):
            if id(x) in user_ids:
                user_call()

    def run_block(s, env, g, depth):
        if s is None:
            return
        k = s.get('s')
        if k == 'block':
            for t in s['b']:
                run_block(t, env, g, depth)
        elif k == 'decl':
            for v in s['vars']:
                if v.get('init') is not None and 'unknown_decl' not in v:
                    effects_in(v['init'])
                    if v.get('ref'):
                        refs[v['id']] = v['init']
                        continue
                    try:
                        env[v['id']] = ev(v['init'], env, g, depth)
                    except AnalysisBroken:
                        pass      # not a boolean (scoped origin, logger pointer, ...)
        elif k == 'expr':
            effects_in(s['e'])
        elif k == 'ret':
            raise _Returned(ev(s['e'], env, g, depth))
        elif k == 'if':
            has_user = any(id(x) in user_ids for t in ir.walk_stmts(s) for e in ir.stmt_exprs(t) for x in ir.walk(e))
            try:
                cv = ev(s['c'], env, g, depth)
            except AnalysisBroken:
                if has_user:
                    raise AnalysisBroken('%s calls user code under a condition that is not a function of the cancellation flag' % fn.short)
                return       # logging: `if (logger) record(...)`
            run_block(s['t'] if cv else s.get('e'), env, g, depth)
        elif k == 'null':
            return
        else:
            raise AnalysisBroken('%s: statement kind %s in a guard wrapper' % (fn.short, k))
    try:
        run_block(fn.body, {}, fn, 0)
    except _Returned as r:
        return r.v, st['flag'], st['calls']
    raise AnalysisBroken('%s returns nothing' % fn.short)


def wrappers(run, F, E):
    for fn in F.find('S_'):
        if fn.m not in ('deepEntryGuard', 'deepExitGuard'):
            continue
        rets = [s for s in ir.walk_stmts(fn.body) if s.get('s') == 'ret']
        if anchors.is_empty_state_spec(fn):
            ok = len(rets) == 1 and ir.const_val(rets[0]['e']) == 0
            run.ob('C03.e', 'S_<Empty>::%s never cancels' % fn.m, ok, where=fn.pat, key='empty state %s cancels' % fn.m)
            continue
        # The returned value as a function of the cancellation flag *before* and *after* the user code, whatever the spelling: the body
        # is interpreted statement by statement; a read of control._cancelled yields `before` until the first user call and `after`
        # from the last one on (a read in between is refused); boolean locals and small helper functions are evaluated.
        c = cfgmod.cfg_of(fn)
        user_nodes = [n for n in c.events(('call',)) if anchors.call_target(F, E, fn, n)[1] is not None or
                      (anchors.call_target(F, E, fn, n)[0] is not None and anchors.call_target(F, E, fn, n)[0].tkey == 'ffsm2::detail::A_')]
        user_ids = set(id(n.e) for n in user_nodes)
        ok_pos = bool(user_nodes)
        # every combination of (flag at entry, which of the user calls cancel): entered with the flag clear, the wrapper reports exactly
        # whether the flag is set at its exit -- i.e. whether any guard it delivered (an injection's or the state's own) cancelled
        verdicts = {}
        ok = ok_pos
        n_u = len(user_nodes)
        for cancels in itertools.product([False, True], repeat=n_u):
            ret, f_end, made = guard_result(F, fn, user_ids, False, cancels)
            verdicts[cancels] = (ret, f_end)
            if ret != f_end:
                ok = False
        # entered with the flag already set nothing can be *newly* cancelled
        ret_t, _, _ = guard_result(F, fn, user_ids, True, (False,) * n_u)
        if ret_t is not False:
            ok = False
        verdicts['flag set at entry'] = ret_t
        run.ob('C03.e', 'S_::%s returns "newly cancelled" (F,T)->true, (*,F)->false; flag sampled around the user code' % fn.m, ok, where=fn.pat,
               detail=None if ok else {'(which user calls cancel) -> (returned, flag at exit)': {str(k): v for k, v in verdicts.items()}, 'has user code': ok_pos},
               key='S_::%s does not report a new cancellation correctly' % fn.m)
    # writers of _cancelled
    for fn in F.fns:
        direct = set()
        for e in ir.all_exprs(fn):
            if e['k'] == 'asg':
                for p in E.lv(e['l'], fn):
                    if p[-1] == '_cancelled':
                        direct.add((ir.const_val(e['r']),))
        if direct:
            ok = fn.tkey == 'ffsm2::detail::GuardControlT' and fn.m == 'cancelPendingTransition' and direct == {(1,)}
            run.ob('C03.e', '%s is the only writer of _cancelled and sets it' % fn.short, ok, where=fn.pat, key='%s writes _cancelled' % fn.short)
    for fn in F.find('GuardControlT', 'cancelPendingTransition'):
        ws = E.writes_star(fn)
        run.ob('C03.e', 'cancelPendingTransition writes only the cancellation flag', ws == {('this', '_cancelled')}, where=fn.pat, detail=sorted(ws),
               key='cancelPendingTransition has other effects')


def veto_takes(run, F, rule='C03.e'):
    """a veto always takes: whatever state (or the root head, origin = the invalid id) calls cancelPendingTransition(), and whatever the
    flag was, the cancellation flag is set when it returns -- decided by evaluating the function on the comparison domain of the
    origin id; the guard wrappers' verdicts above assume exactly this of a user callback that cancels"""
    from lint import cmpdomain
    from lint.cmpdomain import Obj
    for fn in F.find('GuardControlT', 'cancelPendingTransition'):
        for flag0 in (False, True):
            def run_eval(ev, vals, fn=fn, flag0=flag0):
                this = Obj(_cancelled=flag0, _originId=vals['origin'], _core=Obj(logger=0, context=Obj()))
                try:
                    ev.call(fn, this, [])
                except cmpdomain.NotPure as x:
                    raise AnalysisBroken('cancelPendingTransition is not evaluable: %s' % x)
                return this['_cancelled']
            ok, bad, cells, consts = cmpdomain.decide(F, run_eval, ['origin'], lambda origin: True)
            run.ob(rule, 'cancelPendingTransition() sets the cancellation flag for every calling state, the root head included (flag before: %s; %d cells, constants %s)' % (flag0, cells, consts),
                   ok, where=fn.pat, detail=bad, key='a veto does not always take: cancelPendingTransition() can return without cancelling')


def reach_rules(run, F, E):
    for name in ('cancelledByGuards', 'cancelledByEntryGuards'):
        for fn in F.find('R_', name):
            path = E.path_to(fn, lambda g: g.m in LIFECYCLE)
            run.ob('C03.d', 'R_::%s cannot reach enter/exit/reenter' % name, path is None, where=fn.pat, detail=path,
                   key='guard evaluation (%s) reaches a lifecycle dispatcher' % name)
            ws = sorted(p for p in E.writes_star(fn) if effects.touches(p, ('core', 'registry')))
            run.ob('C03.d', 'R_::%s cannot write the registry' % name, not ws, where=fn.pat, detail=ws or None,
                   key='guard evaluation (%s) writes the registry' % name)
            users = sorted(set(u.get('m') for _, u in E.reaches_user(fn)))
            run.ob('C03.d', 'R_::%s reaches only guard callbacks of user code' % name, set(users) <= {'entryGuard', 'exitGuard'} and bool(users),
                   where=fn.pat, detail=users, key='guard evaluation (%s) runs non-guard user code' % name)
    for tk, m in (('R_', 'replayTransition'), ('RV_', 'replayEnter'), ('R_', 'load'), ('RV_', 'load'), ('RV_', 'loadEnter'), ('R_', 'finalExit')):
        for fn in F.find(tk, m):
            path = E.path_to(fn, lambda g: g.m in GUARDS)
            users = sorted(set(u.get('m') for _, u in E.reaches_user(fn) if u.get('m') in ('entryGuard', 'exitGuard')))
            run.ob('C03.f', '%s::%s consults no guard' % (tk, m), path is None and not users, where=fn.pat, detail=path or users or None,
                   key='%s::%s consults guards' % (tk, m))


def run(run):
    run.guard('flow obligations', flow_rules.flow_obligations, run, {'C03.a', 'C03.b', 'C03.c', 'C02.d'})
    for c in facts.configs(run.tier):
        for v in facts.variants(run.tier):
            F = facts.load('w_core', c, v)
            E = effects.Effects(F)
            run.count('fact units')
            run.guard('wrappers', wrappers, run, F, E)
            run.guard('reach rules', reach_rules, run, F, E)
            run.guard('veto takes', veto_takes, run, F)
            # the pending transition the guards are shown is the request that was made: every writer replaces the whole request object
            from rules import c02 as _c02
            run.guard('request writers', _c02.request_writers, run, F, E)
            run.relabel('C02.a', 'C03.g')
            facts.drop(F)
            cfgmod.clear_cache()
    run.floor('C03.a', 100)
    run.floor('C03.c', 100)
    run.floor('C03.d', 40)
    run.floor('C03.e', 60)
    run.floor('C03.f', 16)
    run.floor('C03.g', 8)
    run.explanation = (
        'The guard rounds are interpreted with guard results as unknown booleans (both outcomes explored at every guard, '
        'path-sensitively inside a round); observers check order, short circuit, the bindings of the guard control and that '
        'acceptance happens only on the not-cancelled edge; with C02.d this gives fallback to the last survivor. Call-graph / '
        'effect rules show that guard evaluation cannot enter or exit anything and that replay/load never consult guards; the '
        'guard wrappers\' return expression is evaluated over its four-row truth table.')
