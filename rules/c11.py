"""C11 -- transition history mirrors what happened; replay keeps replicas in sync.

C11.a  [effect] previousTransition is written only by processRequest, initialEnter, finalExit, replayTransition, load,
       replayEnter and the CoreT constructors.
C11.b  [flow] at return of every processing entry point previousTransition equals the accepted transition field by
       field; its destination is the active state when non-empty, and nothing happened when it is empty.
C11.c  [flow+effect] replayTransition(d) / replayEnter(d): exactly the exit/enter (or reenter) of C01 with the entered
       state == d, history := d, no guards; replayTransition(invalid) returns false with no dispatch and no registry write.
C11.e  [cmp] the surviving request is never replaced silently: a request that differs from the accepted transition (origin,
       destination, payload) is not dropped without a guard round, so history carries the origin and payload of the last
       request no guard cancelled (shares C02.f).
C11.d  copies keep the history (copy/move constructors copy previousTransition; shares C17.b).
"""
from lint import facts, ir, effects, records, cfg as cfgmod
from rules import flow_rules
from rules.c01 import tk_short
from rules.c03 import GUARDS
from lint import anchors

LEVEL = 'other'

ALLOWED_WRITERS = {('R_', 'processRequest'), ('R_', 'initialEnter'), ('R_', 'finalExit'), ('R_', 'replayTransition'), ('R_', 'load'),
                   ('RV_', 'replayEnter'), ('CoreT', 'CoreT')}


def history_writers(run, F, E):
    for fn in F.fns:
        hit = False
        for e, g in E.call_sites(fn):
            if e['k'] == 'call' and ir.is_expr(e.get('obj')) and g is not None and fn.tkey != 'ffsm2::detail::TransitionBase':
                if any(p[:2] == ('core', 'previousTransition') for p in E.lv(e['obj'], fn)) and E.summary(g)['writes']:
                    hit = True
            if e['k'] == 'call' and (e.get('op') == '=' or e.get('m') == 'operator=') and ir.is_expr(e.get('obj')):
                if any(p[:2] == ('core', 'previousTransition') for p in E.lv(e['obj'], fn)):
                    hit = True
        for e in ir.all_exprs(fn):
            if e['k'] == 'asg' and any(p[:2] == ('core', 'previousTransition') for p in E.lv(e['l'], fn)):
                hit = True
        if fn.kind == 'ctor' and fn.tkey == 'ffsm2::detail::CoreT':
            continue
        if hit:
            ok = tk_short(fn) in ALLOWED_WRITERS
            why = 'is an expected writer of previousTransition'
            if not ok and anchors.is_internal_helper(F, fn):
                # a non-public helper reached only (transitively, through helpers) from the expected writers
                ok = not anchors.reached_only_from(F, E, fn, ALLOWED_WRITERS) and bool(E.callers().get(fn.id))
                why = 'is a non-public helper reached only from the expected writers of previousTransition'
            run.ob('C11.a', '%s %s' % (fn.short, why), ok, where=fn.pat, key='%s writes previousTransition' % fn.short)


def replay_shape(run, F, E):
    for tk, m in (('R_', 'replayTransition'), ('RV_', 'replayEnter')):
        for fn in F.find(tk, m):
            path = E.path_to(fn, lambda g: g.m in GUARDS)
            run.ob('C11.c', '%s::%s consults no guard' % (tk, m), path is None, where=fn.pat, detail=path, key='%s::%s consults guards' % (tk, m))
            users = sorted(set(u.get('m') for _, u in E.reaches_user(fn)))
            run.ob('C11.c', '%s::%s runs only enter/exit/reenter of user code' % (tk, m), set(users) <= {'enter', 'exit', 'reenter'} and bool(users),
                   where=fn.pat, detail=users, key='%s::%s runs other user callbacks' % (tk, m))
            # history := Transition{destination} (a public wrapper that only forwards to a non-public implementation is looked through)
            fn = anchors.through_forwarders(F, fn)
            c = cfgmod.cfg_of(fn)
            asg = [n for n in c.events(('call',)) if (n.e.get('op') == '=' or n.e.get('m') == 'operator=') and ir.is_expr(n.e.get('obj'))
                   and E.lv(n.e['obj'], fn) == {('core', 'previousTransition')}]
            ok = len(asg) == 1
            if ok:
                src = ir.strip(asg[0].e['args'][0])
                ok = src['k'] == 'ctor' and len(src.get('args', [])) == 1 and ir.strip(src['args'][0])['k'] == 'var' and ir.strip(src['args'][0]).get('pi') == 0
            run.ob('C11.c', '%s::%s records Transition{destination} as the history' % (tk, m), ok, where=fn.pat,
                   key='%s::%s does not record the replayed destination' % (tk, m))


def run(run):
    hcfgs = [c for c in facts.configs(run.tier) if facts.cfg_has(c, 'H')]
    run.require(hcfgs, 'no configuration with transition history')
    run.guard('flow obligations', flow_rules.flow_obligations, run, {'C11.b', 'C11.c', 'C02.d'}, cfgs=hcfgs)
    for c in hcfgs:
        for v in facts.variants(run.tier):
            F = facts.load('w_core', c, v)
            E = effects.Effects(F)
            run.count('fact units')
            run.guard('history writers', history_writers, run, F, E)
            run.guard('replay shape', replay_shape, run, F, E)
            # only the classes a machine's history lives in matter here (hand-written copies of anything else are C17.b's)
            hist = ('ffsm2::detail::CoreT<', 'ffsm2::detail::R_<', 'ffsm2::detail::RV_<', 'ffsm2::detail::RP_<', 'ffsm2::detail::InstanceT<', 'ffsm2::detail::TransitionT<')
            run.guard('copy ctor coverage', records.copy_ctor_coverage, run, 'C11.d', F,
                      lambda rec: None if rec['name'].startswith(hist) else 'carries no transition history (its copies are decided by C17.b)')
            from rules import c02
            run.guard('drop condition', c02.drop_condition, run, F)
            run.relabel('C02.f', 'C11.e')
            # the history is a copy of the request that survived: every request writer must put a *whole* request into the slot (a writer
            # that sets only the destination leaves the origin / payload of an earlier, consumed request in it -- and in the history)
            run.guard('request writers', c02.request_writers, run, F, E)
            run.relabel('C02.a', 'C11.f')
            facts.drop(F)
            cfgmod.clear_cache()
    run.floor('C11.a', 20)
    run.floor('C11.b', 50)
    run.floor('C11.c', 30)
    run.floor('C11.d', 10)
    run.floor('C11.e', 8)
    run.floor('C11.f', 8)
    run.explanation = (
        'Effect-set rule on the writers of previousTransition, must-equality dataflow showing that at return the history equals '
        'the accepted transition (whose destination the same analysis shows to be the state finally entered, C02.d), a typestate '
        'interpretation of replayTransition / replayEnter for every argument (invalid id: no dispatch, no registry write, returns '
        'false), call-graph rules that replay never reaches guards, and the copy-constructor coverage rule for copies.')
