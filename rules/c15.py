"""C15 -- injected base behaviours wrap the state's own callbacks in LIFO order.

C15.a  [order] for each witness state with k = 0..3 injections and each callback kind, the flattened sequence of
       user callbacks reached from S_::deepX is I1..Ik,state for the set-up kinds and state,Ik..I1 for exit,
       postUpdate, postReact; every callback exactly once, unconditionally.
C15.b  structural induction over the two A_ patterns: A_<First, Rest...>::wideX calls First::X before Rest::wideX
       (set-up kinds) / after it (tear-down kinds) and nothing else; A_<First>::wideX calls First::X exactly once;
       S_::deepX places Head::wideX before / after Head::X accordingly.
"""
from lint import facts, ir, effects, anchors, cfg as cfgmod
from lint.common import AnalysisBroken

LEVEL = 'other'

SETUP = {'entryGuard', 'enter', 'reenter', 'preUpdate', 'update', 'preReact', 'react'}
TEARDOWN = {'exit', 'postUpdate', 'postReact'}


def short_cls(c):
    c = c or '?'
    head = c.split('<')[0]
    return head.split('::')[-1] + ('<>' if '<' in c else '')


def run(run):
    cfgs = [''] if run.tier == 'quick' else ['', 'PSHL', 'PSHVRDT', 'L']
    jobs = [('w_inj', c, v) for c in cfgs for v in facts.variants(run.tier)]
    facts.prefetch(jobs)
    for (w, c, v) in jobs:
        F = facts.load(w, c, v)
        run.require(F.unknown == 0, 'unknown AST nodes in %s' % F.label())
        E = effects.Effects(F)
        run.count('units')
        run.count('functions', len(F.fns))
        run.guard('one', one, run, F, E)
        run.guard('qualified calls', qualified_calls, run, F, E)
        facts.drop(F)
        cfgmod.clear_cache()
    run.floor('C15.a', 45)
    run.floor('C15.b', 30)
    run.floor('C15.c', 30)
    run.explanation = (
        'Order rule on the control-flow graphs of the instantiated S_ wrappers and A_ dispatchers of witness w_inj '
        '(states with 0,1,2,3 injections plus a head with 2; every callback defined at every level): the resolved user '
        'callees are flattened in program order and compared with the order the statement prescribes. The pattern-level '
        'clause (C15.b) covers every number of injections by induction over the recursive and the base A_ template.')


def qualified_calls(run, F, E):
    """C15.c: every user callback is invoked through a *qualified* name (`First::enter(control)`, `Head::enter(control)`), i.e. without
    virtual dispatch: were the call made through the object (`static_cast<First&>(*this).enter(control)`), an injection that declares its
    callbacks virtual would have them redirected to the final overrider -- the state's own callback would run once per injection and the
    injections' never."""
    for fn in F.fns:
        if fn.tkey not in ('ffsm2::detail::A_', 'ffsm2::detail::S_') or fn.body is None:
            continue
        c = cfgmod.cfg_of(fn)
        sites = []
        for n in c.events(('call',)):
            g, u = anchors.call_target(F, E, fn, n)
            if u is not None and not anchors.is_logger_call(n.e) and not n.e.get('pm'):
                sites.append(n)
        if not sites:
            continue
        bad = [ir.pp(n.e)[:80] for n in sites if not n.e.get('qualified')]
        run.ob('C15.c', '%s::%s invokes its %d user callback(s) through qualified names (no virtual dispatch)' % (fn.tkey.split('::')[-1], fn.m, len(sites)), not bad,
               where=fn.pat, detail=bad[:3] or None, key='%s::%s can dispatch a user callback virtually' % (fn.tkey.split('::')[-1], fn.m))


def one(run, F, E, only_kinds=None, rule_a='C15.a', unordered=False):
    """only_kinds / unordered: the query clause of C05 re-uses the flattening for `query` (exactly once each, order not prescribed)"""
    follow = lambda g: g.tkey == 'ffsm2::detail::A_' and g.m.startswith('wide')
    # ---- C15.a flattened order per state and kind
    for fn in F.find('S_'):
        if fn.m not in anchors.WRAPPERS or fn.m.startswith('wrap'):
            continue
        if anchors.is_empty_state_spec(fn):
            continue
        user_m, _, _ = anchors.WRAPPERS[fn.m]
        if only_kinds is not None:
            if user_m not in only_kinds:
                continue
        elif user_m in ('exitGuard', 'query'):
            continue    # the statement does not constrain their order
        seq, flags = anchors.flatten_user_calls(F, E, fn, follow=follow)
        seq = [(short_cls(c), m) for (c, m, n) in seq]
        # expected from the injection list of the state's A_ base
        state_cls = fn.targs[2] if len(fn.targs) > 2 else '?'
        inj = None
        for e, g in E.call_sites(fn):
            if g is not None and g.tkey == 'ffsm2::detail::A_' and g.m.startswith('wide'):
                rec = F.rec_by_name.get(g.cls)
                inj = [short_cls(t) for t in (rec.get('targs') if rec else [])]
        if inj is None:
            run.ob('C15.a', '%s of %s dispatches to its injections' % (fn.m, short_cls(state_cls)), False, where=fn.pat,
                   key='%s does not call Head::wide*' % fn.short)
            continue
        # a state without injections derives from A_<B_<Args>>: B_ has no user code
        inj = [i for i in inj if i != 'B_<>']
        me = short_cls(state_cls)
        # the state's own step: `Head::X(control)` -- resolved to the state's callback if it defines one, otherwise it must resolve to a
        # library no-op (A_/B_ stub); were it to resolve to an injection's callback, that callback runs twice (it then shows up in `seq`)
        c = cfgmod.cfg_of(fn)
        own = []
        for n in c.events(('call',)):
            g, u = anchors.call_target(F, E, fn, n)
            name = g.m if g is not None else (u.get('m') if u is not None else n.e.get('m'))
            if anchors.is_logger_call(n.e) or name != user_m:
                continue
            if u is not None:
                own.append(short_cls(u.get('cls')))
            elif g is not None and g.tkey in ('ffsm2::detail::A_', 'ffsm2::detail::B_') and g.m == user_m:
                body_calls = [x for x in ir.all_exprs(g) if x['k'] == 'call']
                if body_calls:
                    raise AnalysisBroken('%s is not a no-op stub' % g.short)
                own.append(None)
        if len(own) != 1:
            raise AnalysisBroken('%s: expected exactly one call of the state\'s own %s, found %d' % (fn.short, user_m, len(own)))
        mine = [(me, user_m)] if own[0] is not None else []
        if own[0] is not None and own[0] != me:
            mine = [(me, user_m)]       # resolves to somebody else's callback: the comparison below fails and shows it
        if user_m in SETUP:
            want = [(i, user_m) for i in inj] + mine
        else:
            want = mine + [(i, user_m) for i in reversed(inj)]
        ok = (sorted(seq) == sorted(want) if unordered else seq == want) and flags['unconditional'] and (flags['ordered'] or unordered)
        run.ob(rule_a, '%s(%s, k=%d): %s' % (fn.m, me, len(inj), ' '.join('%s::%s' % x for x in want)), ok, where=fn.pat,
               detail=None if ok else {'got': ['%s::%s' % x for x in seq], 'flags': flags},
               key='%s delivers %s in the wrong order or not exactly once' % ('S_::' + fn.m, user_m))
    if only_kinds is not None:
        return
    # ---- C15.b pattern-level induction
    for fn in F.find('A_'):
        if not fn.m.startswith('wide'):
            continue
        user_m = fn.m[4].lower() + fn.m[5:]
        if user_m in ('exitGuard', 'query'):
            continue
        rec = F.rec_by_name.get(fn.cls)
        targs = rec.get('targs') if rec else []
        c = cfgmod.cfg_of(fn)
        calls, uncond, ordered = anchors.ordered_events(c, lambda n: n.kind == 'call')
        names = []
        for n in calls:
            e = n.e
            names.append((e.get('m'), 'rest' if (e.get('cls') or '').startswith('ffsm2::detail::A_<') and e.get('m', '').startswith('wide') else 'first'))
        if len(targs) >= 2:
            want = [(user_m, 'first'), (fn.m, 'rest')] if user_m in SETUP else [(fn.m, 'rest'), (user_m, 'first')]
            what = 'recursive pattern A_<First, Rest...>::%s' % fn.m
        else:
            want = [(user_m, 'first')]
            what = 'base pattern A_<First>::%s' % fn.m
        ok = names == want and uncond and ordered
        # the 'first' callee must belong to First (targs[0]) or one of its bases -- resolved by the compiler through First::X
        run.ob('C15.b', '%s = %s' % (what, ' then '.join('%s::%s' % (k.capitalize(), m) for m, k in want)), ok, where=fn.pat,
               detail=None if ok else {'got': names}, key='%s has the wrong shape' % ('A_::' + fn.m))
    # S_ placement of wide vs own
    for fn in F.find('S_'):
        if fn.m not in anchors.WRAPPERS or fn.m.startswith('wrap') or anchors.is_empty_state_spec(fn):
            continue
        user_m, _, _ = anchors.WRAPPERS[fn.m]
        if user_m in ('exitGuard', 'query'):
            continue
        c = cfgmod.cfg_of(fn)

        def sel(n):
            if n.kind != 'call':
                return False
            g, u = anchors.call_target(F, E, fn, n)
            if u is not None:
                return True
            if g is not None and g.tkey == 'ffsm2::detail::A_' and (g.m.startswith('wide') or g.m == user_m):
                return True
            return False
        calls, uncond, ordered = anchors.ordered_events(c, sel)
        kinds = []
        for n in calls:
            g, u = anchors.call_target(F, E, fn, n)
            m = (u or {}).get('m') if u is not None else g.m
            kinds.append('wide' if m.startswith('wide') else 'own')
        want = ['wide', 'own'] if user_m in SETUP else ['own', 'wide']
        ok = kinds == want and uncond and ordered
        run.ob('C15.b', 'S_::%s = %s' % (fn.m, ' then '.join(want)), ok, where=fn.pat, detail=None if ok else {'got': kinds},
               key='S_::%s orders injections and own callback wrongly' % fn.m)
