"""Shape rules on the CS_ dispatchers, R_::access<T>() and the initial request (C14.b/c/d, C05.b)."""
from lint import facts, ir, effects, anchors, cfg as cfgmod
from lint.common import AnalysisBroken


def norm_threshold(cond, prong_id):
    """normalise a branch condition to ('lt', K, swap): the T edge (F edge if swap) is taken iff prong < K."""
    e = ir.strip(cond)
    if e['k'] != 'bin':
        return None
    l, r = ir.strip(e['l']), ir.strip(e['r'])
    op = e['op']
    mirror = {'<': '>', '>': '<', '<=': '>=', '>=': '<='}
    if l['k'] == 'c' and r['k'] == 'var':
        l, r = r, l
        op = mirror.get(op)
    if not (l['k'] == 'var' and l.get('id') == prong_id and r['k'] == 'c') or op is None:
        return None
    k = r['v']
    if op == '<':
        return ('lt', k, False)
    if op == '<=':
        return ('lt', k + 1, False)
    if op == '>=':
        return ('lt', k, True)
    if op == '>':
        return ('lt', k + 1, True)
    return None


def args_forward_params(call, fn, drop_last=False):
    """the call passes fn's own parameters, in order, unchanged (optionally without the trailing `prong`)."""
    want = [p['id'] for p in fn.params]
    if drop_last:
        want = want[:-1]
    got = []
    for a in call.get('args', []):
        a = ir.strip(a)
        if a['k'] != 'var' or a.get('vk') != 'param':
            return False
        got.append(a['id'])
    return got == want


def obj_is_this(call):
    o = call.get('obj')
    if o is None:
        return True
    o = ir.strip(o)
    return o['k'] == 'this'


def check_dispatchers(run, F, E, rule):
    n_split = n_leaf = 0
    for fn in F.find('CS_'):
        if not fn.m.startswith('wide'):
            continue
        kind = anchors.cs_kind(F, E, fn)
        c = cfgmod.cfg_of(fn)
        rec = F.rec_by_name.get(fn.cls) or {}
        consts = rec.get('consts', {})
        own_prong = consts.get('PRONG_INDEX')
        what = fn.m
        if kind == 'split':
            n_split += 1
            prong_id = fn.params[-1]['id'] if fn.params else None
            branches = c.events(('branch',))
            calls = c.events(('call', 'ctor'))
            writes = c.events(('write', 'new', 'delete'))
            ok = len(branches) == 1 and len(calls) == 2 and not writes
            detail = None
            if ok:
                th = norm_threshold(branches[0].e, prong_id)
                if th is None:
                    ok = False
                    detail = 'condition is not a threshold test on prong: ' + ir.pp(branches[0].e)
                else:
                    _, k, swap = th
                    t_succ = [s for s, lab in branches[0].succ if lab == ('F' if swap else 'T')][0]
                    f_succ = [s for s, lab in branches[0].succ if lab == ('T' if swap else 'F')][0]
                    lo_calls = [x for x in calls if c.dominates(t_succ, x)]
                    hi_calls = [x for x in calls if c.dominates(f_succ, x)]
                    if len(lo_calls) != 1 or len(hi_calls) != 1:
                        ok = False
                        detail = 'each branch must make exactly one call'
                    else:
                        lo, hi = lo_calls[0].e, hi_calls[0].e
                        lo_rec = F.rec_by_name.get(lo.get('cls')) or {}
                        hi_rec = F.rec_by_name.get(hi.get('cls')) or {}
                        lo_p = lo_rec.get('consts', {}).get('PRONG_INDEX')
                        hi_p = hi_rec.get('consts', {}).get('PRONG_INDEX')
                        conds = {
                            'same kind on both sides': lo.get('m') == fn.m and hi.get('m') == fn.m,
                            'threshold == R_PRONG': k == consts.get('R_PRONG'),
                            'prong < K goes to the half starting at L_PRONG': lo_p == own_prong and own_prong is not None,
                            'prong >= K goes to the half starting at K': hi_p == k,
                            'arguments forwarded unchanged': args_forward_params(lo, fn) and args_forward_params(hi, fn),
                            'called on this object': obj_is_this(lo) and obj_is_this(hi),
                            'halves are CS_ nodes': (lo.get('cls') or '').startswith('ffsm2::detail::CS_<') and (hi.get('cls') or '').startswith('ffsm2::detail::CS_<'),
                        }
                        bad = [k2 for k2, v in conds.items() if not v]
                        if bad:
                            ok = False
                            detail = {'failed': bad, 'K': k, 'R_PRONG': consts.get('R_PRONG'), 'lo_prong': lo_p, 'hi_prong': hi_p}
            else:
                detail = {'branches': len(branches), 'calls': len(calls), 'writes': len(writes)}
            run.ob(rule, 'split CS_::%s [%d,..) K=%s dispatches prong<K left, else right' % (what, own_prong if own_prong is not None else -1, consts.get('R_PRONG')),
                   ok, where=fn.pat, detail=detail, key='split dispatcher CS_::%s is not a correct binary search step' % what)
        else:
            n_leaf += 1
            calls = c.events(('call', 'ctor'))
            branches = c.events(('branch',))
            writes = c.events(('write', 'new', 'delete'))
            ok = len(calls) == 1 and not branches and not writes
            detail = None
            if ok:
                e = calls[0].e
                want_m = 'deep' + fn.m[4:]
                conds = {
                    'calls Single::%s' % want_m: e.get('m') == want_m,
                    'callee is the wrapped state': (e.get('cls') or '').startswith(('ffsm2::detail::S_<', 'ffsm2::detail::C_<')),
                    'arguments forwarded unchanged': args_forward_params(e, fn, drop_last=True),
                    'called on this object': obj_is_this(e),
                    'unconditional': c.postdominates(calls[0], c.entry),
                }
                bad = [k2 for k2, v in conds.items() if not v]
                if bad:
                    ok = False
                    detail = {'failed': bad, 'call': ir.pp(e)}
            else:
                detail = {'calls': len(calls), 'branches': len(branches), 'writes': len(writes)}
            run.ob(rule, 'leaf CS_::%s prong %s calls Single::deep%s exactly once' % (what, own_prong, fn.m[4:]), ok,
                   where=fn.pat, detail=detail, key='leaf dispatcher CS_::%s does not forward to its state exactly once' % what)
    return n_split, n_leaf


def check_access(run, F, rule):
    n = 0
    for fn in F.find('R_', 'access'):
        rets = [s for s in ir.walk_stmts(fn.body) if s.get('s') == 'ret']
        ok = False
        detail = None
        if len(rets) == 1:
            e = rets[0]['e']
            # peel value-preserving wrappers but look at every cast on the way
            casts = []
            x = e
            while ir.is_expr(x) and x['k'] in ('cast', 'tmp', 'definit'):
                if x['k'] == 'cast':
                    casts.append((x.get('ck'), x.get('kind')))
                x = x['e']
            allowed = {'DerivedToBase', 'UncheckedDerivedToBase', 'NoOp', 'LValueToRValue'}
            ok = ir.is_expr(x) and x['k'] == 'mem' and x['f'] == '_apex' and ir.is_expr(x['b']) and x['b']['k'] == 'this' and \
                all(ck in ('static', 'implicit') and kind in allowed for ck, kind in casts) and \
                any(kind in ('DerivedToBase', 'UncheckedDerivedToBase') for _, kind in casts)
            detail = None if ok else {'expr': ir.pp(e), 'casts': casts}
        n += 1
        run.ob(rule, 'R_::access<%s>()%s is a derived-to-base conversion of _apex' % (
            ir.short_type((fn.d.get('ftargs') or ['?'])[0]), ' const' if fn.is_const() else ''), ok, where=fn.pat,
            detail=detail, key='R_::access<T>() is not a plain upcast of the apex')
    return n


def check_no_state_copies(run, F, rule):
    """C14.e: the callbacks of a state run on the object access<T>() returns, so library code must never copy- or move-construct a state
    wrapper (S_) or a user state -- a by-value local (`auto head = static_cast<HeadState&>(*this)`) would silently run them on a copy.
    (Copying a whole machine goes through the implicit member-wise constructors of the owning classes, not through library code.)"""
    n_fn = 0
    for fn in F.fns:
        if fn.body is None or fn.d.get('implicit') or (fn.kind == 'ctor' and fn.d.get('ctorkind') in ('copy', 'move')):
            continue
        if not (fn.tkey or '').startswith('ffsm2::detail::'):
            continue
        hits = []
        for e in ir.all_exprs(fn):
            if e['k'] == 'ctor' and (e.get('copy') or e.get('move')):
                cls = e.get('cls') or ''
                user = not cls.startswith('ffsm2::') and not cls.startswith('std::') and '::' in cls and (e.get('defloc') or '').find('/witness/') >= 0
                if cls.startswith('ffsm2::detail::S_<') or cls.startswith('ffsm2::detail::C_<') or cls.startswith('ffsm2::detail::CS_<') or user:
                    hits.append(ir.pp(e)[:70])
        if hits:
            n_fn += 1
        if hits or fn.tkey in ('ffsm2::detail::C_', 'ffsm2::detail::R_'):
            run.ob(rule, '%s does not copy a state object' % fn.short, not hits, where=fn.pat, detail=hits[:2] or None,
                   key='%s copies a state object (callbacks would run on the copy)' % fn.short)
    return n_fn


def check_initial_request(run, F, rule):
    n = 0
    for fn in F.find('R_', 'initialEnter'):
        c = cfgmod.cfg_of(fn)
        apps = c.events(('call',), lambda nd: nd.e.get('m') == 'applyRequest')
        enters = c.events(('call',), lambda nd: nd.e.get('m') == 'deepEnter')
        first = [a for a in apps if all(c.dominates(a, b) for b in apps)]
        ok = bool(first) and len(enters) == 1
        if ok:
            a = first[0].e
            ok = len(a.get('args', [])) == 2 and ir.const_val(a['args'][1]) == 0 and c.dominates(first[0], enters[0]) and \
                c.postdominates(first[0], c.entry)
        n += 1
        run.ob(rule, 'R_::initialEnter first requests the constant state 0, unconditionally, before entering', ok, where=fn.pat,
               key='initial request is not the first declared state')
    return n


def c14(run):
    cfgs = ['', 'P', 'PSHL'] if run.tier == 'quick' else facts.configs('thorough')
    jobs = [('w_core', c, v) for c in cfgs for v in facts.variants(run.tier)]
    facts.prefetch(jobs)
    for (w, c, v) in jobs:
        F = facts.load(w, c, v)
        run.require(F.unknown == 0, 'unknown AST nodes in %s' % F.label())
        E = effects.Effects(F)
        run.count('fact units')
        ns, nl = check_dispatchers(run, F, E, 'C14.b')
        run.count('split dispatchers', ns)
        run.count('leaf dispatchers', nl)
        check_access(run, F, 'C14.d')
        check_no_state_copies(run, F, 'C14.e')
        from rules import c01 as _c01
        _c01.deactivation_resets(run, F, E, 'C14.c')      # ... so that the next activation starts in the first declared state
        # a moved-from / copied-from machine keeps its registry: its destructor must exit the state it entered, not the last declared one
        from lint import records as _rec
        run.guard('source untouched', _rec.source_untouched, run, 'C14.f', F, E)
        facts.drop(F)
        cfgmod.clear_cache()
    # C14.c on the interpreted program (whatever functions the activation / processing code is split into): with nothing accepted the
    # state entered at activation is prong 0 -- the first declared state --, and a surviving request for id k enters exactly prong k
    from rules import flow_rules
    # -- for every entry point that dispatches (replay and load included): an enter/reenter/exit dispatched with the invalid prong falls
    # through the binary search to the last declared state, i.e. runs the callbacks of a state nobody asked for (C01.a observer)
    flow_rules.flow_obligations(run, {'C02.d', 'C01.a'}, cfgs=cfgs)
    run.relabel('C02.d', 'C14.c')
    run.relabel('C01.a', 'C14.c')
    run.floor('C14.b', 300)
    run.floor('C14.c', 3)
    run.floor('C14.d', 6)
    run.floor('C14.e', 20)
    run.floor('C14.f', 20)
