"""C04 -- request processing terminates within the substitution limit.

C04.a  [order] both substitution loops are counted loops: local induction variable, start 0, step +1 only in the
       increment expression, exit condition contains `i < K` with K == the configured SubstitutionLimit of this
       instantiation (witness w_limit: 1,2,3,4,255), at most one guard round per iteration, one guard evaluation before the
       loop in initialEnter; the 8-bit counter cannot wrap because K <= 255.
C04.b  [effect] no recursion among library functions; every other loop reachable from request processing is classified
       (bounded by a compile-time extent or by the plan list, C10).
C04.c  [flow] when the limit is hit the call still ends in exactly one active state chosen among the requests that passed
       their guards (C02.d + C01.a on the same interpretation).
C04.d  [effect] a leftover request stays in core.request and its only consumers are the guarded loops (C02.b).
C04.e  [type] the configured limit survives every order of the configuration setters.
C04.g  [order] one processing per call: immediate changes are request + exactly one processRequest, update()/react() end in exactly one
       (shares C02.c / C05.a) -- two bounded processings in one call are 2L rounds.
C04.f  [cmp] a veto always takes, whoever casts it -- the root head (origin = the invalid id) included (shares the C03.e evaluation of
       cancelPendingTransition on the comparison domain of the origin id).
"""
from lint import facts, ir, effects, anchors, loops, cfg as cfgmod
from lint.common import AnalysisBroken
from rules import flow_rules, c02

LEVEL = 'other'

# loops of the library, by function, with the reason they terminate
KNOWN_LOOPS = {
    'FullControlT::updatePlan': 'walks the plan list once (each iteration advances the iterator; list integrity is C10)',
    'PlanT::clearTasks': 'walks the plan list once, removing each task',
    'PlanT::clear': 'counted over STATE_COUNT',
    'BitArrayT::set': 'range over the storage', 'BitArrayT::clear': 'range over the storage', 'BitArrayT::empty': 'range over the storage',
    'BitArrayT::operator&': 'counted over UNIT_COUNT', 'BitArrayT::operator&=': 'counted over UNIT_COUNT',
    'StaticArrayT::fill': 'range over the items', 'StaticArrayT::empty': 'range over the items',
    'StreamBufferT::operator==': 'counted over BYTE_COUNT', 'StreamBufferT::operator!=': 'counted over BYTE_COUNT',
    'BitWriteStreamT::write': 'remaining width strictly decreases (C13.b)', 'BitReadStreamT::read': 'remaining width strictly decreases (C13.b)',
    'DynamicArrayT::operator+=': 'range over the other array',
}


def limit_of(F, fn):
    rec = F.rec_by_name.get(fn.cls) or {}
    return rec.get('consts', {}).get('SUBSTITUTION_LIMIT')


# the limit each machine of witness w_limit was *declared* with (namespace of its states -> limit); every other witness machine uses
# the default configuration
W_LIMIT_DECLARED = {'l1': 1, 'l2': 2, 'l3': 3, 'l4': 4, 'l255': 255, 't1': 4, 't2': 4, 't255': 4, 't8': 4, 't254': 4}
DEFAULT_LIMIT = 4


def configured_limit(F, fn):
    """(limit held by the configuration type the machine was instantiated with, limit its declaration asked for or None):
    R_<G_<...>, CI_<...>> -- the first template argument is the configuration, whose own constant is the configured limit (that the
    setters produce it is C04.e); the machines of w_limit are told apart by the namespace of their states"""
    rec = F.rec_by_name.get(fn.cls) or {}
    targs = rec.get('targs') or []
    cfg = F.rec_by_name.get(targs[0]) if targs else None
    k_cfg = (cfg or {}).get('consts', {}).get('SUBSTITUTION_LIMIT')
    declared = None
    if len(targs) > 1:
        import re
        m = re.search(r'CI_<[^,]*,\s*(\w+)::', targs[1])
        if m and m.group(1) in W_LIMIT_DECLARED:
            declared = W_LIMIT_DECLARED[m.group(1)]
    return k_cfg, declared


def substitution_loops(run, F, E, label):
    """the loops that apply outstanding requests, wherever they live (entry function or a helper it calls)"""
    for root_name, guard_names in (('processRequest', ('cancelledByGuards',)), ('initialEnter', ('cancelledByEntryGuards',))):
        for root in F.find('R_', root_name):
            K = limit_of(F, root)
            run.require(K is not None, 'SUBSTITUTION_LIMIT constant not found for ' + root.short)
            k_cfg, declared = configured_limit(F, root)
            run.require(k_cfg is not None, 'configuration type of %s (first template argument) has no SUBSTITUTION_LIMIT constant' % root.short)
            ok_cfg = K == k_cfg and (declared is None or declared == K)
            run.ob('C04.a', 'the limit R_::%s loops to is the configured one (%s)%s [%s]' % (root_name, k_cfg, '' if declared is None else ', declared as %d in the witness' % declared, label),
                   ok_cfg, where=root.pat, detail={'limit used by the machine': K, 'limit of its configuration type': k_cfg, 'declared': declared},
                   key='the substitution limit the machine uses is not the configured one')
            found = anchors.substitution_loops(F, E, root)
            if not found:
                raise AnalysisBroken('no loop that applies outstanding requests is reachable from R_::%s' % root_name)
            for fn, st in found:
                B = loops.bounded(fn, st)
                ok = B is not None
                detail = None
                if ok:
                    ty = B['var'].get('ty', '')
                    conds = {
                        'starts at 0': B['start'] == 0,
                        'every path that iterates again adds exactly 1 to the counter': B['per_iteration'] == 1,
                        'bounded by i < K with K == SubstitutionLimit (%d)' % K: (B['bound_op'] == '<' and B['bound_val'] == K) or (B['bound_op'] == '<=' and B['bound_val'] == K - 1) or (B['bound_op'] == '!=' and B['bound_val'] == K),
                        'counter is a local that only the increment writes': not B['problems'],
                        'counter cannot wrap (K <= max of its type)': K <= (255 if 'char' in ty else 65535),
                    }
                    bad = [k for k, v in conds.items() if not v]
                    if bad:
                        ok = False
                        detail = {'failed': bad, 'bound': (B['bound_op'], B['bound_val']), 'K': K, 'problems': B['problems']}
                else:
                    detail = 'no local counter compared with a constant in the loop condition'
                run.ob('C04.a', 'substitution loop of R_::%s (in %s) [limit %d, %s]: a local counter starts at 0, gains exactly 1 per iteration and the loop continues only while it is < %d' % (root_name, fn.short, K, label, K), ok,
                       where=st.get('l') or fn.pat, detail=detail, key='the substitution loop reached from R_::%s is not bounded by the substitution limit' % root_name)
                # guard rounds per iteration: call sites in the loop body that reach a guard dispatcher
                c = cfgmod.cfg_of(fn)

                gcalls = anchors.guard_round_sites(F, E, fn, c)
                inside = [n for n in gcalls if c.in_loop(n)]
                nested = [x for x in ir.walk_stmts(st.get('body')) if x.get('s') in ('for', 'while', 'do', 'rfor')]
                run.ob('C04.a', 'the substitution loop of R_::%s consults guards at one site per iteration (%d) and has no nested loop [%s]' % (root_name, len(inside), label),
                       len(inside) == 1 and not nested, where=fn.pat, detail={'guard sites in the loop': len(inside), 'nested loops': len(nested)},
                       key='the substitution loop reached from R_::%s has more than one guard round per iteration' % root_name)
            if root_name == 'initialEnter':
                c = cfgmod.cfg_of(root)
                # a guard round = a GuardControl constructed here or in a callee (whether the helper exists or its body is written out)
                owners = set(f_.id for f_, _ in found)

                def leads_to_loop(n):       # the call through which the loop's own function is reached (the loop lives in a helper)
                    hs = [F.fn(n.e['fn'])] if n.kind == 'call' and n.e.get('fn') is not None else []
                    return any(h is not None and (h.id in owners or any(k.id in owners for k in E.calls_star(h).values())) for h in hs)
                pre = [n for n in anchors.guard_round_sites(F, E, root, c) if not c.in_loop(n) and not leads_to_loop(n)]
                own_loop = any(fn is root for fn, st in found)
                want = 1
                run.ob('C04.a', 'R_::initialEnter evaluates the initial state\'s entry guards exactly once before the redirect loop [%s]' % label,
                       len(pre) == want, where=root.pat, detail={'guard evaluations outside the loop': len(pre)},
                       key='R_::initialEnter does not evaluate the initial entry guards exactly once')


def all_loops(run, F, E):
    n = 0
    subst = []
    for root_name in ('processRequest', 'initialEnter'):
        for root in F.find('R_', root_name):
            subst += anchors.substitution_loops(F, E, root)
    for fn in F.fns:
        lps = loops.loops_of(fn)
        if not lps:
            continue
        n += len(lps)
        known = fn.short in KNOWN_LOOPS or any(f is fn for f, _ in subst)
        if not known:
            # classified by what the loop is, not by where it lives: a range-for over a member array, or a counted loop (a local counter
            # compared with a compile-time constant, +1 on every iterating path, not written otherwise) terminates wherever it is added
            def terminates(st):
                if st.get('s') == 'rfor':
                    return st.get('extent') is not None
                B = loops.bounded(fn, st)
                return B is not None and B['per_iteration'] == 1 and not B['problems'] and isinstance(B['bound_val'], int) and B['bound_op'] in ('<', '<=', '!=')
            raw = [st for st in ir.walk_stmts(fn.body) if st.get('s') in ('for', 'rfor', 'while', 'do')]
            if not all(terminates(st) for st in raw):
                raise AnalysisBroken('unclassified loop in %s (%s): neither a counted loop nor a range over a member array; add it to KNOWN_LOOPS with the reason it terminates' % (fn.short, fn.pat))
        for L in lps:
            if L.kind in ('range',):
                ok = L.extent is not None or True
            run.count('loops classified')
    # recursion: the call graph restricted to FFSM2 bodies is acyclic
    color = {}
    cyc = []

    def dfs(f, stack):
        color[f.id] = 1
        for g in E.callees(f):
            if color.get(g.id) == 1:
                cyc.append([x.short for x in stack + [f, g]][-4:])
            elif g.id not in color:
                dfs(g, stack + [f])
        color[f.id] = 2
    import sys
    sys.setrecursionlimit(10000)
    for fn in F.fns:
        if fn.id not in color:
            dfs(fn, [])
    run.ob('C04.b', 'no recursion among %d instantiated library functions [%s]' % (len(F.fns), F.label()), not cyc, detail=cyc[:3] or None,
           key='library functions are recursive')
    run.ob('C04.b', 'all %d loops of the library are classified with the reason they terminate [%s]' % (n, F.label()), True)


def run(run):
    run.guard('flow obligations', flow_rules.flow_obligations, run, {'C02.d', 'C01.a', 'C03.a'})
    # rename the flow obligations: for C04 they are clause C04.c
    for o in run.obligations:
        if o['rule'] in ('C02.d', 'C01.a', 'C03.a'):
            c = run.rule_counts[o['rule']]
            c[0] -= 1
            if o['ok']:
                c[1] -= 1
            o['rule'] = 'C04.c'
            c2 = run.rule_counts.setdefault('C04.c', [0, 0])
            c2[0] += 1
            if o['ok']:
                c2[1] += 1
    run.rule_counts = {k: v for k, v in run.rule_counts.items() if v[0] > 0}
    cfgs = ['', 'P'] if run.tier == 'quick' else ['', 'P', 'PSHL', 'PSHVRDT']
    for c in cfgs:
        for v in facts.variants(run.tier):
            F = facts.load('w_limit', c, v)
            run.require(F.unknown == 0, 'unknown AST nodes')
            E = effects.Effects(F)
            run.count('fact units')
            run.guard('substitution loops', substitution_loops, run, F, E, F.label())
            facts.drop(F)
            cfgmod.clear_cache()
    for c in facts.configs(run.tier):
        for v in facts.variants(run.tier):
            F = facts.load('w_core', c, v)
            E = effects.Effects(F)
            run.count('fact units')
            run.guard('substitution loops', substitution_loops, run, F, E, F.label())
            run.guard('all loops', all_loops, run, F, E)
            run.guard('requested writers', c02.requested_writers, run, F, E)
            run.guard('leftover request survives', c02.leftover_request_survives, run, F, E, 'C04.d')
            # "at most L rounds per call": every call processes requests exactly once -- immediate changes are request + one processing,
            # update()/react() end in one processing (the order rules of C02.c / C05.a)
            run.guard('immediate', c02.immediate, run, F, E)
            run.relabel('C02.c', 'C04.g')
            from rules import c05 as _c05
            plans_ = facts.cfg_has(c, 'P')
            for fn_ in F.find('R_', 'update'):
                run.guard('check entry', _c05.check_entry, run, F, E, fn_, _c05.UPDATE_SEQ, plans_)
            for fn_ in F.find('R_', 'react'):
                run.guard('check entry', _c05.check_entry, run, F, E, fn_, _c05.REACT_SEQ, plans_)
            run.relabel('C05.a', 'C04.g')
            # "chosen among the requests that passed their guards": a veto always takes, whoever casts it (C03.e evaluation)
            from rules import c03 as _c03
            run.guard('veto takes', _c03.veto_takes, run, F, 'C04.f')
            facts.drop(F)
            cfgmod.clear_cache()
    for o in run.obligations:
        if o['rule'] == 'C02.b':
            c = run.rule_counts['C02.b']
            c[0] -= 1
            c[1] -= 1 if o['ok'] else 0
            o['rule'] = 'C04.d'
            c2 = run.rule_counts.setdefault('C04.d', [0, 0])
            c2[0] += 1
            c2[1] += 1 if o['ok'] else 0
    run.rule_counts = {k: v for k, v in run.rule_counts.items() if v[0] > 0}
    run.floor('C04.a', 60)
    run.floor('C04.b', 8)
    run.floor('C04.c', 100)
    run.floor('C04.d', 30)
    run.floor('C04.f', 4)
    run.floor('C04.g', 8)
    from gen import static_units as _su
    run.guard('configuration setters', _su.report, run, 'C04.e', _su.config_unit('C04.e'))      # the configured value survives every order of the setters
    run.guard('configuration setters', _su.report, run, 'C04.e', _su.config_unit('C04.e', plans=False))      # ... with and without the plan feature
    run.floor('C04.e', 1)
    run.explanation = (
        'Counted-loop rule on both substitution loops for limits {1,2,3,4,255} (and every witness machine), one guard round '
        'per iteration, acyclic call graph and a complete classification of the library\'s loops; the end state when the limit '
        'is hit is covered by the same abstract interpretation as C02.d/C01.a, which explores the loop-exit edge taken with a '
        'request still outstanding.')
