"""Typestate / must-equality observers on top of lint/flow.py (clauses C01.a, C02.d/e, C03.a/b/c, C04.c, C07.c, C11.b/c, C12.d).

One interpretation per (machine, entry point, precondition); the observers assert only at observable points: dispatch
events (= user code is about to run), and API return.
"""
import re

from lint import facts, ir, effects, flow, anchors
from lint.flow import State, V_U, V_s, V_b, V_o
from lint.common import AnalysisBroken

INST = ('I',)
CORE = ('I', '_core')
ACTIVE = CORE + ('registry', 'active')
REQUESTED = CORE + ('registry', 'requested')
REQUEST = CORE + ('request',)
PREV = CORE + ('previousTransition',)

UNTRACKED_PREFIXES = [CORE + ('planData',), CORE + ('logger',), CORE + ('context',), INST + ('_apex',), ('U',)]
UNTRACKED_TYPES = ('ffsm2::detail::PlanT<', 'ffsm2::detail::PayloadPlanT<', 'ffsm2::detail::CPlanT<', 'ffsm2::detail::BitArrayT<',
                   'ffsm2::detail::BitWriteStreamT<', 'ffsm2::detail::BitReadStreamT<', 'ffsm2::detail::StreamBufferT<',
                   'ffsm2::detail::TaskListT<', 'ffsm2::detail::StaticArrayT<', 'ffsm2::detail::TaskStatus', 'ffsm2::detail::TaskT<',
                   'ffsm2::detail::PlanDataT<')
SKIP_TKEYS = {'ffsm2::detail::PlanT', 'ffsm2::detail::PayloadPlanT', 'ffsm2::detail::CPlanT', 'ffsm2::detail::TaskListT',
              'ffsm2::detail::BitArrayT', 'ffsm2::detail::StaticArrayT', 'ffsm2::detail::PlanDataT', 'ffsm2::detail::StreamBufferT',
              'ffsm2::detail::BitWriteStreamT', 'ffsm2::LoggerInterfaceT', 'ffsm2::detail::PlanT::Iterator', 'ffsm2::detail::PlanT::CIterator',
              'ffsm2::detail::CPlanT::Iterator', 'ffsm2::detail::TaskStatus', 'ffsm2::detail::Bounds'}
TRACKED_CORE = [('core', 'registry'), ('core', 'request'), ('core', 'previousTransition')]

PHASE_KINDS = {'PreUpdate', 'Update', 'PostUpdate', 'PreReact', 'React', 'PostReact', 'Query', 'UpdatePlans'}
CONTROL_CHAIN = {
    'ConstControlT': ['ConstControlT'],
    'ControlT': ['ControlT'],
    'PlanControlT': ['ControlT', 'PlanControlT'],
    'FullControlT': ['ControlT', 'PlanControlT', 'FullControlBaseT', 'FullControlT'],
    'GuardControlT': ['ControlT', 'PlanControlT', 'FullControlBaseT', 'FullControlT', 'GuardControlT'],
}


def control_flavour(ty):
    m = re.match(r'(?:const )?ffsm2::detail::(\w+)<', ty or '')
    return m.group(1) if m else None


class HavocSets:
    """what a user callback can write through each control flavour (assumption A1, computed not assumed)"""

    def __init__(self, F, E):
        self.F = F
        self.E = E
        self.sets = {}
        self.public_methods = {}
        for flav, chain in CONTROL_CHAIN.items():
            paths = set()
            names = []
            for tk in chain:
                recs = F.recs(tk)
                pub = set()
                for r in recs:
                    for m in r.get('methods', []):
                        if m.get('access') == 0:
                            pub.add(m['m'])
                for fn in F.find(tk):
                    if fn.kind in ('ctor', 'dtor'):
                        continue
                    if fn.m not in pub:
                        continue
                    names.append(tk + '::' + fn.m)
                    for p in E.writes_star(fn):
                        paths.add(p)
            self.sets[flav] = paths
            self.public_methods[flav] = sorted(set(names))

    def touches_registry(self, flav):
        return sorted(p for p in self.sets[flav] if effects.touches(p, ('core', 'registry')))


class MachineInterp(flow.Interp):
    def __init__(self, F, E, havoc, mode, entry_name):
        super().__init__(F, E)
        self.havoc = havoc
        self.mode = mode
        self.entry_name = entry_name
        self.ut = set()
        self._skip_ok = {}
        self.stats = {'dispatch': 0, 'root': 0, 'guard_rounds': 0, 'accepts': 0}

    # ------------------------------------------------------------ configuration
    def untracked(self, loc):
        for p in UNTRACKED_PREFIXES:
            if loc[:len(p)] == p:
                return True
        for p in self.ut:
            if loc[:len(p)] == p:
                return True
        return False

    def untracked_type(self, ty):
        t = ty.replace('const ', '')
        if t.startswith(UNTRACKED_TYPES):
            return True
        return False

    def exec_decl(self, v, frame, st):
        if self.untracked_type(v.get('ty', '')) and not v.get('ref'):
            loc = ('F', frame.fid, v['n'])
            frame.vars[v['id']] = ('loc', loc)
            self.ut.add(loc)
            return [st]
        return super().exec_decl(v, frame, st)

    def key_of(self, st):
        k = list(super().key_of(st))
        # splitter: is the accepted ("current") transition still empty?
        for loc, c in st.cls.items():
            if loc[0] == 'F' and loc[-2:] == ('currentTransition', 'destination') and loc[1].endswith(('processRequest', 'initialEnter')):
                kk = st.cconst(c)
                k.append((loc[1], 'empty' if kk == 255 else ('nonempty' if st.excluded(c, 255) else '?')))
        return tuple(k)

    def is_primitive(self, g, call, frame):
        if g.tkey == 'ffsm2::detail::CS_' and g.m.startswith('wide'):
            return ('DISPATCH', g.m[4:])
        if g.tkey == 'ffsm2::detail::S_' and (g.m.startswith('deep') or g.m.startswith('wrap')):
            return ('ROOT', g.m[4:])
        if g.tkey == 'ffsm2::detail::BitReadStreamT' and g.m == 'read':
            return ('READ', '')
        return None

    def skip_call(self, g, call, frame):
        if g.tkey not in SKIP_TKEYS:
            return False
        ok = self._skip_ok.get(g.id)
        if ok is None:
            ws = self.E.writes_star(g)
            ok = not any(effects.touches(p, t) for p in ws for t in TRACKED_CORE) and not self.E.summary(g)['user']
            self._skip_ok[g.id] = ok
        if not ok:
            raise AnalysisBroken('%s writes tracked machine state or reaches user code; it cannot be abstracted away' % g.short)
        return True

    # ------------------------------------------------------------ observers
    def viol(self, rule, key, call, st, detail=None):
        self.report(rule, key, (call or {}).get('l'), detail, st)

    def construct_expr(self, e, loc, frame, st):
        out = super().construct_expr(e, loc, frame, st)
        cls = e.get('cls') or ''
        if re.search(r'>::\w+$', cls):
            cls = ''      # nested helper classes (Origin, Region, Lock)
        if cls.startswith('ffsm2::detail::GuardControlT<'):
            self.stats['guard_rounds'] += 1
            for s2 in out:
                s2.obs['canc'] = 0
                s2.obs['gphase'] = 0
                s2.obs['gcur'] = s2.refs.get(loc + ('_currentTransition',))
                s2.obs['gpend'] = s2.refs.get(loc + ('_pendingTransition',))
                s2.obs['rounds'] = min(2, s2.obs.get('rounds', 0) + 1)
                gc = s2.obs['gcur']
                if gc is not None and s2.cconst(s2.get(gc + ('destination',))) == 255:
                    # nothing accepted yet in this processing step: the "current" transition shown to guards must be a pristine empty
                    # transition -- no origin and no payload left over from an earlier step
                    ps = gc + ('payloadSet',)
                    stale = []
                    if ps in s2.cls and s2.const_of(ps) != 0:
                        stale.append('payload')
                    if s2.const_of(gc + ('origin',)) != 255:
                        stale.append('origin')
                    if stale:
                        self.viol('C07.c', 'the (empty) current transition shown to guards can expose a stale %s from an earlier processing step' % ' and '.join(stale), e, s2)
                gp = s2.obs['gpend']
                if gp is not None and s2.cconst(s2.get(gp + ('destination',))) != 255:
                    if s2.obs.get(('copy', gp)) != REQUEST:
                        self.viol('C07.c', 'the pending transition shown to guards is not a whole copy of the outstanding request', e, s2,
                                  {'last whole-object source': str(s2.obs.get(('copy', gp)))})
                if s2.const_of(loc + ('_cancelled',)) != 0:
                    self.viol('C03.b', 'a guard round starts with a control that is already cancelled', e, s2)
                if s2.refs.get(loc + ('_core',)) != CORE:
                    self.viol('C06.b', 'guard control is not bound to the instance core', e, s2)
        if cls.startswith(('ffsm2::detail::PlanControlT<', 'ffsm2::detail::FullControlT<')):
            for s2 in out:
                if s2.refs.get(loc + ('_core',)) != CORE:
                    self.viol('C06.b', 'control is not bound to the instance core', e, s2)
        return out

    def on_obj_copy(self, st, dst, src, frame, node):
        gcur = st.obs.get('gcur')
        if gcur is not None and dst == gcur:
            self.stats['accepts'] += 1
            st.note('ACCEPT current := %s' % ('pending' if src == st.obs.get('gpend') else '/'.join(map(str, src[-2:]))))
            if src != st.obs.get('gpend'):
                self.viol('C02.d', 'the accepted transition is built from something other than the pending transition of this round', node, st,
                          {'source': list(src)})
            elif st.obs.get('canc') != 0:
                self.viol('C03.c', 'a transition is accepted although a guard cancelled it in this round', node, st)
        if dst == PREV:
            st.obs['prev_src'] = src
        if dst[-1] in ('pendingTransition', 'currentTransition'):
            st.obs[('copy', dst)] = src

    def on_write(self, st, loc, frame, node):
        # a field-level write into a transition object that was a whole copy of another one breaks the copy relation,
        # except the emptiness marker written by clear() (destination := invalid), which ends the object's life as a transition
        for n in (1, 2):
            obj = loc[:-n]
            if obj and obj[-1] in ('pendingTransition', 'currentTransition') and ('copy', obj) in st.obs:
                if not frame.fid.split('/')[-1].startswith('ctor:'):
                    st.obs[('copy', obj)] = 'modified'

    def havoc_control(self, st, flav, cloc):
        for p in self.havoc.sets.get(flav, ()):  # computed effect set of the flavour's public interface
            if p[0] == 'core':
                loc = CORE + p[1:]
                if loc and loc[-1] == '*':
                    loc = loc[:-1]
                if self.untracked(loc):
                    continue
                st.havoc_prefix(loc)
            elif p[0] == 'this' and cloc is not None:
                loc = cloc + p[1:]
                if loc[-1] == '*':
                    loc = loc[:-1]
                st.havoc_prefix(loc)

    def arg_cls(self, st, a):
        if isinstance(a, tuple) and a and a[0] == 'loc':
            return st.get(a[1])
        if isinstance(a, tuple) and a and a[0] == 's':
            return a[1]
        return st.fresh()

    def on_primitive(self, tag, g, call, frame, st, args, this_loc):
        what, kind = tag
        if what == 'READ':
            c = st.fresh()
            if frame.fn.m == 'deepLoadRequested':
                # A3: the buffer was produced by save() of the same machine type, so the index read is a valid prong
                st.exclude(c, 255)
                st.obs['read'] = ('cls', c)
            st.note('READ in ' + frame.fn.m)
            return [(st, V_s(c))]
        cloc = args[0][1] if args and isinstance(args[0], tuple) and args[0][0] == 'loc' else None
        flav = control_flavour(g.params[0]['ty']) if g.params else None
        ret_bool = g.d.get('ret') == 'bool'
        if what == 'DISPATCH':
            self.stats['dispatch'] += 1
            prong = self.arg_cls(st, args[-1])
            st.note('DISPATCH %s' % kind)
            self.check_dispatch(kind, prong, cloc, call, st)
        else:
            self.stats['root'] += 1
            st.note('ROOT %s' % kind)
            self.check_root(kind, call, st)
        if flav:
            self.havoc_control(st, flav, cloc)
        if ret_bool:
            a = st.copy()
            a.obs['canc'] = 1
            a.note('  -> cancelled')
            return [(a, V_b(True)), (st, V_b(False))]
        return [(st, V_U)]

    def sink_check(self, kind, prong, cloc, call, st):
        """the state being entered / re-entered is the destination the statement prescribes for this entry point"""
        mode = self.mode
        cur = st.refs.get(cloc + ('_currentTransition',)) if cloc is not None else None
        if mode in ('guarded', 'initial'):
            if cur is None:
                self.viol('C02.d', 'enter/reenter runs with a control that has no current transition', call, st)
                return
            d = st.get(cur + ('destination',))
            if st.cconst(d) == 255:
                # nothing has been accepted: only activation may enter anything, and then it is the initial state
                if mode == 'initial' and st.cconst(prong) == 0:
                    return
            elif d == prong:
                return
            self.viol('C02.d', 'the state entered is not the destination of the last transition that survived its guards', call, st,
                      {'entered': self.describe(st, prong), 'accepted.destination': self.describe(st, d)})
        elif mode == 'replay':
            want = st.get(('A', self.entry_name, 'destination'))
            if want != prong:
                self.viol('C11.c', 'replay enters a state other than the replayed destination', call, st,
                          {'entered': self.describe(st, prong)})
        elif mode == 'load':
            r = st.obs.get('read')
            if not (isinstance(r, tuple) and r[0] == 'cls' and r[1] == prong):
                self.viol('C12.d', 'load enters a state other than the one read from the buffer', call, st,
                          {'entered': self.describe(st, prong)})

    def describe(self, st, c):
        k = st.cconst(c)
        if k is not None:
            return 'const %d' % k
        names = sorted('.'.join(map(str, l[-2:])) for l, cc in st.cls.items() if cc == c and l[0] in ('I', 'F', 'A'))
        return 'class{%s}' % ', '.join(names[:5])

    def check_dispatch(self, kind, prong, cloc, call, st):
        E, R = st.obs.get('E'), st.obs.get('R')
        ent = st.obs.get('ent')
        ent_c = ent[1] if isinstance(ent, tuple) and ent[0] == 'cls' else None
        active = st.get(ACTIVE)
        if kind in PHASE_KINDS:
            if not (E == 1 and R == 1):
                self.viol('C01.a', 'a phase callback is delivered while no state is entered', call, st, {'E': E, 'R': R, 'kind': kind})
            if prong != active or (ent_c is not None and prong != ent_c):
                self.viol('C01.a', 'a phase callback is delivered to a state other than the active / entered one', call, st,
                          {'kind': kind, 'prong': self.describe(st, prong), 'active': self.describe(st, active)})
            return
        if kind == 'ExitGuard':
            if st.obs.get('gphase') != 0:
                self.viol('C03.a', 'the exit guard is not the first guard of its round', call, st)
            st.obs['gphase'] = 1
            if prong != active or E != 1:
                self.viol('C03.a', 'the exit guard is consulted on a state other than the active one', call, st)
            return
        if kind == 'EntryGuard':
            if st.obs.get('canc') != 0:
                self.viol('C03.a', 'an entry guard is consulted although the transition was already cancelled in this round', call, st)
            if self.mode == 'guarded' and st.obs.get('gphase') != 1:
                self.viol('C03.a', 'the entry guard is consulted before the exit guard', call, st)
            if prong != st.get(REQUESTED):
                self.viol('C03.a', 'the entry guard is consulted on a state other than the requested destination', call, st)
            gp = st.obs.get('gpend')
            if gp is not None:
                pd = st.get(gp + ('destination',))
                if pd != prong and not (st.cconst(pd) == 255 and self.mode == 'initial'):
                    self.viol('C03.b', 'the pending transition shown to the entry guard is not the request being evaluated', call, st,
                              {'pending.destination': self.describe(st, pd), 'guarded': self.describe(st, prong)})
            return
        if kind == 'Exit':
            if E != 1 or (ent_c is not None and prong != ent_c) or prong != active:
                self.viol('C01.a', 'exit is delivered to a state that is not the entered one', call, st,
                          {'E': E, 'prong': self.describe(st, prong), 'active': self.describe(st, active)})
            st.obs['E'] = 0
            st.obs['nev'] = min(2, st.obs.get('nev', 0) + 1)
            return
        if kind == 'Enter':
            if E != 0:
                self.viol('C01.a', 'enter is delivered while another state is still entered (no exit in between)', call, st)
            if R != 1:
                self.viol('C01.a', 'a state is entered before the root', call, st)
            if prong != active:
                self.viol('C01.a', 'the state entered is not the one reported active', call, st,
                          {'prong': self.describe(st, prong), 'active': self.describe(st, active)})
            if st.cconst(prong) == 255:
                self.viol('C01.a', 'enter is dispatched with the invalid prong', call, st)
            st.obs['E'] = 1
            st.obs['ent'] = ('cls', prong)
            st.obs['nev'] = min(2, st.obs.get('nev', 0) + 1)
            self.sink_check(kind, prong, cloc, call, st)
            return
        if kind == 'Reenter':
            if E != 1 or (ent_c is not None and prong != ent_c) or prong != active:
                self.viol('C01.a', 'reenter is delivered to a state that is not the active one', call, st,
                          {'E': E, 'prong': self.describe(st, prong), 'active': self.describe(st, active)})
            st.obs['nev'] = min(2, st.obs.get('nev', 0) + 1)
            self.sink_check(kind, prong, cloc, call, st)
            return
        if kind == 'ChangeToRequested':
            return
        raise AnalysisBroken('unknown dispatch kind ' + kind)

    def check_root(self, kind, call, st):
        E, R = st.obs.get('E'), st.obs.get('R')
        if kind == 'Enter':
            if R != 0 or E != 0:
                self.viol('C01.a', 'the root is entered while the machine is already entered', call, st, {'E': E, 'R': R})
            st.obs['R'] = 1
        elif kind == 'Exit':
            if R != 1 or E != 0:
                self.viol('C01.a', 'the root is exited before the active state (or twice)', call, st, {'E': E, 'R': R})
            st.obs['R'] = 0
        elif kind in ('EntryGuard', 'ExitGuard'):
            if st.obs.get('canc') != 0 and kind == 'EntryGuard':
                self.viol('C03.a', 'a guard is consulted although the transition was already cancelled in this round', call, st)
        elif kind in ('Reenter',):
            pass
        else:
            if R != 1 or E != 1:
                self.viol('C01.a', 'a root callback (%s) is delivered while the machine is not fully entered' % kind, call, st, {'E': E, 'R': R})

    # ------------------------------------------------------------ return checks
    def check_return(self, st, expect, fn, retval=None):
        E, R = st.obs.get('E'), st.obs.get('R')
        active = st.get(ACTIVE)
        ent = st.obs.get('ent')
        ent_c = ent[1] if isinstance(ent, tuple) and ent[0] == 'cls' else None
        act_ok = (E == 1 and R == 1 and not (st.cconst(active) == 255) and st.excluded(active, 255) and (ent_c is None or ent_c == active))
        inact_ok = (E == 0 and R == 0 and st.cconst(active) == 255)
        where = {'l': fn.pat}
        if expect == 'active' and not act_ok:
            self.viol('C01.a', '%s does not return with exactly one entered state that is reported active' % self.entry_name, where, st,
                      {'E': E, 'R': R, 'active': self.describe(st, active)})
        elif expect == 'inactive' and not inact_ok:
            self.viol('C01.a', '%s does not return with everything exited and no active state' % self.entry_name, where, st,
                      {'E': E, 'R': R, 'active': self.describe(st, active)})
        elif expect == 'either' and not (act_ok or inact_ok):
            self.viol('C01.a', '%s returns in an inconsistent activity state' % self.entry_name, where, st,
                      {'E': E, 'R': R, 'active': self.describe(st, active)})
        if st.cconst(st.get(REQUESTED)) != 255:
            self.viol('C02.e', '%s returns with a requested prong left in the registry' % self.entry_name, where, st,
                      {'requested': self.describe(st, st.get(REQUESTED))})
        # accepted transition vs. what happened
        # the accumulator of the accepted transition: the object handed to the guard rounds as `current` (whatever it is called and
        # wherever it lives); when no guard round took place, the local of that name in the processing function, if any
        cur = st.obs.get('gcur')
        if cur is None:
            for loc in st.cls:
                if loc[0] == 'F' and loc[-2:] == ('currentTransition', 'destination') and loc[1].endswith(('processRequest', 'initialEnter')):
                    cur = loc[:-1]
        if cur is not None and self.mode in ('guarded', 'initial'):
            d = st.get(cur + ('destination',))
            if st.cconst(d) == 255:
                if self.mode == 'guarded':
                    a0 = st.obs.get('a0')
                    if st.obs.get('nev', 0) != 0 or not (isinstance(a0, tuple) and a0[1] == active):
                        self.viol('C02.d', 'no request survived but the active state changed or a lifecycle callback ran', where, st)
            else:
                if d != active:
                    self.viol('C02.d', 'processing ends in a state other than the destination of the last surviving request', where, st,
                              {'active': self.describe(st, active), 'accepted.destination': self.describe(st, d)})
            if facts.cfg_has(self.F.cfg, 'H'):
                # history mirrors the accepted transition, field by field
                for f in self.fields_of(self.transition_type()):
                    if st.get(PREV + f) != st.get(cur + f):
                        self.viol('C11.b', 'previousTransition() is not the transition that was applied (field %s)' % '.'.join(f), where, st,
                                  {'previous': self.describe(st, st.get(PREV + f)), 'accepted': self.describe(st, st.get(cur + f))})
                        break
        if cur is None and self.mode == 'guarded' and facts.cfg_has(self.F.cfg, 'H') and self.entry_name in ('update', 'react'):
            # a step that did not even look at requests applied no transition: the history must say so
            pd0 = st.get(PREV + ('destination',))
            if st.cconst(pd0) != 255:
                self.viol('C11.b', 'a step that applied no transition leaves an earlier transition in previousTransition()', where, st,
                          {'previous.destination': self.describe(st, pd0)})
        if expect == 'inactive' and inact_ok:
            rq = st.get(REQUEST + ('destination',))
            if st.cconst(rq) != 255:
                self.viol('C01.a', '%s deactivates the machine but leaves a request outstanding (the next activation would consume it)' % self.entry_name, where, st,
                          {'request.destination': self.describe(st, rq)})
        if self.mode == 'load':
            # loading into an active machine is observable as exactly one of: exit+enter (another state), reenter (the same state),
            # initial enter -- never as nothing at all; and whatever the loader had queued is gone afterwards
            # (only on paths that actually read a state index: for an automatically activated machine a buffer whose activity bit is 0
            # cannot have been produced by save() -- A3 --, and load does nothing with it)
            loaded = st.obs.get('read') is not None
            if act_ok and loaded and st.obs.get('nev', 0) == 0:
                self.viol('C12.d', 'load leaves the machine active without entering or re-entering the loaded state', where, st)
            rd = st.get(REQUEST + ('destination',))
            if act_ok and loaded and st.cconst(rd) != 255:      # (an inactive machine has no request by precondition A3)
                self.viol('C12.d', 'load returns with a request of the loader still outstanding', where, st,
                          {'request.destination': self.describe(st, rd)})
        if self.mode == 'replay' and self.entry_name == 'replayTransition':
            d = st.get(('A', 'replayTransition', 'destination'))
            rv = None
            if retval is not None and retval[0] == 'b':
                rv = retval[1]
            elif retval is not None and retval[0] == 's':
                k = st.cconst(retval[1])
                rv = None if k is None else bool(k)
            a0 = st.obs.get('a0')
            if st.cconst(d) == 255:
                if rv is not False or st.obs.get('nev', 0) != 0 or not (isinstance(a0, tuple) and a0[1] == active):
                    self.viol('C11.c', 'replayTransition(invalid id) does not return false leaving the activity state untouched', where, st,
                              {'returns': rv, 'lifecycle events': st.obs.get('nev')})
            elif st.excluded(d, 255):
                if rv is not True or d != active:
                    self.viol('C11.c', 'replayTransition(valid id) does not return true with that state active', where, st,
                              {'returns': rv, 'active': self.describe(st, active)})
        if facts.cfg_has(self.F.cfg, 'H') and self.mode == 'replay' and expect == 'active':
            pd = st.get(PREV + ('destination',))
            if st.cconst(pd) != 255 and pd != active:
                self.viol('C11.c', 'after a replay previousTransition() does not name the active state', where, st)

    def transition_type(self):
        r = self.F.rec_by_name.get(self.core_type or '')
        if r:
            for f in r['fields']:
                if f['n'] == 'request':
                    return f['ty']
        raise AnalysisBroken('cannot find the transition type of %s' % self.core_type)


# ------------------------------------------------------------------------------------------------
ENTRIES = [
    # (class tkey, method, mode, precondition, expectation at return)
    ('R_', 'update', 'guarded', 'active', 'active'),
    ('R_', 'react', 'guarded', 'active', 'active'),
    ('R_', 'immediateChangeTo', 'guarded', 'active', 'active'),
    ('RP_', 'immediateChangeWith', 'guarded', 'active', 'active'),
    ('R_', 'replayTransition', 'replay', 'active', 'active'),
    ('RV_', 'enter', 'initial', 'inactive', 'active'),
    ('RV_', 'exit', 'final', 'active_norequest', 'inactive'),
    ('RV_', 'replayEnter', 'replay', 'inactive', 'active'),
    ('RV_', 'load', 'load', 'active', 'active'),          # automatic: always active; manual: see below
    ('RV_', 'load', 'load', 'inactive', 'either'),
]


def initial_state(I, pre, fn):
    st = State()
    t = I.transition_type()
    if pre in ('active', 'active_norequest'):
        a = st.fresh()
        st.set(ACTIVE, a)
        st.exclude(a, 255)
        st.set_const(REQUESTED, 255)
        st.obs.update({'E': 1, 'R': 1, 'ent': ('cls', a), 'a0': ('cls', a), 'nev': 0, 'canc': 0, 'gphase': 0})
        if pre == 'active_norequest':
            st.set_const(REQUEST + ('destination',), 255)
    else:
        st.set_const(ACTIVE, 255)
        st.set_const(REQUESTED, 255)
        st.set_const(REQUEST + ('destination',), 255)
        st.set_const(REQUEST + ('origin',), 255)
        st.set_const(REQUEST + ('method',), 0)
        if facts.cfg_has(I.F.cfg, 'H'):
            st.set_const(PREV + ('destination',), 255)
        st.obs.update({'E': 0, 'R': 0, 'nev': 0, 'canc': 0, 'gphase': 0})
    return st


def core_type_of(F, fn):
    """type of R_::_core for the machine that owns fn"""
    r = F.rec_by_name.get(fn.cls)
    seen = 0
    while r and seen < 8:
        for f in r.get('fields', []):
            if f['n'] == '_core':
                return f['ty']
        nb = None
        for b in r.get('bases', []):
            cand = F.rec_by_name.get(b['name'])
            if cand and (cand.get('_tkey') or '').split('::')[-1] in ('R_', 'RV_', 'RP_'):
                nb = cand
        r = nb
        seen += 1
    return None


def is_manual(fn):
    return 'ffsm2::Manual' in (fn.cls or '')


def analyse(F, run, rules_wanted):
    """run every entry point of every machine of F; returns (n_entries, violations list)"""
    E = effects.Effects(F)
    havoc = HavocSets(F, E)
    # C01.c: no control flavour can reach a write of the registry (so the havoc sets never contain it)
    for flav in CONTROL_CHAIN:
        bad = havoc.touches_registry(flav)
        if 'C01.c' in rules_wanted:
            run.ob('C01.c', '%s: no public member can write the registry (%d members) [%s]' % (flav, len(havoc.public_methods[flav]), F.label()),
                   not bad, detail=bad or None, key='%s can write the registry' % flav)
        elif bad:
            raise AnalysisBroken('%s can write the registry; the flow analysis assumes it cannot (C01.c)' % flav)
    n = 0
    results = []
    for tk, m, mode, pre, expect in ENTRIES:
        for fn in F.find(tk, m):
            if fn.kind == 'ctor':
                continue
            manual = is_manual(fn)
            if tk == 'RV_' and m == 'load':
                if not manual and pre == 'inactive':
                    continue
                if manual and pre == 'active':
                    expect = 'either'
            I = MachineInterp(F, E, havoc, mode, fn.m)
            I.core_type = core_type_of(F, fn)
            st = initial_state(I, pre, fn)
            if m == 'replayEnter':
                # A3: replayEnter() is given a valid state id (replayTransition() is analysed for every id)
                st.exclude(st.get(('A', 'replayEnter', 'destination')), 255)
            outs = I.run_entry(fn, INST, st)
            for s2, v in outs:
                I.check_return(s2, expect, fn, v)
            n += 1
            results.append((fn, mode, pre, I))
    for fn in F.find('RV_'):
        if fn.kind == 'dtor' and not is_manual(fn):
            I = MachineInterp(F, E, havoc, 'final', '~RV_')
            I.core_type = core_type_of(F, fn)
            st = initial_state(I, 'active_norequest', fn)
            outs = I.run_entry(fn, INST, st)
            for s2, v in outs:
                I.check_return(s2, 'inactive', fn)
            n += 1
            results.append((fn, 'final', 'active_norequest', I))
    # constructors of the automatic root
    for fn in F.find('RV_'):
        if fn.kind == 'ctor' and fn.d.get('ctorkind') not in ('copy', 'move') and not is_manual(fn) and not fn.d.get('implicit'):
            I = MachineInterp(F, E, havoc, 'initial', 'RV_')
            I.core_type = core_type_of(F, fn)
            st = State()
            st.obs.update({'E': 0, 'R': 0, 'nev': 0, 'canc': 0, 'gphase': 0})
            outs = I.run_entry(fn, INST, st)
            for s2, v in outs:
                I.check_return(s2, 'active', fn)
            n += 1
            results.append((fn, 'initial', 'fresh object', I))
    return n, results


# ------------------------------------------------------------------------------------------------
_cache = {}

FLOW_RULES = {
    'C01.a': 'typestate: enter/exit/reenter pairing, root before/after, dispatch on the active state, activity at return',
    'C02.d': 'the state entered is the destination of the last transition that survived its guards; none survived => nothing happens',
    'C02.e': 'no requested prong is left in the registry at return',
    'C03.a': 'exit guard on the active state first, entry guard on the requested state, nothing consulted after a cancellation',
    'C03.b': 'fresh guard control per round; the pending transition shown is the request under evaluation',
    'C03.c': 'acceptance only on the not-cancelled edge',
    'C06.b': 'controls are bound to the instance core',
    'C07.c': 'pending is a whole copy of the request; current a whole copy of pending; previous a whole copy of current',
    'C11.b': 'previousTransition() equals the accepted transition field by field',
    'C11.c': 'replay enters exactly the replayed destination',
    'C12.d': 'load enters exactly the state read from the buffer',
}


def flow_obligations(run, wanted, cfgs=None, witness='w_core'):
    """run the flow analysis over the tier's configurations and turn the observer verdicts into obligations for the
    rule ids in `wanted` (a set)."""
    cfgs = cfgs or facts.configs(run.tier)
    jobs = [(witness, c, v) for c in cfgs for v in facts.variants(run.tier)]
    facts.prefetch(jobs)
    total_entries = 0
    for (w, c, v) in jobs:
        key = (w, c, v)
        if key not in _cache:
            F = facts.load(w, c, v)
            run.require(F.unknown == 0, 'unknown AST nodes in %s' % F.label())
            sub = type(run)(run.pid, run.tier)
            n, res = analyse(F, sub, {'C01.c'})
            summary = []
            for fn, mode, pre, I in res:
                summary.append({'fn': fn.short, 'pat': fn.pat, 'cls': ir.short_type(fn.cls or ''), 'mode': mode, 'pre': pre,
                                'violations': list(I.violations), 'stats': dict(I.stats, calls=I.calls_interpreted, events=I.events_seen,
                                                                                 max_states=I.max_states)})
            _cache[key] = (summary, sub.obligations, F.label())
            facts.drop(F)
        summary, c01c, label = _cache[key]
        if 'C01.c' in wanted:
            for o in c01c:
                run.ob(o['rule'], o['instance'], o['ok'], where=o.get('where'), detail=o.get('detail'), key=o.get('key'))
        for ent in summary:
            total_entries += 1
            run.count('entry points interpreted')
            run.count('library calls interpreted', ent['stats']['calls'])
            run.count('dispatch/root events observed', ent['stats']['events'])
            run.count('guard rounds', ent['stats']['guard_rounds'])
            by_rule = {}
            for (rule, vkey, where, detail) in ent['violations']:
                by_rule.setdefault(rule, []).append((vkey, where, detail))
            for rule in sorted(wanted):
                if rule not in FLOW_RULES:
                    continue
                if not applicable(rule, ent, c):
                    continue
                vs = by_rule.get(rule, [])
                inst = '%s [%s, pre=%s] %s: %s' % (ent['fn'], machine_tag(ent['cls']), ent['pre'], label, FLOW_RULES[rule])
                if not vs:
                    run.ob(rule, inst, True, where=ent['pat'])
                else:
                    seen = set()
                    for vkey, where, detail in vs:
                        if vkey in seen:
                            continue
                        seen.add(vkey)
                        run.ob(rule, inst, False, where=where or ent['pat'], detail=detail, key='%s: %s' % (ent['fn'], vkey))
    run.extra.setdefault('flow', {})['entries'] = total_entries
    return total_entries


def machine_tag(cls):
    m = re.search(r'(Automatic|Manual)', cls)
    act = m.group(1) if m else '?'
    return act


def applicable(rule, ent, cfg):
    mode = ent['mode']
    if rule in ('C02.d', 'C03.a', 'C03.b', 'C03.c', 'C07.c'):
        return mode in ('guarded', 'initial')
    if rule == 'C11.b':
        return mode in ('guarded', 'initial') and facts.cfg_has(cfg, 'H')
    if rule == 'C11.c':
        return mode == 'replay'
    if rule == 'C12.d':
        return mode == 'load'
    return True
