"""C01 -- exactly one active state; enter/exit strictly paired over the whole lifetime.

C01.a  [flow] typestate proof by induction over API calls (rules/flow_rules.py): assuming the invariant and the asserted
       precondition at entry, every dispatch event satisfies the enter/exit/reenter discipline and the invariant holds
       again at return -- for every entry point that can reach a dispatcher, both activation modes, all witness machines.
C01.b  [effect] who-may-call: enter/exit/reenter dispatchers and initialEnter/finalExit are reached only from the
       entry points analysed in C01.a.
C01.c  [effect] no public member of any control flavour can write the registry (so user code cannot change `active`).
C01.d  [order] RV_<Automatic>: activating constructors call initialEnter exactly once, copy/move never, the destructor
       calls finalExit exactly once.
C01.e  [cmp] activeStateId() returns the active slot; RV_<Manual>::isActive() == (active != invalid).
C01.f  [table] save()/load() field tables agree and the buffer is cleared before the first write (precondition of the load rule).
C01.h  [order] every dispatcher of every callback kind is a correct binary search step (shares C14.b)
C01.g  [effect] copy/move construction and assignment of library objects write only the object they initialise: the machine copied
       or moved from keeps its registry (it stays a live object whose destructor / exit() runs finalExit()).
"""
from lint import facts, ir, effects, anchors, cmpdomain, cfg as cfgmod
from lint.cmpdomain import Obj
from rules import flow_rules

LEVEL = 'other'

# callee (tkey, method) -> allowed direct callers (tkey, method)
WHO_MAY_CALL = {
    ('S_', 'deepEnter'): {('CS_', 'wideEnter'), ('C_', 'deepEnter')},
    ('S_', 'deepExit'): {('CS_', 'wideExit'), ('C_', 'deepExit')},
    ('S_', 'deepReenter'): {('CS_', 'wideReenter')},
    ('CS_', 'wideEnter'): {('CS_', 'wideEnter'), ('C_', 'deepEnter'), ('C_', 'deepChangeToRequested')},
    ('CS_', 'wideExit'): {('CS_', 'wideExit'), ('C_', 'deepExit'), ('C_', 'deepChangeToRequested')},
    ('CS_', 'wideReenter'): {('CS_', 'wideReenter'), ('C_', 'deepChangeToRequested')},
    ('C_', 'deepEnter'): {('R_', 'initialEnter'), ('RV_', 'replayEnter'), ('RV_', 'loadEnter')},
    ('C_', 'deepExit'): {('R_', 'finalExit')},
    ('C_', 'deepChangeToRequested'): {('R_', 'processTransitions'), ('R_', 'replayTransition'), ('R_', 'load')},
    ('R_', 'initialEnter'): {('RV_', 'RV_'), ('RV_', 'enter')},
    ('R_', 'finalExit'): {('RV_', '~RV_'), ('RV_', 'exit'), ('RV_', 'load')},
    ('R_', 'processTransitions'): {('R_', 'processRequest')},
    ('R_', 'processRequest'): {('R_', 'update'), ('R_', 'react'), ('R_', 'immediateChangeTo'), ('RP_', 'immediateChangeWith')},
}


def tk_short(fn):
    t = (fn.tkey or '').split('::')[-1]
    m = fn.m
    if fn.kind == 'ctor':
        m = t
    if fn.kind == 'dtor':
        m = '~' + t
    return (t, m)


def who_may_call(run, F, E, rule, table):
    callers = E.callers()
    for (tk, m), allowed in table.items():
        fns = F.find(tk, m)
        for fn in fns:
            extra = anchors.reached_only_from(F, E, fn, allowed)
            run.ob(rule, '%s::%s is called only from %s' % (tk, m, ', '.join('%s::%s' % a for a in sorted(allowed))), not extra,
                   where=fn.pat, detail=['%s::%s' % x for x in extra] or None, key='%s::%s has an unexpected caller' % (tk, m))


def deactivation_resets(run, F, E, rule):
    """deactivation leaves nothing behind that the next activation would act on: R_::finalExit definitely invalidates the active slot and
    the outstanding request (must-write analysis) -- otherwise a request made before exit() would redirect the next enter() away from the
    first declared state. The *requested* slot needs no reset here: it is invalid at every return of every API call (C02.e, decided on the
    interpreted program) and deactivation is an API call of its own, so a finalExit that does not touch it is as good as one that does."""
    M = effects.MustWrites(E)
    for fn in F.find('R_', 'finalExit'):
        mw = M.of_function(fn)
        need = [('core', 'registry', 'active'), ('core', 'request', 'destination')]
        missing = [p for p in need if p not in mw and (p[:2] + ('*',)) not in mw]
        run.ob(rule, 'R_::finalExit definitely resets the active slot and the outstanding request [%s]' % F.label(), not missing,
               where=fn.pat, detail=missing or None, key='R_::finalExit leaves activation state behind')


def activation_pairing(run, F, E):
    for fn in F.find('RV_'):
        if 'ffsm2::Automatic' not in (fn.cls or ''):
            continue
        if fn.kind not in ('ctor', 'dtor'):
            continue
        c = cfgmod.cfg_of(fn)
        if fn.kind == 'ctor':
            n = c.events(('call',), lambda nd: nd.e.get('m') == 'initialEnter')
            ck = fn.d.get('ctorkind')
            if ck in ('copy', 'move'):
                run.ob('C01.d', 'RV_<Automatic> %s constructor does not activate again' % ck, not n, where=fn.pat,
                       key='RV_<Automatic> %s constructor calls initialEnter' % ck)
            else:
                ok = len(n) == 1 and c.postdominates(n[0], c.entry) and not c.in_loop(n[0])
                run.ob('C01.d', 'RV_<Automatic> constructor activates exactly once', ok, where=fn.pat,
                       key='RV_<Automatic> constructor does not call initialEnter exactly once')
        else:
            n = c.events(('call',), lambda nd: nd.e.get('m') == 'finalExit')
            ok = len(n) == 1 and c.postdominates(n[0], c.entry) and not c.in_loop(n[0])
            run.ob('C01.d', 'RV_<Automatic> destructor deactivates exactly once', ok, where=fn.pat,
                   key='RV_<Automatic> destructor does not call finalExit exactly once')
    for fn in F.find('RV_', 'enter'):
        c = cfgmod.cfg_of(fn)
        n = c.events(('call',), lambda nd: nd.e.get('m') == 'initialEnter')
        run.ob('C01.d', 'RV_<Manual>::enter() activates exactly once', len(n) == 1 and c.postdominates(n[0], c.entry), where=fn.pat,
               key='RV_<Manual>::enter does not call initialEnter exactly once')
    for fn in F.find('RV_', 'exit'):
        c = cfgmod.cfg_of(fn)
        n = c.events(('call',), lambda nd: nd.e.get('m') == 'finalExit')
        run.ob('C01.d', 'RV_<Manual>::exit() deactivates exactly once', len(n) == 1 and c.postdominates(n[0], c.entry), where=fn.pat,
               key='RV_<Manual>::exit does not call finalExit exactly once')


def observers(run, F, E):
    for fn in F.find('R_', 'activeStateId'):
        got = E.summary(fn)['returns']
        run.ob('C01.e', 'R_::activeStateId() returns registry.active', got == {('core', 'registry', 'active')}, where=fn.pat, detail=sorted(got),
               key='activeStateId() does not return the active slot')
    for fn in F.find('RV_', 'isActive'):
        if fn.params:
            continue
        spec = lambda active: active != 255

        def run_eval(ev, vals, fn=fn):
            this = Obj(_core=Obj(registry=Obj(active=vals['active'], requested=255)))
            return ev.call(fn, this, [])
        ok, bad, cells, consts = cmpdomain.decide(F, run_eval, ['active'], spec)
        run.ob('C01.e', 'RV_<Manual>::isActive() == (active != invalid) on %d cells' % cells, ok, where=fn.pat, detail=bad,
               key='RV_<Manual>::isActive() is not (active != invalid)')
    for fn in F.find('Registry', 'clear'):
        ws = E.summary(fn)['writes']
        run.ob('C01.e', 'Registry::clear resets both slots', ws == {('this', 'requested'), ('this', 'active')}, where=fn.pat, detail=sorted(ws),
               key='Registry::clear does not reset both slots')


def run(run):
    run.guard('flow obligations', flow_rules.flow_obligations, run, {'C01.a', 'C01.c'})
    for c in facts.configs(run.tier):
        for v in facts.variants(run.tier):
            F = facts.load('w_core', c, v)
            E = effects.Effects(F)
            run.count('fact units')
            run.guard('who may call', who_may_call, run, F, E, 'C01.b', WHO_MAY_CALL)
            # who may write registry.active directly
            for fn in F.fns:
                direct = set()
                for e in ir.all_exprs(fn):
                    if e['k'] == 'asg':
                        direct |= E.lv(e['l'], fn)
                if ('core', 'registry', 'active') in direct or (fn.tkey == 'ffsm2::detail::Registry' and ('this', 'active') in direct):
                    ok = tk_short(fn) in {('C_', 'deepEnter'), ('C_', 'deepExit'), ('C_', 'deepChangeToRequested'), ('Registry', 'clear')}
                    if not ok and fn.tkey == 'ffsm2::detail::Registry' and (fn.kind == 'ctor' or fn.m == 'operator='):
                        # the registry's own constructors / assignment initialise or copy a whole registry object: not a change of a machine's
                        # activity state (that copies are complete and leave their source alone is C17.b / C01.g)
                        ok = all(p == ('this', 'active') or p == ('this', 'requested') for p in direct)
                    run.ob('C01.b', '%s is an expected writer of registry.active' % fn.short, ok, where=fn.pat,
                           key='%s writes registry.active' % fn.short)
            run.guard('activation pairing', activation_pairing, run, F, E)
            run.guard('observers', observers, run, F, E)
            run.guard('deactivation resets', deactivation_resets, run, F, E, 'C01.b')
            # "delivered only to the state that is currently active": the dispatch primitive the interpretation treats as exact is a correct
            # binary search step in every dispatcher of every callback kind (shares C14.b)
            from rules import dispatch_rules as _dr
            run.guard('dispatchers', _dr.check_dispatchers, run, F, E, 'C01.h')
            # copying / moving a machine is not an activity change of the machine copied from (its registry is not touched)
            from lint import records as _rec
            run.guard('source untouched', _rec.source_untouched, run, 'C01.g', F, E)
            if facts.cfg_has(c, 'S'):
                # the flow rule for load() takes the index it reads to be one a save() wrote (precondition A3). That rests on save()
                # encoding exactly the activity state into a buffer it has cleared first: the writer/reader field tables and the
                # clear-before-write rule of C12.a are therefore obligations of C01 as well
                from rules import c12 as _c12
                run.guard('field tables', _c12.field_tables, run, F, E)
                run.relabel('C12.a', 'C01.f')
            facts.drop(F)
            cfgmod.clear_cache()
    from gen import static_units
    run.guard('must not compile', static_units.must_not_compile, run, 'C01.c')
    run.floor('C01.a', 200)
    run.floor('C01.b', 60)
    run.floor('C01.c', 20)
    run.floor('C01.d', 20)
    run.floor('C01.e', 8)
    run.floor('C01.g', 20)
    run.floor('C01.h', 100)
    run.explanation = (
        'Typestate proof by induction over API calls, computed by a forward abstract interpretation (must-equalities between '
        'slots + constants + observer automaton) of every entry point that can reach a dispatcher, with the dispatchers as '
        'primitives whose correctness for every machine size is C14; user callbacks are modelled as a havoc of exactly the '
        'slots the effect analysis shows their control flavour can write (never the registry: C01.c). Who-may-call rules '
        'close the induction: no other function reaches enter/exit/reenter or writes the active slot. Assumes callbacks do '
        'not re-enter the public API (A2).')
