"""C06 -- control objects give a consistent view inside every callback.

C06.a  [order] every S_ wrapper with user code constructs a scoped origin (control, STATE_ID) that dominates every user
       call and is destroyed after the last one; STATE_ID is the leaf's id (invalid for the head); the origin helper
       saves the previous origin id and restores it.
C06.b  [sib] _(), context(), request() of every control flavour return core.context / core.request; every control the
       root constructs is bound to the instance's own core.
C06.c  [flow] role tracking of the pending / current transition objects from the substitution loops through
       cancelledBy*Guards and the control constructors into _pendingTransition / _currentTransition and out of the
       accessors.
C06.d  [cmp] every isActive(StateID) -- R_, ConstControlT, ControlT (through Registry) -- equals `active == id` on the
       whole comparison domain of (active, id); exhaustive because the predicates only compare.
C06.e  [effect] control request writers record _originId as the origin and their argument as the destination.
"""
from lint import facts, ir, effects, anchors, cmpdomain, cfg as cfgmod
from lint.cmpdomain import Obj, Evaluator
from lint.common import AnalysisBroken

LEVEL = 'other'


# ------------------------------------------------------------------------------------------- C06.a
def check_origins(run, F, E):
    for fn in F.find('S_'):
        if fn.m not in anchors.WRAPPERS or anchors.is_empty_state_spec(fn):
            continue
        c = cfgmod.cfg_of(fn)
        sid = anchors.state_id_of(F, fn)
        user = []
        for n in c.events(('call',)):
            g, u = anchors.call_target(F, E, fn, n)
            if u is not None:
                user.append(n)
            elif g is not None and g.tkey == 'ffsm2::detail::A_':
                user.append(n)
        decls = c.events(('decl',), lambda n: '::Origin' in (n.e.get('cls') or ''))
        dtors = c.events(('dtor',), lambda n: '::Origin' in (n.e.get('cls') or ''))
        ok = len(decls) == 1 and len(dtors) == 1 and bool(user)
        detail = None
        if ok:
            d = decls[0]
            init = ir.strip(d.e.get('init'))
            args = init.get('args', []) if init['k'] == 'ctor' else []
            a0 = ir.strip(args[0]) if len(args) == 2 else None
            a1 = ir.const_val(args[1]) if len(args) == 2 else None
            conds = {
                'constructed from the callback\'s control': a0 is not None and a0['k'] == 'var' and a0.get('vk') == 'param' and a0['n'] == 'control',
                'with this state\'s id (%s)' % sid: a1 is not None and a1 == sid,
                'before every user call': all(c.dominates(d, u) for u in user),
                'destroyed after the last user call': all(c.dominates(u, dtors[0]) for u in user),
                'on every path': c.postdominates(d, c.entry) and c.postdominates(dtors[0], c.entry),
            }
            bad = [k for k, v in conds.items() if not v]
            if bad:
                ok = False
                detail = bad
        else:
            detail = {'origin objects': len(decls), 'destructors': len(dtors), 'user calls': len(user)}
        run.ob('C06.a', 'S_<%s>::%s scopes its user code in Origin{control, %s}' % (sid, fn.m, sid), ok, where=fn.pat, detail=detail,
               key='S_::%s does not scope its callbacks in the right origin' % fn.m)
    # the origin helper itself, decided by evaluating it: constructed on (control, id) it installs id in the control's origin slot, and when
    # it is destroyed the slot holds again what it held before -- however the helper keeps hold of the control (reference, pointer) and
    # however its members are named
    for tk in ('ControlT::Origin', 'ConstControlT::Origin'):
        ctors = [f for f in F.find(tk) if f.kind == 'ctor' and not f.d.get('implicit') and f.d.get('ctorkind') not in ('copy', 'move') and len(f.params) == 2]
        dtors = [f for f in F.find(tk) if f.kind == 'dtor' and f.body is not None]
        seen = set()
        for ctor in ctors:
            if ctor.pat in seen:
                continue
            seen.add(ctor.pat)
            dtor = next((d for d in dtors if d.cls == ctor.cls), None)
            if dtor is None:
                raise AnalysisBroken('%s has no destructor with a body' % tk)
            bad = None
            for before, new_id in ((7, 3), (255, 0), (0, 255), (4, 4)):
                ev = Evaluator(F)
                ctrl = Obj(_originId=before)
                try:
                    o = ev.construct(ctor, [ctrl, new_id], 0)
                    mid = ctrl.get('_originId')
                    ev.call(dtor, o, [])
                    after = ctrl.get('_originId')
                except cmpdomain.NotPure as x:
                    raise AnalysisBroken('%s is not evaluable: %s' % (tk, x))
                if (ev.raw(mid), ev.raw(after)) != (new_id, before) and bad is None:
                    bad = {'origin before': before, 'id': new_id, 'while alive': ev.raw(mid), 'after destruction': ev.raw(after)}
            run.ob('C06.a', '%s installs the new origin id for its lifetime and restores the previous one when destroyed' % tk, bad is None, where=ctor.pat,
                   detail=bad, key='%s does not install / restore the origin id' % tk)


# ------------------------------------------------------------------------------------------- C06.b
ACCESSORS = {'_': ('core', 'context'), 'context': ('core', 'context'), 'request': ('core', 'request'),
             'previousTransitions': ('core', 'previousTransition')}
CONTROL_TKEYS = ('ConstControlT', 'ControlT', 'PlanControlT', 'FullControlBaseT', 'FullControlT', 'GuardControlT')


def check_accessors(run, F, E):
    for tk in ('ConstControlT', 'ControlT'):
        for fn in F.find(tk):
            if fn.m in ACCESSORS and not fn.params:
                got = E.summary(fn)['returns']
                ok = got == {ACCESSORS[fn.m]}
                run.ob('C06.b', '%s::%s()%s returns %s' % (tk, fn.m, ' const' if fn.is_const() else '', '.'.join(ACCESSORS[fn.m])), ok,
                       where=fn.pat, detail=None if ok else sorted(got), key='%s::%s() does not return %s' % (tk, fn.m, '.'.join(ACCESSORS[fn.m])))
            if fn.m == 'stateId' and not fn.params and not fn.d.get('static'):
                got = E.summary(fn)['returns']
                ok = got == {('this', '_originId')}
                run.ob('C06.b', '%s::stateId() returns the origin id' % tk, ok, where=fn.pat, detail=None if ok else sorted(got),
                       key='%s::stateId() does not return the origin id' % tk)
    for fn in F.find('PlanControlT', 'currentTransition'):
        got = E.summary(fn)['returns']
        run.ob('C06.b', 'PlanControlT::currentTransition() returns _currentTransition', got == {('this', '_currentTransition')},
               where=fn.pat, detail=sorted(got), key='currentTransition() returns the wrong object')
    for fn in F.find('GuardControlT', 'pendingTransition'):
        got = E.summary(fn)['returns']
        run.ob('C06.b', 'GuardControlT::pendingTransition() returns _pendingTransition', got == {('this', '_pendingTransition')},
               where=fn.pat, detail=sorted(got), key='pendingTransition() returns the wrong object')
    # ... and what a control is bound to is the core itself, not a copy of it: the member its constructor binds the core parameter to
    # is a reference, the parameter is taken by reference, and the context accessors hand out a reference (a control holding a private
    # snapshot would still answer every query alike at construction time, but `&control.context()` would not be the machine's context)
    for tk in ('ConstControlT', 'ControlT'):
        for ctor in F.find(tk):
            if ctor.kind != 'ctor' or ctor.d.get('ctorkind') in ('copy', 'move') or not ctor.params:
                continue
            bound = bound_members(F, ctor, 0)
            rec = F.rec_by_name.get(ctor.cls) or {}
            fields = {f.get('n'): f for f in rec.get('fields', [])}
            p0 = ctor.params[0]
            refs = [bool(fields.get(f, {}).get('ref')) for (_, f) in bound]
            if not bound:
                # held through a pointer: member initialised with the address of the parameter
                for i in ctor.inits:
                    x = ir.strip(i['e']) if i.get('e') is not None else None
                    if x is not None and x['k'] == 'init' and len(x.get('es', [])) == 1:
                        x = ir.strip(x['es'][0])
                    if i['t'] == 'member' and x is not None and x['k'] == 'ctor' and (x.get('copy') or x.get('move')) and len(x.get('args', [])) == 1:
                        y = ir.strip(x['args'][0])
                        if y['k'] == 'var' and y.get('vk') == 'param' and y.get('pi') == 0:
                            bound.add((ctor.tkey, i['name']))       # the member is a copy of the core
                            refs.append(False)
                    if i['t'] == 'member' and x is not None and x['k'] == 'un' and x['op'] == '&':
                        y = ir.strip(x['e'])
                        if y['k'] == 'var' and y.get('vk') == 'param' and y.get('pi') == 0:
                            bound.add((ctor.tkey, i['name']))
                            refs.append('*' in (fields.get(i['name'], {}).get('ty') or '*'))
                if not bound:
                    raise AnalysisBroken('cannot tell what %s binds its core parameter to' % ctor.short)
            ok = bool(bound) and all(refs) and ('&' in (p0.get('ty') or ''))
            run.ob('C06.b', '%s views the machine core through a reference (member %s, parameter %s)' % (tk, sorted(f for _, f in bound), p0.get('n')), ok,
                   where=ctor.pat, detail={'bound members': sorted(bound), 'reference': refs, 'parameter type': (p0.get('ty') or '')[-24:]},
                   key='%s holds a copy of the machine core instead of a reference to it' % tk)
        for fn in F.find(tk):
            if fn.m in ('_', 'context') and not fn.params:
                rty = fn.d.get('ret') or ''
                run.ob('C06.b', '%s::%s() hands out a reference (%s)' % (tk, fn.m, rty[-20:]), rty.rstrip().endswith('&'), where=fn.pat,
                       key='%s::%s() returns the context by value' % (tk, fn.m))
    # every control constructed by the root is bound to this->_core
    for tk in ('R_', 'RV_', 'RP_'):
        for fn in F.find(tk):
            for e in ir.all_exprs(fn):
                if e['k'] != 'ctor':
                    continue
                cls = e.get('cls') or ''
                if not any(cls.startswith('ffsm2::detail::%s<' % t) for t in CONTROL_TKEYS):
                    continue
                if e.get('copy') or e.get('move'):
                    continue
                a0 = ir.strip(e['args'][0]) if e.get('args') else None
                ok = a0 is not None and a0['k'] == 'mem' and a0['f'] == '_core' and ir.is_expr(a0['b']) and ir.strip(a0['b'])['k'] == 'this'
                run.ob('C06.b', '%s constructs %s on this->_core' % (fn.short, ir.short_type(cls).split('<')[0]), ok, where=e.get('l'),
                       key='%s constructs a control on something other than its own core' % fn.short)


# ------------------------------------------------------------------------------------------- C06.c
def bound_members(F, ctor, pi, depth=0):
    """fields (record tkey, field) that parameter pi of constructor `ctor` ends up bound to."""
    out = set()
    if ctor is None or depth > 8:
        return out
    for i in ctor.inits:
        e = i.get('e')
        if e is None:
            continue
        x = ir.strip(e)
        if x['k'] == 'init' and len(x.get('es', [])) == 1:
            x = ir.strip(x['es'][0])
        if i['t'] == 'member':
            if x['k'] == 'un' and x['op'] == '&':
                x = ir.strip(x['e'])          # a pointer member initialised with the parameter's address: the same alias
            if x['k'] == 'var' and x.get('vk') == 'param' and x.get('pi') == pi:
                out.add((ctor.tkey, i['name']))
        elif i['t'] == 'base':
            if x['k'] == 'ctor':
                g = F.fn(x['fn']) if x.get('fn') is not None else None
                for j, a in enumerate(x.get('args', [])):
                    a = ir.strip(a)
                    if a['k'] == 'var' and a.get('vk') == 'param' and a.get('pi') == pi:
                        out |= bound_members(F, g, j, depth + 1)
            elif x['k'] == 'inhctor':
                g = F.fn(x['fn']) if x.get('fn') is not None else None
                out |= bound_members(F, g, pi, depth + 1)
    if ctor.d.get('inherits') is not None and not out:
        out |= bound_members(F, F.fn(ctor.d['inherits']), pi, depth + 1)
    return out


def guard_call_sites(F, E, fn):
    """[(call expr, callee Fn)] for calls in fn that go to R_::cancelledBy*Guards, directly or through a member pointer"""
    out = []
    for e, g in E.call_sites(fn):
        if g is not None and g.m in ('cancelledByGuards', 'cancelledByEntryGuards'):
            out.append((e, g))
        elif g is None and e.get('pm'):
            for r in E.resolve_pm_all(fn, e):
                g2 = F.fn(r['fn']) if r.get('fn') is not None else None
                if g2 is not None and g2.m in ('cancelledByGuards', 'cancelledByEntryGuards'):
                    out.append((e, g2))
    return out


def check_roles(run, F, E):
    loop_fns = []
    for root_name in ('processRequest', 'initialEnter'):
        for root in F.find('R_', root_name):
            for g, st in anchors.substitution_loops(F, E, root):
                if g.id not in [x.id for x in loop_fns]:
                    loop_fns.append(g)
    run.require(loop_fns, 'no substitution loop found')
    for fn in loop_fns:
            # roles by data flow inside the function that owns the loop
            pending = current = None
            for e, g in E.call_sites(fn):
                if e['k'] == 'call' and (e.get('op') == '=' or e.get('m') == 'operator=') and ir.is_expr(e.get('obj')):
                    lhs = E.lv(e['obj'], fn)
                    rhs = E.lv(e['args'][0], fn) if e.get('args') else set()
                    if rhs == {('core', 'request')} and len(lhs) == 1:
                        pending = next(iter(lhs))
            for e, g in E.call_sites(fn):
                if e['k'] == 'call' and (e.get('op') == '=' or e.get('m') == 'operator=') and ir.is_expr(e.get('obj')):
                    lhs = E.lv(e['obj'], fn)
                    rhs = E.lv(e['args'][0], fn) if e.get('args') else set()
                    if pending is not None and rhs == {pending} and len(lhs) == 1:
                        current = next(iter(lhs))
            if pending is None or current is None or pending == current:
                # the roles are not visible inside this one function (e.g. the guard step lives in a helper that takes both by
                # reference): the flow rules below decide the same facts on the interpreted program, whatever the decomposition
                run.ob('C06.c', '%s: pending/current roles are not recognisable inside the function; decided by the flow rules (pending shown == request '
                       'under evaluation, current == last accepted) [%s]' % (fn.short, F.cfg or 'none'), True, where=fn.pat)
                continue
            run.ob('C06.c', '%s has a pending object (copy of the request) and a current object (copy of an accepted pending) [%s]' % (fn.short, F.cfg or 'none'),
                   True, where=fn.pat)
            guards = guard_call_sites(F, E, fn)
            if not guards:
                run.ob('C06.c', '%s consults guards through a helper; decided by the flow rules [%s]' % (fn.short, F.cfg or 'none'), True, where=fn.pat)
                continue
            for e, g in guards:
                guard_fn_name = g.m
                roles = [E.lv(a, fn) for a in e.get('args', [])]
                ok = len(roles) == 2 and roles[0] == {current} and roles[1] == {pending}
                run.ob('C06.c', '%s passes (current, pending) to %s in that order [%s]' % (fn.short, guard_fn_name, F.cfg or 'none'), ok,
                       where=e.get('l'), detail=None if ok else [sorted(r) for r in roles],
                       key='%s swaps current and pending when consulting guards' % fn.short)
                # inside the guard function: GuardControl{_core, p0, p1}
                ctors = [x for x in ir.all_exprs(g) if x['k'] == 'ctor' and (x.get('cls') or '').startswith('ffsm2::detail::GuardControlT<')]
                okc = len(ctors) == 1
                if okc:
                    x = ctors[0]
                    gc = F.fn(x['fn'])
                    pos = {}
                    for j, a in enumerate(x.get('args', [])):
                        a = ir.strip(a)
                        if a['k'] == 'var' and a.get('vk') == 'param':
                            pos[a['pi']] = j
                    cur_m = bound_members(F, gc, pos.get(0, -1))
                    pen_m = bound_members(F, gc, pos.get(1, -1))
                    okc = cur_m == {('ffsm2::detail::PlanControlT', '_currentTransition')} and \
                        pen_m == {('ffsm2::detail::GuardControlT', '_pendingTransition')}
                    det = {'current ->': sorted(cur_m), 'pending ->': sorted(pen_m)}
                else:
                    det = {'GuardControl constructions': len(ctors)}
                run.ob('C06.c', 'R_::%s binds current to _currentTransition and pending to _pendingTransition [%s]' % (guard_fn_name, F.cfg or 'none'),
                       okc, where=g.pat, detail=None if okc else det, key='R_::%s binds the transitions to the wrong control members' % guard_fn_name)
                # a fresh guard control per round
                cg = cfgmod.cfg_of(g)
                run.ob('C06.c', 'R_::%s builds a fresh GuardControl for each round [%s]' % (guard_fn_name, F.cfg or 'none'),
                       len(ctors) == 1 and not any(cg.in_loop(n) for n in cg.events(('ctor',))), where=g.pat,
                       key='R_::%s reuses a guard control' % guard_fn_name)
        # the PlanControl used for enter/exit sees the current transition: decided on the interpreted program (flow rule C02.d checks
        # that enter()/reenter() run with a control whose current transition is the accepted one)


# ------------------------------------------------------------------------------------------- C06.d
def registry_obj(active, requested=255):
    return Obj(registry=Obj(active=active, requested=requested))


def check_is_active(run, F):
    # one and the same answer from the machine and from every control flavour, for every id -- the invalid id (the root head's) included:
    # the comparison of the active slot with the id, nothing else
    spec = lambda active, id: (active == id)
    targets = []
    for fn in F.find('R_', 'isActive'):
        if len(fn.params) == 1:
            targets.append(('R_::isActive(id)', fn, lambda core: Obj(_core=core)))
    for tk in ('ConstControlT', 'ControlT'):
        for fn in F.find(tk, 'isActive'):
            if len(fn.params) == 1:
                targets.append(('%s::isActive(id)' % tk, fn, lambda core: Obj(_core=core, _originId=255)))
    for fn in F.find('Registry', 'isActive'):
        if len(fn.params) == 1:
            targets.append(('Registry::isActive(id)', fn, None))
    seen = set()
    for name, fn, mk in targets:
        if (name, fn.pat) in seen:
            continue
        seen.add((name, fn.pat))

        def run_eval(ev, vals, fn=fn, mk=mk):
            core = registry_obj(vals['active'])
            this = mk(core) if mk else core['registry']
            return ev.call(fn, this, [vals['id']])
        ok, bad, cells, consts = cmpdomain.decide(F, run_eval, ['active', 'id'], spec)
        run.ob('C06.d', '%s == (active == id) on all %d cells of the comparison domain (constants %s)' % (name, cells, consts), ok,
               where=fn.pat, detail=bad, key='%s disagrees with active == id' % name)
    # templated forms: isActive<T>() must go through the same comparison with stateId<T>()
    for tk in ('R_', 'ConstControlT', 'ControlT'):
        for fn in F.find(tk, 'isActive'):
            if fn.params:
                continue
            if tk == 'RV_':
                continue
            rets = [s for s in ir.walk_stmts(fn.body) if s.get('s') == 'ret']
            ok = False
            if len(rets) == 1:
                e = ir.strip(rets[0]['e'])
                if e['k'] == 'call' and e.get('m') == 'isActive' and len(e.get('args', [])) == 1:
                    ok = ir.const_val(e['args'][0]) is not None or ir.strip(e['args'][0])['k'] == 'call'
                elif e['k'] == 'bin' and e['op'] == '==':
                    l, r = ir.strip(e['l']), ir.strip(e['r'])
                    ok = ir.pp(l).endswith('registry.active') and (r['k'] in ('c', 'call'))
            run.ob('C06.d', '%s::isActive<T>() compares registry.active with stateId<T>()' % tk, ok, where=fn.pat,
                   key='%s::isActive<T>() is not the id comparison' % tk)


# ------------------------------------------------------------------------------------------- C06.e
def check_request_origin(run, F, E):
    for tk, m in (('FullControlBaseT', 'changeTo'), ('FullControlT', 'changeWith')):
        for fn in F.find(tk, m):
            if len(fn.params) < 1 or 'StateID' in ''.join(fn.d.get('ftargs', [])):
                continue
            if fn.params[0]['n'] not in ('stateId_',):
                continue
            ctors = [x for x in ir.all_exprs(fn) if x['k'] == 'ctor' and (x.get('cls') or '').startswith('ffsm2::detail::TransitionT<')
                     and not (x.get('copy') or x.get('move'))]
            ok = len(ctors) == 1
            det = None
            if ok:
                x = ctors[0]
                g = F.fn(x['fn'])
                pnames = [p['n'] for p in g.params] if g is not None else []
                if g is not None and g.d.get('inherits') is not None and not all(pnames):
                    pnames = [p['n'] for p in (F.fn(g.d['inherits']).params if F.fn(g.d['inherits']) else [])]
                args = [ir.strip(a) for a in x.get('args', [])]
                amap = dict(zip(pnames, args))
                o, d = amap.get('origin_'), amap.get('destination_')
                ok = o is not None and d is not None and o['k'] == 'mem' and o['f'] == '_originId' and ir.strip(o['b'])['k'] == 'this' and d['k'] == 'var' and d.get('pi') == 0
                if m == 'changeWith':
                    p = amap.get('payload')
                    ok = ok and p is not None and p['k'] == 'var' and p.get('pi') == 1
                det = {k: ir.pp(v) for k, v in amap.items()}
            if ok:
                # ... and it does so on every call (only the control lock may suppress it): otherwise the outstanding request keeps
                # another requester's origin
                c = cfgmod.cfg_of(fn)
                asg = c.events(('call',), lambda n: (n.e.get('op') == '=' or n.e.get('m') == 'operator=') and ir.is_expr(n.e.get('obj')) and
                               E.lv(n.e['obj'], fn) == {('core', 'request')})
                ok = len(asg) == 1 and all('_locked' in ir.pp(ir.strip(b.e)) for b in c.control_deps_closure(asg[0]) if b.e is not None)
                if not ok:
                    det = {'request assignment is conditional on': [ir.pp(ir.strip(b.e))[:80] for b in c.control_deps_closure(asg[0])] if asg else 'no assignment'}
            run.ob('C06.e', '%s::%s records (_originId, requested id%s) in the request' % (tk, m, ', payload' if m == 'changeWith' else ''), ok,
                   where=fn.pat, detail=None if ok else det, key='%s::%s records the wrong origin/destination' % (tk, m))


def run(run):
    cfgs = facts.configs(run.tier)
    jobs = [('w_core', c, v) for c in cfgs for v in facts.variants(run.tier)]
    facts.prefetch(jobs)
    for (w, c, v) in jobs:
        F = facts.load(w, c, v)
        run.require(F.unknown == 0, 'unknown AST nodes in %s' % F.label())
        E = effects.Effects(F)
        run.count('fact units')
        run.count('functions', len(F.fns))
        run.guard('check origins', check_origins, run, F, E)
        run.guard('check accessors', check_accessors, run, F, E)
        run.guard('check roles', check_roles, run, F, E)
        run.guard('check is active', check_is_active, run, F)
        run.guard('check request origin', check_request_origin, run, F, E)
        facts.drop(F)
        cfgmod.clear_cache()
    # the same facts on the interpreted program (independent of how the guard step is decomposed into functions): every guard round
    # shows the request under evaluation as pending and a whole copy of it; controls are bound to the instance core
    from rules import flow_rules
    run.guard('flow obligations', flow_rules.flow_obligations, run, {'C06.b', 'C03.b', 'C07.c'})
    run.relabel('C03.b', 'C06.c')
    run.relabel('C07.c', 'C06.c')
    run.floor('C06.a', 100)
    run.floor('C06.b', 60)
    run.floor('C06.c', 30)
    run.floor('C06.d', 30)
    run.floor('C06.e', 8)
    run.explanation = (
        'Order rules on the S_ wrappers (scoped origin dominates / outlives the user code), accessor return paths and '
        'constructor reference-binding facts for every control flavour, role tracking of the pending/current transition '
        'objects down to the control members, and an exhaustive comparison-domain evaluation of every isActive(id) '
        'against active == id (the predicates only compare their inputs, which the checker verifies before evaluating).')
