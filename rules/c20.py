"""C20 -- bit sets and fixed arrays behave like their mathematical models (decided part).

C20.a  [sib] BitArrayT::get / set(i) / clear(i) compute unit and mask by the same normalised expressions
       (unit = i div 8, mask = 1 << (i mod 8)) and apply `& ... != 0`, `|=`, `&= ~`.
C20.b  representation invariant "bits at positions >= CAPACITY are 0": established by the constructor and clear(),
       preserved by every mutator (each write to the storage is classified: assign 0 / assign whole-unit constant /
       OR one in-range bit / AND), relied upon by empty().
C20.c  StaticArrayT / DynamicArrayT accessor and iteration shapes.
C20.d  G1: whole-array operations cover the full extent.
An unrecognised *shape* is "analysis broken" (exit 2); a recognised shape with the wrong constant, operator, extent or
order is a violation.
C20.e  [bit provenance] per-operation refinement of the set-of-integers model for every instantiated capacity and every index.
Not decided: fixed/growable array element values over all sequences (only their accessor shapes, C20.c); capacities outside the
witness family are covered by the structural rules C20.a-d only.
"""
from lint import facts, ir, effects, loops, cfg as cfgmod
from lint.common import AnalysisBroken

LEVEL = 'other'


def capacity_of(F, fn):
    rec = F.rec_by_name.get(fn.cls) or {}
    return rec.get('consts', {}).get('CAPACITY'), rec.get('consts', {}).get('UNIT_COUNT')


def storage_extent(F, fn, field='_storage'):
    rec = F.rec_by_name.get(fn.cls) or {}
    for f in rec.get('fields', []):
        if f['n'] == field:
            return f.get('extent')
    return None


def bit_index_rules(run, F, E, decided=()):
    """shape rule; where the shape is not the recognised one but C20.e has decided the operation semantically (for every index),
    the shape rule steps aside (a note, not a refusal): an unrecognised but correct rewrite must stay silent, a wrong one is
    reported by C20.e."""
    for fn in F.find('BitArrayT'):
        if fn.m not in ('get', 'set', 'clear') or len(fn.params) != 1:
            continue
        try:
            bit_index_rule(run, F, E, fn, (capacity_of(F, fn)[0], fn.m, 1) in decided)
        except AnalysisBroken as e:
            if (capacity_of(F, fn)[0], fn.m, 1) not in decided:
                raise
            run.note('C20.a steps aside for %s (decided by C20.e): %s' % (fn.short, e))


def bit_index_rule(run, F, E, fn, decided_semantically=False):
    if True:
        cap, units = capacity_of(F, fn)
        decls = E.decls(fn)
        pname = fn.params[0]['n']
        inst = 'BitArrayT<%s>::%s(%s)' % (cap, fn.m, ir.short_type(fn.params[0]['ty']))
        if fn.m == 'get':
            rets = [s for s in ir.walk_stmts(fn.body) if s.get('s') == 'ret']
            run.require(len(rets) == 1, 'BitArrayT::get has %d return statements' % len(rets))
            e = ir.normalize(ir.expand(rets[0]['e'], decls))
            # (S[unit] & mask) != 0
            shape = e['k'] == 'bin' and e['op'] in ('!=',) and ir.const_val(e['r']) == 0 and ir.strip(e['l'])['k'] == 'bin' and ir.strip(e['l'])['op'] == '&'
            if not shape:
                # equivalent recognised idiom: (S[unit] >> bit) & 1
                raise AnalysisBroken('unrecognised shape of BitArrayT::get: ' + ir.pp(e))
            a = ir.strip(e['l'])
            cell, mask = a['l'], a['r']
            if ir.strip(cell)['k'] != 'idx':
                cell, mask = mask, cell
            op_ok = True
        else:
            writes = [x for x in ir.all_exprs(fn) if x['k'] == 'asg']
            run.require(len(writes) == 1, 'BitArrayT::%s(i) has %d writes' % (fn.m, len(writes)))
            w = writes[0]
            cell = ir.normalize(ir.expand(w['l'], decls))
            rhs = ir.normalize(ir.expand(w['r'], decls))
            if fn.m == 'set':
                op_ok = w['op'] == '|='
                mask = rhs
            else:
                op_ok = w['op'] == '&=' and rhs['k'] == 'un' and rhs['op'] == '~'
                mask = rhs['e'] if rhs['k'] == 'un' else rhs
        cell = ir.normalize(cell)
        mask = ir.normalize(mask)
        run.require(cell['k'] == 'idx', 'unrecognised storage access in BitArrayT::%s: %s' % (fn.m, ir.pp(cell)))
        unit = ir.pp(cell['i'])
        want_unit = '(%s / 8)' % pname
        want_mask = '(1 << (%s %% 8))' % pname
        ok = op_ok and ir.pp(ir.strip(cell['b'])) == '_storage' and unit == want_unit and ir.pp(mask) == want_mask
        if not ok and decided_semantically:
            # a different spelling: whether it is right is C20.e's verdict (every index evaluated), not this shape rule's
            run.note('C20.a: %s is not spelled unit = i/8, mask = 1 << i%%8; left to C20.e' % inst)
            return
        run.ob('C20.a', '%s: unit = i div 8, mask = 1 << (i mod 8), operator %s' % (inst, {'get': '& != 0', 'set': '|=', 'clear': '&= ~'}[fn.m]), ok,
               where=fn.pat, detail=None if ok else {'unit': unit, 'mask': ir.pp(mask), 'operator_ok': op_ok},
               key='BitArrayT::%s(i) addresses the wrong unit/bit or applies the wrong operator' % fn.m)


def invariant_rules(run, F, E, decided=()):
    """classify every write to _storage in every BitArrayT member"""
    for fn in F.find('BitArrayT'):
        cap, units = capacity_of(F, fn)
        if cap is None:
            continue
        ext = storage_extent(F, fn)
        rem = cap % 8
        last_mask = (1 << rem) - 1 if rem else 0xFF
        decls = E.decls(fn)
        # writes, in program order, with their control dependences
        effects_on_last = []      # ('assign', K) / ('and', M or None) / ('or', K) / ('or_bit',)
        unknown = None
        c = cfgmod.cfg_of(fn)
        wnodes, _, _ = __import__('lint.anchors', fromlist=['x']).ordered_events(c, lambda n: n.kind == 'write' and n.e['k'] == 'asg')
        for n in wnodes:
            x = n.e
            tgt = ir.strip(x['l'])
            paths = E.lv(x['l'], fn)
            if not any(p[:2] == ('this', '_storage') for p in paths):
                if any(p[0] == 'this' for p in paths):
                    unknown = 'write to another member: ' + ir.pp(x)
                continue
            conditional = bool(c.control_deps(n))
            rhs = ir.normalize(ir.expand(x['r'], decls))
            whole = tgt['k'] == 'var' and decls.get(tgt['id'], {}).get('_range') is not None
            if x['op'] == '=':
                k = ir.const_val(rhs)
                if k is None:
                    unknown = 'assignment of a non-constant to a storage unit: ' + ir.pp(x)
                else:
                    effects_on_last.append(('assign', k & 0xFF, whole, tgt, conditional))
            elif x['op'] == '&=':
                effects_on_last.append(('and', ir.const_val(rhs), whole, tgt, conditional))
            elif x['op'] == '|=':
                cell = ir.normalize(ir.expand(x['l'], decls))
                if cell['k'] == 'idx' and ir.pp(rhs).startswith('(1 << (') and ir.pp(rhs).endswith('% 8))'):
                    effects_on_last.append(('or_bit', None, False, tgt, conditional))
                else:
                    k = ir.const_val(rhs)
                    if k is not None:
                        effects_on_last.append(('or', k & 0xFF, whole, tgt, conditional))
                    else:
                        unknown = 'OR of something that is not a single index bit: ' + ir.pp(x)
            else:
                unknown = 'operator %s on a storage unit' % x['op']
        if unknown:
            if (cap, fn.m, len(fn.params)) in decided:
                run.note('C20.b steps aside for %s (decided by C20.e): %s' % (fn.short, unknown))
                continue
            raise AnalysisBroken('BitArrayT::%s: %s' % (fn.m, unknown))
        if not effects_on_last:
            continue
        # abstract value of the padding bits of the last unit: 'zero' (invariant) or 'dirty'
        # start from the invariant (mutators) -- constructors start from the default member initialiser {} (zero)
        pad = 0      # padding bits known to be zero
        dirty = False
        for kind, k, whole, tgt, conditional in effects_on_last:
            idx_const = None
            t = ir.normalize(ir.expand(tgt, decls)) if tgt['k'] != 'var' else tgt
            if t['k'] == 'idx':
                idx_const = ir.const_val(t['i'])
            touches_last = whole or idx_const is None or idx_const == (ext - 1 if ext else None)
            if not touches_last:
                continue
            if kind == 'assign':
                d = bool(k & ~last_mask & 0xFF)
                dirty = (dirty or d) if conditional else d
            elif kind == 'or':
                dirty = dirty or bool(k & ~last_mask & 0xFF)
            elif kind == 'and':
                # a conditional AND cannot be relied upon to clean; the cleaning AND must hit the last unit for sure
                if not conditional and k is not None and (k & ~last_mask & 0xFF) == 0 and (whole or idx_const == (ext - 1 if ext else None)):
                    dirty = False
            elif kind == 'or_bit':
                pass   # in-range by precondition A3 (index < CAPACITY)
        # whole-array operations: the constant every unit / the last unit ends up with
        if not fn.params and fn.m in ('set', 'clear'):
            val_all = None      # value of every unit (None = unknown)
            val_last = None
            for kind, k, whole, tgt, conditional in effects_on_last:
                t = ir.normalize(ir.expand(tgt, decls)) if tgt['k'] != 'var' else tgt
                idx_const = ir.const_val(t['i']) if t['k'] == 'idx' else None
                hits_last = whole or idx_const == (ext - 1 if ext else None)
                if conditional:
                    val_all = val_last = None
                    continue
                if kind == 'assign':
                    if whole:
                        val_all = val_last = k
                    elif hits_last:
                        val_last = k
                    else:
                        val_all = None
                elif kind == 'and' and k is not None:
                    if whole:
                        val_all = None if val_all is None else val_all & k
                        val_last = None if val_last is None else val_last & k
                    elif hits_last:
                        val_last = None if val_last is None else val_last & k
                    else:
                        val_all = None
                elif kind == 'or' and k is not None:
                    if whole:
                        val_all = None if val_all is None else val_all | k
                        val_last = None if val_last is None else val_last | k
                    elif hits_last:
                        val_last = None if val_last is None else val_last | k
                else:
                    val_all = val_last = None
            want_all = 0xFF if fn.m == 'set' else 0
            want_last = last_mask if fn.m == 'set' else 0
            ok_full = (val_last == want_last) and (ext == 1 or val_all == want_all)
            run.ob('C20.b', 'BitArrayT<%d>::%s() leaves every unit 0x%02X and the last unit 0x%02X (all valid bits %s)' % (
                cap, fn.m, want_all, want_last, 'set' if fn.m == 'set' else 'clear'), ok_full, where=fn.pat,
                detail=None if ok_full else {'every unit': val_all, 'last unit': val_last, 'capacity': cap},
                key='BitArrayT::%s() does not %s every valid bit' % (fn.m, 'set' if fn.m == 'set' else 'clear'))
        what = 'BitArrayT<%d>::%s%s keeps bits >= CAPACITY zero (last unit mask 0x%02X)' % (
            cap, fn.m, '(i)' if fn.params and fn.m in ('set', 'clear') else '()' if not fn.params else '(other)', last_mask)
        run.ob('C20.b', what, not dirty, where=fn.pat,
               detail=None if not dirty else {'writes': [(k, v) for k, v, _, _, _ in effects_on_last], 'capacity': cap},
               key='BitArrayT::%s%s sets padding bits of the last unit' % (fn.m, '(i)' if fn.params else '()'))
    # the constructor establishes it
    for fn in F.find('BitArrayT'):
        if fn.kind == 'ctor' and not fn.d.get('implicit') and not fn.params:
            calls = [e.get('m') for e, g in E.call_sites(fn)]
            rec = F.rec_by_name.get(fn.cls) or {}
            nsdmi = any(f['n'] == '_storage' and f.get('nsdmi') for f in rec.get('fields', []))
            run.ob('C20.b', 'BitArrayT constructor starts from all-zero storage', 'clear' in calls or nsdmi, where=fn.pat,
                   key='BitArrayT constructor does not zero the storage')
    # empty() reads whole units: relies on the invariant (recorded, not an obligation of its own)


def extent_rules(run, F, E):
    table = [('BitArrayT', 'set', 0, '_storage'), ('BitArrayT', 'clear', 0, '_storage'), ('BitArrayT', 'empty', 0, '_storage'),
             ('BitArrayT', 'operator&', 1, '_storage'), ('BitArrayT', 'operator&=', 1, '_storage'),
             ('StaticArrayT', 'fill', 1, '_items'), ('StaticArrayT', 'empty', 0, '_items'),
             ('StreamBufferT', 'operator==', 1, '_data'), ('StreamBufferT', 'operator!=', 1, '_data')]
    for tk, m, nparams, field in table:
        for fn in F.find(tk, m):
            if len(fn.params) != nparams:
                continue
            ext = storage_extent(F, fn, field)
            if ext is None:
                continue
            lps = loops.loops_of(fn)
            ok = len(lps) == 1 and loops.full_extent(lps[0], ext) and not loops.has_jump(lps[0], ('cont',))
            if ok and lps[0].kind == 'counted':
                # the body must index the array with the induction variable itself
                subs = [x for s in ir.walk_stmts(lps[0].body) for e in ir.stmt_exprs(s) for x in ir.walk(e) if x['k'] == 'idx']
                ok = bool(subs) and all(ir.strip(x['i'])['k'] == 'var' and ir.strip(x['i'])['id'] == lps[0].var['id'] for x in subs)
            if ok and lps[0].kind == 'range':
                ok = lps[0].array == field
            run.ob('C20.d', '%s<%s>::%s visits all %d element(s) of %s' % (tk, ','.join(t for t in fn.targs[-1:]), m, ext, field), ok,
                   where=fn.pat, detail=None if ok else [(l.kind, l.start, l.bound_op, l.bound_val, l.step) for l in lps],
                   key='%s::%s does not cover the whole array' % (tk, m))
    # the whole-array readers/writers do the right thing per element
    for fn in F.find('BitArrayT'):
        if fn.params and fn.m in ('operator&=',):
            ws = [x for x in ir.all_exprs(fn) if x['k'] == 'asg']
            ok = len(ws) == 1 and ws[0]['op'] == '&=' and ir.pp(ir.strip(ws[0]['l'])) == '_storage[i]' and ir.pp(ir.strip(ws[0]['r'])) == 'other._storage[i]'
            run.ob('C20.d', 'BitArrayT::operator&= ANDs unit i with the other array\'s unit i', ok, where=fn.pat,
                   key='BitArrayT::operator&= combines the wrong units')
        if not fn.params and fn.m == 'empty' and storage_extent(F, fn) is not None:
            rets = [ir.const_val(s['e']) for s in ir.walk_stmts(fn.body) if s.get('s') == 'ret']
            conds = [ir.pp(ir.normalize(s['c'])) for s in ir.walk_stmts(fn.body) if s.get('s') == 'if']
            ok = sorted(r for r in rets if r is not None) == [0, 1] and conds == ['(unit != 0)']
            run.ob('C20.d', 'BitArrayT::empty() is false iff some unit is non-zero', ok, where=fn.pat, detail=None if ok else {'returns': rets, 'conds': conds},
                   key='BitArrayT::empty() tests the wrong condition')


def array_rules(run, F, E):
    for tk in ('StaticArrayT', 'DynamicArrayT'):
        for fn in F.find(tk, 'operator[]'):
            rets = [s for s in ir.walk_stmts(fn.body) if s.get('s') == 'ret']
            ok = len(rets) == 1
            if ok:
                e = ir.strip(rets[0]['e'])
                ok = e['k'] == 'idx' and ir.pp(ir.strip(e['b'])) == '_items' and ir.strip(e['i'])['k'] == 'var' and ir.strip(e['i']).get('pi') == 0
            run.ob('C20.c', '%s::operator[](i)%s returns _items[i]' % (tk, ' const' if fn.is_const() else ''), ok, where=fn.pat,
                   key='%s::operator[] does not return the indexed element' % tk)
        for fn in F.find(tk):
            if fn.m == 'first' and not fn.params:
                r = [ir.const_val(s['e']) for s in ir.walk_stmts(fn.body) if s.get('s') == 'ret']
                run.ob('C20.c', '%s iteration starts at 0' % tk, r == [0], where=fn.pat, key='%s::first() is not 0' % tk)
            if fn.m == 'next' and len(fn.params) == 1:
                r = [ir.pp(ir.normalize(s['e'])) for s in ir.walk_stmts(fn.body) if s.get('s') == 'ret']
                run.ob('C20.c', '%s iteration steps by +1' % tk, r == ['(index + 1)'], where=fn.pat, detail=r, key='%s::next() is not index + 1' % tk)
            if fn.m == 'limit' and not fn.params:
                r = [ir.strip(s['e']) for s in ir.walk_stmts(fn.body) if s.get('s') == 'ret']
                if tk == 'StaticArrayT':
                    cap = (F.rec_by_name.get(fn.cls) or {}).get('consts', {}).get('CAPACITY')
                    ok = len(r) == 1 and ir.const_val(r[0]) == cap
                else:
                    ok = len(r) == 1 and ir.pp(r[0]) == '_count'
                run.ob('C20.c', '%s iteration ends at %s' % (tk, 'CAPACITY' if tk == 'StaticArrayT' else '_count'), ok, where=fn.pat,
                       key='%s::limit() is wrong' % tk)
    for fn in F.find('StaticArrayT', 'fill'):
        ws = [(x['l'], x['r']) for x in ir.all_exprs(fn) if x['k'] == 'asg' and x['op'] == '=']
        ws += [(x['obj'], x['args'][0]) for x in ir.all_exprs(fn) if x['k'] == 'call' and x.get('op') == '=' and x.get('args')]
        ok = len(ws) == 1 and ir.strip(ws[0][1])['k'] == 'var' and ir.strip(ws[0][1]).get('pi') == 0 and \
            ir.strip(ws[0][0])['k'] == 'var' and ir.strip(ws[0][0]).get('vk') == 'local'
        run.ob('C20.c', 'StaticArrayT::fill assigns its argument to each element', ok, where=fn.pat, key='StaticArrayT::fill assigns the wrong value')
    for fn in F.find('StaticArrayT', 'clear'):
        calls = [(e.get('m'), [ir.pp(ir.strip(a)) for a in e.get('args', [])]) for e, g in E.call_sites(fn)]
        ok = any(m == 'fill' and a and a[0].startswith('filler') or (m == 'fill' and a and a[0] in ('255',)) for m, a in calls)
        run.ob('C20.c', 'StaticArrayT::clear() == fill(filler<Item>())', ok, where=fn.pat, detail=calls, key='StaticArrayT::clear does not fill with the filler')
    for fn in F.find('StaticArrayT', 'empty'):
        conds = [ir.strip(s['c']) for s in ir.walk_stmts(fn.body) if s.get('s') == 'if']
        ok = len(conds) == 1 and conds[0]['k'] in ('bin', 'call')
        if ok:
            txt = ir.pp(conds[0])
            ok = 'filler' in txt or '255' in txt
        run.ob('C20.c', 'StaticArrayT::empty() compares every element with the same filler', ok, where=fn.pat,
               key='StaticArrayT::empty compares with something other than the filler')
    for fn in F.find('DynamicArrayT', 'emplace'):
        news = [x for x in ir.all_exprs(fn) if x['k'] == 'new']
        rets = [ir.strip(s['e']) for s in ir.walk_stmts(fn.body) if s.get('s') == 'ret']
        ok = len(news) == 1 and ir.pp(ir.strip(news[0]['place'][0])) == '&_items[_count]' and len(rets) == 1 and \
            rets[0]['k'] == 'un' and rets[0]['op'] == '++' and rets[0].get('post') and ir.pp(rets[0]['e']) == '_count'
        if ok:
            c = cfgmod.cfg_of(fn)
            nn = c.events(('new',))
            ww = c.events(('write',))
            ok = len(nn) == 1 and len(ww) == 1 and c.dominates(nn[0], ww[0])
        run.ob('C20.c', 'DynamicArrayT::emplace constructs in slot _count, then returns the old count and increments', ok, where=fn.pat,
               key='DynamicArrayT::emplace does not append at _count')
    for fn in F.find('DynamicArrayT'):
        if fn.m == 'clear' and not fn.params:
            ws = [x for x in ir.all_exprs(fn) if x['k'] == 'asg']
            ok = len(ws) == 1 and ir.pp(ws[0]['l']) == '_count' and ir.const_val(ws[0]['r']) == 0
            run.ob('C20.c', 'DynamicArrayT::clear resets the count', ok, where=fn.pat, key='DynamicArrayT::clear does not reset the count')



def refinement(run, F):
    """C20.e: per-operation refinement of the set-of-integers model, decided by bit-provenance abstract interpretation for every
    instantiated capacity and *every* index below it: set(i) makes exactly bit i one, clear(i) makes exactly bit i zero, get(i)
    returns exactly bit i, set()/clear() make every valid bit one/zero, &= ANDs bit by bit -- and every operation keeps the padding
    bits zero. With the representation invariant (C20.b) this is a simulation argument covering all operation sequences for these
    capacities."""
    from lint import bitprov
    from lint.bitprov import const_bits, W
    I = bitprov.Interp(F)
    seen = set()
    decided = set()
    for fn in F.find('BitArrayT'):
        cap, units = capacity_of(F, fn)
        if cap is None or fn.kind in ('ctor', 'dtor'):
            continue
        ext = storage_extent(F, fn)

        def fresh(tag):
            return [tuple((tag, by * 8 + k) if by * 8 + k < cap else 0 for k in range(8)) + (0,) * (W - 8) for by in range(ext)]

        def bit(data, p):
            return data[p // 8][p % 8]
        key = (cap, fn.m, len(fn.params), fn.params[0]['ty'] if fn.params else '')
        if key in seen:
            continue
        seen.add(key)
        bad = None
        cases = 0
        try:
            if fn.m in ('get', 'set', 'clear') and len(fn.params) == 1:
                for i in range(cap):
                    data = fresh('s')
                    res = I.run(fn, {'_storage': data}, [const_bits(i)])
                    cases += 1
                    for p in range(ext * 8):
                        want = ('s', p) if p < cap else 0
                        if p == i and fn.m == 'set':
                            want = 1
                        if p == i and fn.m == 'clear':
                            want = 0
                        if bit(data, p) != want and bad is None:
                            bad = {'index': i, 'storage bit': p, 'holds': str(bit(data, p)), 'expected': str(want)}
                    if fn.m == 'get' and bad is None and (res[0] != ('s', i) or any(b != 0 for b in res[1:8])):
                        bad = {'index': i, 'returns': str(res[:2]), 'expected': "('s', %d)" % i}
                what = '%s(i) for every i < %d: %s' % (fn.m, cap, {'get': 'returns exactly bit i and changes nothing', 'set': 'sets exactly bit i',
                                                                   'clear': 'clears exactly bit i'}[fn.m])
            elif fn.m in ('set', 'clear') and not fn.params:
                data = fresh('s')
                I.run(fn, {'_storage': data}, [])
                cases += 1
                for p in range(ext * 8):
                    want = (1 if fn.m == 'set' else 0) if p < cap else 0
                    if bit(data, p) != want and bad is None:
                        bad = {'storage bit': p, 'holds': str(bit(data, p)), 'expected': str(want)}
                what = '%s(): every valid bit becomes %d, padding stays 0' % (fn.m, 1 if fn.m == 'set' else 0)
            elif fn.m == 'operator&=':
                data = fresh('s')
                other = fresh('o')
                # `other` is a reference parameter to another bit array: bind it as an object
                env_this = {'_storage': data}
                oth = {'_storage': other}
                p0 = fn.params[0]
                env = {p0['id']: ['ref', ('obj', oth), None]}
                # run with a pre-bound environment
                try:
                    I.stmt(fn.body, fn, env_this, env, 0)
                except bitprov._Ret:
                    pass
                cases += 1
                for p in range(ext * 8):
                    want = ('and',) + tuple(sorted([('s', p), ('o', p)], key=repr)) if p < cap else 0
                    if bit(data, p) != want and bad is None:
                        bad = {'storage bit': p, 'holds': str(bit(data, p)), 'expected': str(want)}
                what = 'operator&=: bit p becomes (this[p] AND other[p]) for every p < %d, padding stays 0' % cap
            else:
                continue
        except bitprov.Refuse as e:
            raise AnalysisBroken('BitArrayT<%s>::%s is outside the bit-provenance fragment: %s' % (cap, fn.m, e))
        run.ob('C20.e', 'BitArrayT<%d>::%s' % (cap, what), bad is None, where=fn.pat, detail=bad,
               key='BitArrayT::%s%s does not refine the set-of-integers model' % (fn.m, '(i)' if fn.params and fn.m != 'operator&=' else '()'))
        run.count('bit-provenance cases', cases)
        decided.add((cap, fn.m, len(fn.params)))
    return decided


def run(run):
    cfgs = ['PS'] if run.tier == 'quick' else ['PS', 'PSHL', 'PSHVRDT']
    jobs = [('w_shared', c, v, s) for c in cfgs for v in facts.variants(run.tier) for s in (['c++11'] if run.tier == 'quick' else ['c++11', 'c++17'])]
    # the bit arrays as instantiated inside real machines, too
    jobs += [('w_core', 'P', v, 'c++11') for v in facts.variants(run.tier)]
    # every capacity 1..255 (all bit-array rules; quick: one header variant, thorough: every variant and both standards)
    jobs += [('w_bitarrays', 'PS', v, s) for v in (facts.variants(run.tier)[:1] if run.tier == 'quick' else facts.variants(run.tier))
             for s in (['c++11'] if run.tier == 'quick' else ['c++11', 'c++17'])]
    facts.prefetch(jobs)
    for (w, c, v, s) in jobs:
        F = facts.load(w, c, v, s)
        run.require(F.unknown == 0, 'unknown AST nodes in %s' % F.label())
        E = effects.Effects(F)
        run.count('fact units')
        decided = refinement(run, F)
        bit_index_rules(run, F, E, decided)
        invariant_rules(run, F, E, decided)
        extent_rules(run, F, E)
        if w != 'w_bitarrays':
            array_rules(run, F, E)
        facts.drop(F)
        cfgmod.clear_cache()
    run.floor('C20.a', 20)
    run.floor('C20.b', 20)
    run.floor('C20.c', 15)
    run.floor('C20.d', 20)
    run.floor('C20.e', 1500)
    run.explanation = (
        'Sibling agreement of the get/set/clear index arithmetic after normalisation, a representation-invariant argument '
        'for the padding bits of the last storage unit (each write to the storage is classified; the invariant is established '
        'by the constructor, preserved by every mutator and relied on by empty()), full-extent rules for every whole-array '
        'operation and shape rules for the array accessors and iteration, over capacities {1,7,8,9,12,16,17,255} (bit arrays), '
        '{1,2,7,8,255} (arrays) and the bit arrays of real machines; the bit-array rules additionally over every capacity 1..255 '
        '(w_bitarrays). C20.e decides, by bit-provenance abstract interpretation of every instantiated operation for every index '
        'below the capacity, that each operation refines the set-of-integers model and keeps the padding bits zero: with the '
        'representation invariant this covers every operation sequence. Fixed/growable array element values over sequences are '
        'decided only through the accessor/iteration shape rules (C20.c).')
