"""C20 -- bit sets and fixed arrays behave like their mathematical models (decided part).

C20.a  [sib] BitArrayT::get / set(i) / clear(i) compute unit and mask by the same normalised expressions
       (unit = i div 8, mask = 1 << (i mod 8)) and apply `& ... != 0`, `|=`, `&= ~`.
C20.b  representation invariant "bits at positions >= CAPACITY are 0": established by the constructor and clear(),
       preserved by every mutator (each write to the storage is classified: assign 0 / assign whole-unit constant /
       OR one in-range bit / AND), relied upon by empty().
C20.c  StaticArrayT / DynamicArrayT accessor and iteration shapes.
C20.d  G1: whole-array operations cover the full extent.
An unrecognised *shape* is "analysis broken" (exit 2); a recognised shape with the wrong constant, operator, extent or
order is a violation.
C20.e  [bit provenance] per-operation refinement of the set-of-integers model for every instantiated capacity and every index.
Not decided: fixed/growable array element values over all sequences (only their accessor shapes, C20.c); capacities outside the
witness family are covered by the structural rules C20.a-d only.
"""
from lint import facts, ir, effects, loops, cfg as cfgmod
from lint.common import AnalysisBroken

LEVEL = 'other'


def aside(run, rule, fn, what):
    """a shape rule that does not recognise a spelling steps aside for an operation the semantic rule C20.e has decided: recorded as
    discharged *through C20.e* (so instance floors stay meaningful), never reported and never refused"""
    run.ob(rule, '%s (%s): spelled differently from the recognised form; verdict taken from C20.e' % (fn.short, what), True, where=fn.pat)
    run.note('%s (%s) steps aside for %s: decided by C20.e' % (rule, what, fn.short))


def capacity_of(F, fn):
    rec = F.rec_by_name.get(fn.cls) or {}
    return rec.get('consts', {}).get('CAPACITY'), rec.get('consts', {}).get('UNIT_COUNT')


def storage_extent(F, fn, field='_storage'):
    rec = F.rec_by_name.get(fn.cls) or {}
    for f in rec.get('fields', []):
        if f['n'] == field:
            return f.get('extent')
    return None


def bit_index_rules(run, F, E, decided=()):
    """shape rule; where the shape is not the recognised one but C20.e has decided the operation semantically (for every index),
    the shape rule steps aside (a note, not a refusal): an unrecognised but correct rewrite must stay silent, a wrong one is
    reported by C20.e."""
    for fn in F.find('BitArrayT'):
        if fn.m not in ('get', 'set', 'clear') or len(fn.params) != 1:
            continue
        try:
            bit_index_rule(run, F, E, fn, (capacity_of(F, fn)[0], fn.m, 1) in decided)
        except AnalysisBroken as e:
            if (capacity_of(F, fn)[0], fn.m, 1) not in decided:
                raise
            aside(run, 'C20.a', fn, 'index arithmetic: %s' % e)


def bit_index_rule(run, F, E, fn, decided_semantically=False):
    if True:
        cap, units = capacity_of(F, fn)
        decls = E.decls(fn)
        pname = fn.params[0]['n']
        inst = 'BitArrayT<%s>::%s(%s)' % (cap, fn.m, ir.short_type(fn.params[0]['ty']))
        if fn.m == 'get':
            rets = [s for s in ir.walk_stmts(fn.body) if s.get('s') == 'ret']
            run.require(len(rets) == 1, 'BitArrayT::get has %d return statements' % len(rets))
            e = ir.normalize(ir.expand(rets[0]['e'], decls))
            # (S[unit] & mask) != 0
            shape = e['k'] == 'bin' and e['op'] in ('!=',) and ir.const_val(e['r']) == 0 and ir.strip(e['l'])['k'] == 'bin' and ir.strip(e['l'])['op'] == '&'
            if not shape:
                # equivalent recognised idiom: (S[unit] >> bit) & 1
                raise AnalysisBroken('unrecognised shape of BitArrayT::get: ' + ir.pp(e))
            a = ir.strip(e['l'])
            cell, mask = a['l'], a['r']
            if ir.strip(cell)['k'] != 'idx':
                cell, mask = mask, cell
            op_ok = True
        else:
            writes = [x for x in ir.all_exprs(fn) if x['k'] == 'asg']
            run.require(len(writes) == 1, 'BitArrayT::%s(i) has %d writes' % (fn.m, len(writes)))
            w = writes[0]
            cell = ir.normalize(ir.expand(w['l'], decls))
            rhs = ir.normalize(ir.expand(w['r'], decls))
            if fn.m == 'set':
                op_ok = w['op'] == '|='
                mask = rhs
            else:
                op_ok = w['op'] == '&=' and rhs['k'] == 'un' and rhs['op'] == '~'
                mask = rhs['e'] if rhs['k'] == 'un' else rhs
        cell = ir.normalize(cell)
        mask = ir.normalize(mask)
        run.require(cell['k'] == 'idx', 'unrecognised storage access in BitArrayT::%s: %s' % (fn.m, ir.pp(cell)))
        unit = ir.pp(cell['i'])
        want_unit = '(%s / 8)' % pname
        want_mask = '(1 << (%s %% 8))' % pname
        ok = op_ok and ir.pp(ir.strip(cell['b'])) == '_storage' and unit == want_unit and ir.pp(mask) == want_mask
        if not ok and decided_semantically:
            # a different spelling: whether it is right is C20.e's verdict (every index evaluated), not this shape rule's
            aside(run, 'C20.a', fn, 'not spelled unit = i/8, mask = 1 << i%8')
            return
        run.ob('C20.a', '%s: unit = i div 8, mask = 1 << (i mod 8), operator %s' % (inst, {'get': '& != 0', 'set': '|=', 'clear': '&= ~'}[fn.m]), ok,
               where=fn.pat, detail=None if ok else {'unit': unit, 'mask': ir.pp(mask), 'operator_ok': op_ok},
               key='BitArrayT::%s(i) addresses the wrong unit/bit or applies the wrong operator' % fn.m)


def invariant_rules(run, F, E, decided=()):
    """classify every write to _storage in every BitArrayT member"""
    for fn in F.find('BitArrayT'):
        cap, units = capacity_of(F, fn)
        if cap is None:
            continue
        ext = storage_extent(F, fn)
        rem = cap % 8
        last_mask = (1 << rem) - 1 if rem else 0xFF
        decls = E.decls(fn)
        # writes, in program order, with their control dependences
        effects_on_last = []      # ('assign', K) / ('and', M or None) / ('or', K) / ('or_bit',)
        unknown = None
        c = cfgmod.cfg_of(fn)
        wnodes, _, _ = __import__('lint.anchors', fromlist=['x']).ordered_events(c, lambda n: n.kind == 'write' and n.e['k'] == 'asg')
        for n in wnodes:
            x = n.e
            tgt = ir.strip(x['l'])
            paths = E.lv(x['l'], fn)
            if not any(p[:2] == ('this', '_storage') for p in paths):
                if any(p[0] == 'this' for p in paths):
                    unknown = 'write to another member: ' + ir.pp(x)
                continue
            conditional = bool(c.control_deps(n))
            rhs = ir.normalize(ir.expand(x['r'], decls))
            whole = tgt['k'] == 'var' and decls.get(tgt['id'], {}).get('_range') is not None
            if x['op'] == '=':
                k = ir.const_val(rhs)
                if k is None:
                    unknown = 'assignment of a non-constant to a storage unit: ' + ir.pp(x)
                else:
                    effects_on_last.append(('assign', k & 0xFF, whole, tgt, conditional))
            elif x['op'] == '&=':
                effects_on_last.append(('and', ir.const_val(rhs), whole, tgt, conditional))
            elif x['op'] == '|=':
                cell = ir.normalize(ir.expand(x['l'], decls))
                if cell['k'] == 'idx' and ir.pp(rhs).startswith('(1 << (') and ir.pp(rhs).endswith('% 8))'):
                    effects_on_last.append(('or_bit', None, False, tgt, conditional))
                else:
                    k = ir.const_val(rhs)
                    if k is not None:
                        effects_on_last.append(('or', k & 0xFF, whole, tgt, conditional))
                    else:
                        unknown = 'OR of something that is not a single index bit: ' + ir.pp(x)
            else:
                unknown = 'operator %s on a storage unit' % x['op']
        if unknown:
            if (cap, fn.m if fn.kind != 'ctor' else 'copy constructor', len(fn.params)) in decided or (cap, fn.m, len(fn.params)) in decided:
                run.note('C20.b steps aside for %s (decided by C20.e): %s' % (fn.short, unknown))
                continue
            # a non-public helper all of whose callers are operations C20.e decided (it was interpreted as part of them)
            from lint import anchors as _anc
            callers = [F.fn(cid) for cid in E.callers().get(fn.id, ())]
            if callers and _anc.is_internal_helper(F, fn) and all(
                    g is not None and g.tkey == fn.tkey and ((cap, g.m if g.kind != 'ctor' else 'copy constructor', len(g.params)) in decided) for g in callers):
                run.note('C20.b steps aside for helper %s (its callers are decided by C20.e): %s' % (fn.short, unknown))
                continue
            raise AnalysisBroken('BitArrayT::%s: %s' % (fn.m, unknown))
        if not effects_on_last:
            continue
        # abstract value of the padding bits of the last unit: 'zero' (invariant) or 'dirty'
        # start from the invariant (mutators) -- constructors start from the default member initialiser {} (zero)
        pad = 0      # padding bits known to be zero
        dirty = False
        for kind, k, whole, tgt, conditional in effects_on_last:
            idx_const = None
            t = ir.normalize(ir.expand(tgt, decls)) if tgt['k'] != 'var' else tgt
            if t['k'] == 'idx':
                idx_const = ir.const_val(t['i'])
            touches_last = whole or idx_const is None or idx_const == (ext - 1 if ext else None)
            if not touches_last:
                continue
            if kind == 'assign':
                d = bool(k & ~last_mask & 0xFF)
                dirty = (dirty or d) if conditional else d
            elif kind == 'or':
                dirty = dirty or bool(k & ~last_mask & 0xFF)
            elif kind == 'and':
                # a conditional AND cannot be relied upon to clean; the cleaning AND must hit the last unit for sure
                if not conditional and k is not None and (k & ~last_mask & 0xFF) == 0 and (whole or idx_const == (ext - 1 if ext else None)):
                    dirty = False
            elif kind == 'or_bit':
                pass   # in-range by precondition A3 (index < CAPACITY)
        # whole-array operations: the constant every unit / the last unit ends up with
        if not fn.params and fn.m in ('set', 'clear'):
            val_all = None      # value of every unit (None = unknown)
            val_last = None
            for kind, k, whole, tgt, conditional in effects_on_last:
                t = ir.normalize(ir.expand(tgt, decls)) if tgt['k'] != 'var' else tgt
                idx_const = ir.const_val(t['i']) if t['k'] == 'idx' else None
                hits_last = whole or idx_const == (ext - 1 if ext else None)
                if conditional:
                    val_all = val_last = None
                    continue
                if kind == 'assign':
                    if whole:
                        val_all = val_last = k
                    elif hits_last:
                        val_last = k
                    else:
                        val_all = None
                elif kind == 'and' and k is not None:
                    if whole:
                        val_all = None if val_all is None else val_all & k
                        val_last = None if val_last is None else val_last & k
                    elif hits_last:
                        val_last = None if val_last is None else val_last & k
                    else:
                        val_all = None
                elif kind == 'or' and k is not None:
                    if whole:
                        val_all = None if val_all is None else val_all | k
                        val_last = None if val_last is None else val_last | k
                    elif hits_last:
                        val_last = None if val_last is None else val_last | k
                else:
                    val_all = val_last = None
            want_all = 0xFF if fn.m == 'set' else 0
            want_last = last_mask if fn.m == 'set' else 0
            ok_full = (val_last == want_last) and (ext == 1 or val_all == want_all)
            if not ok_full and (cap, fn.m, 0) in decided:
                aside(run, 'C20.b', fn, 'final unit values')
            else:
              run.ob('C20.b', 'BitArrayT<%d>::%s() leaves every unit 0x%02X and the last unit 0x%02X (all valid bits %s)' % (
                cap, fn.m, want_all, want_last, 'set' if fn.m == 'set' else 'clear'), ok_full, where=fn.pat,
                detail=None if ok_full else {'every unit': val_all, 'last unit': val_last, 'capacity': cap},
                key='BitArrayT::%s() does not %s every valid bit' % (fn.m, 'set' if fn.m == 'set' else 'clear'))
        what = 'BitArrayT<%d>::%s%s keeps bits >= CAPACITY zero (last unit mask 0x%02X)' % (
            cap, fn.m, '(i)' if fn.params and fn.m in ('set', 'clear') else '()' if not fn.params else '(other)', last_mask)
        if dirty and (cap, fn.m, len(fn.params)) in decided:
            aside(run, 'C20.b', fn, 'padding classification')
            continue
        run.ob('C20.b', what, not dirty, where=fn.pat,
               detail=None if not dirty else {'writes': [(k, v) for k, v, _, _, _ in effects_on_last], 'capacity': cap},
               key='BitArrayT::%s%s sets padding bits of the last unit' % (fn.m, '(i)' if fn.params else '()'))
    # the constructor establishes it
    for fn in F.find('BitArrayT'):
        if fn.kind == 'ctor' and not fn.d.get('implicit') and not fn.params:
            calls = [e.get('m') for e, g in E.call_sites(fn)]
            rec = F.rec_by_name.get(fn.cls) or {}
            nsdmi = any(f['n'] == '_storage' and f.get('nsdmi') for f in rec.get('fields', []))
            run.ob('C20.b', 'BitArrayT constructor starts from all-zero storage', 'clear' in calls or nsdmi, where=fn.pat,
                   key='BitArrayT constructor does not zero the storage')
    # empty() reads whole units: relies on the invariant (recorded, not an obligation of its own)


def extent_rules(run, F, E, decided=()):
    table = [('BitArrayT', 'set', 0, '_storage'), ('BitArrayT', 'clear', 0, '_storage'), ('BitArrayT', 'empty', 0, '_storage'),
             ('BitArrayT', 'operator&', 1, '_storage'), ('BitArrayT', 'operator&=', 1, '_storage'),
             ('StaticArrayT', 'fill', 1, '_items'), ('StaticArrayT', 'empty', 0, '_items'),
             ('StreamBufferT', 'operator==', 1, '_data'), ('StreamBufferT', 'operator!=', 1, '_data')]
    for tk, m, nparams, field in table:
        for fn in F.find(tk, m):
            if len(fn.params) != nparams:
                continue
            ext = storage_extent(F, fn, field)
            if ext is None:
                continue
            from lint import anchors as _anc
            lps = loops.loops_of(_anc.through_forwarders(F, fn))      # a public wrapper that only forwards to a non-public implementation
            ok = len(lps) == 1 and loops.full_extent(lps[0], ext) and not loops.has_jump(lps[0], ('cont',))
            if ok and lps[0].kind == 'counted':
                # the body must index the array with the induction variable itself
                subs = [x for s in ir.walk_stmts(lps[0].body) for e in ir.stmt_exprs(s) for x in ir.walk(e) if x['k'] == 'idx']
                ok = bool(subs) and all(ir.strip(x['i'])['k'] == 'var' and ir.strip(x['i'])['id'] == lps[0].var['id'] for x in subs)
            if ok and lps[0].kind == 'range':
                ok = lps[0].array == field
            if not ok and tk == 'BitArrayT' and (capacity_of(F, fn)[0], m, nparams) in decided:
                aside(run, 'C20.d', fn, 'extent')
                continue
            run.ob('C20.d', '%s<%s>::%s visits all %d element(s) of %s' % (tk, ','.join(t for t in fn.targs[-1:]), m, ext, field), ok,
                   where=fn.pat, detail=None if ok else [(l.kind, l.start, l.bound_op, l.bound_val, l.step) for l in lps],
                   key='%s::%s does not cover the whole array' % (tk, m))
    # the whole-array readers/writers do the right thing per element
    for fn in F.find('BitArrayT'):
        if fn.params and fn.m in ('operator&=',):
            ws = [x for x in ir.all_exprs(fn) if x['k'] == 'asg']
            ok = len(ws) == 1 and ws[0]['op'] == '&=' and ir.pp(ir.strip(ws[0]['l'])) == '_storage[i]' and ir.pp(ir.strip(ws[0]['r'])) == 'other._storage[i]'
            if not ok and (capacity_of(F, fn)[0], fn.m, 1) in decided:
                aside(run, 'C20.d', fn, '&= shape')
                continue
            run.ob('C20.d', 'BitArrayT::operator&= ANDs unit i with the other array\'s unit i', ok, where=fn.pat,
                   key='BitArrayT::operator&= combines the wrong units')
        if not fn.params and fn.m == 'empty' and storage_extent(F, fn) is not None:
            rets = [ir.const_val(s['e']) for s in ir.walk_stmts(fn.body) if s.get('s') == 'ret']
            conds = [ir.pp(ir.normalize(s['c'])) for s in ir.walk_stmts(fn.body) if s.get('s') == 'if']
            ok = sorted(r for r in rets if r is not None) == [0, 1] and conds == ['(unit != 0)']
            if not ok and (capacity_of(F, fn)[0], 'empty', 0) in decided:
                aside(run, 'C20.d', fn, 'empty() shape')
                continue
            run.ob('C20.d', 'BitArrayT::empty() is false iff some unit is non-zero', ok, where=fn.pat, detail=None if ok else {'returns': rets, 'conds': conds},
                   key='BitArrayT::empty() tests the wrong condition')


def array_rules(run, F, E):
    """C20.c: effect summaries of the array operations in the offset domain (lint/symeval.py): what each operation stores where, what
    it leaves in the count and what it returns, as a function of its entry state -- independent of how the body is spelled. A
    function outside the fragment is analysis-broken (exit 2), never a verdict."""
    from lint import symeval
    from lint.symeval import Sym, Opaque, Elem, ObjRef

    class All(object):
        """the summaries of every path of a function (one per combination of the entry-state comparisons it branches on): an
        attribute read is only defined when all paths agree, otherwise it is DISAGREE -- which equals nothing, so the obligation fails"""
        def __init__(self, sms):
            self.sms = sms

        def _same(self, vals):
            return vals[0] if all(v == vals[0] for v in vals[1:]) else DISAGREE
        ret = property(lambda self: self._same([m.ret for m in self.sms]))
        stores = property(lambda self: self._same([m.stores for m in self.sms]))

        @property
        def fields(self):
            out = {}
            for k in self.sms[0].fields:
                vals = [m.fields.get(k) for m in self.sms]
                if all(isinstance(v, ObjRef) for v in vals):
                    out[k] = ObjRef({f: self._same([v.fields.get(f) for v in vals]) for f in vals[0].fields}, vals[0].arrays)
                else:
                    out[k] = self._same(vals)
            return out

    DISAGREE = Opaque('paths disagree')

    def summary(fn, args, fields=None, arrays=('_items',)):
        import copy
        f0 = {'_count': Sym('count')} if fields is None else fields
        try:
            paths = symeval.explore(lambda a: symeval.Eval(F, copy.deepcopy(f0), arrays, a), fn, args, limit=64)
        except symeval.Refuse as ex:
            raise AnalysisBroken('%s is outside the offset-domain fragment: %s' % (fn.short, ex))
        return All([sm for dec, sm in paths])

    def mentions(v, what):
        return v == what or (isinstance(v, Opaque) and isinstance(v.tag, tuple) and any(mentions(x, what) for x in v.tag[1:]))

    def is_iter(v, cursor):
        return isinstance(v, Opaque) and isinstance(v.tag, tuple) and v.tag[0] == 'constructed' and len(v.tag) == 3 and v.tag[1] == ('this',) and v.tag[2] == cursor

    for tk in ('StaticArrayT', 'DynamicArrayT'):
        for fn in F.find(tk):
            rec = F.rec_by_name.get(fn.cls) or {}
            cap = rec.get('consts', {}).get('CAPACITY')
            limit = cap if tk == 'StaticArrayT' else Sym('count')
            cn = ' const' if fn.is_const() else ''
            if fn.m == 'operator[]' and len(fn.params) == 1:
                sm = summary(fn, [Sym('i')])
                ok = sm.ret == Elem('_items', Sym('i')) and not sm.stores and sm.fields.get('_count') == Sym('count')
                run.ob('C20.c', '%s::operator[](i)%s returns element i of the storage and changes nothing' % (tk, cn), ok, where=fn.pat,
                       detail=None if ok else {'returns': repr(sm.ret), 'stores': repr(sm.stores)}, key='%s::operator[] does not return the indexed element' % tk)
            elif fn.m == 'first' and not fn.params:
                sm = summary(fn, [])
                run.ob('C20.c', '%s iteration starts at 0' % tk, sm.ret == 0, where=fn.pat, detail=repr(sm.ret), key='%s::first() is not 0' % tk)
            elif fn.m == 'next' and len(fn.params) == 1:
                sm = summary(fn, [Sym('i')])
                run.ob('C20.c', '%s iteration steps by +1' % tk, sm.ret == Sym('i', 1), where=fn.pat, detail=repr(sm.ret), key='%s::next() is not index + 1' % tk)
            elif fn.m == 'limit' and not fn.params:
                sm = summary(fn, [])
                run.ob('C20.c', '%s iteration ends at %s' % (tk, 'CAPACITY' if tk == 'StaticArrayT' else 'the count'), sm.ret == limit, where=fn.pat,
                       detail=repr(sm.ret), key='%s::limit() is wrong' % tk)
            elif fn.m in ('begin', 'cbegin') and not fn.params:
                sm = summary(fn, [])
                run.ob('C20.c', '%s::%s()%s is an iterator over this array at position 0' % (tk, fn.m, cn), is_iter(sm.ret, 0) and not sm.stores, where=fn.pat,
                       detail=repr(sm.ret), key='%s::%s() does not start at element 0' % (tk, fn.m))
            elif fn.m in ('end', 'cend') and not fn.params:
                sm = summary(fn, [])
                run.ob('C20.c', '%s::%s()%s is an iterator over this array at position %s' % (tk, fn.m, cn, 'CAPACITY' if tk == 'StaticArrayT' else '<count>'),
                       is_iter(sm.ret, limit) and not sm.stores, where=fn.pat, detail=repr(sm.ret), key='%s::%s() is not one past the last element' % (tk, fn.m))
            elif fn.m == 'count' and not fn.params:
                sm = summary(fn, [])
                run.ob('C20.c', '%s::count() reports %s' % (tk, 'CAPACITY' if tk == 'StaticArrayT' else 'the count'), sm.ret == limit, where=fn.pat,
                       detail=repr(sm.ret), key='%s::count() is wrong' % tk)
    # iterators: position compared with the container's limit, advanced by one, dereferenced at the position
    for fn in F.find('IteratorT'):
        if fn.kind in ('ctor', 'dtor') or fn.d.get('implicit'):
            continue
        cont = 'StaticArrayT' if 'StaticArrayT<' in fn.cls else 'DynamicArrayT'
        limit = None
        if cont == 'StaticArrayT':
            continue   # cannot be instantiated (IteratorT befriends DynamicArrayT only); nothing to decide
        fields = {'_cursor': Sym('cur'), '_container': ObjRef({'_count': Sym('count')}, ['_items'])}
        other = ObjRef({'_cursor': Sym('other_cur'), '_container': ObjRef({'_count': Sym('other_count')}, ['_items'])}, []) if fn.m == 'operator!=' else Opaque('other')
        sm = summary(fn, [other], fields, ())
        if fn.m == 'operator!=':
            # the end of an iteration is the container's *live* count (elements appended while iterating are visited), not the position
            # an end() iterator captured before the loop started
            r = sm.ret
            ok = isinstance(r, Opaque) and isinstance(r.tag, tuple) and r.tag[0] == 'cmp' and \
                ((r.tag[1] in ('!=', '<') and r.tag[2:] == (Sym('cur'), Sym('count'))) or (r.tag[1] in ('!=', '>') and r.tag[2:] == (Sym('count'), Sym('cur'))))
            run.ob('C20.c', 'IteratorT::operator!= is "position != the container\'s count"', ok, where=fn.pat, detail=repr(r), key='IteratorT::operator!= does not stop at the count')
        elif fn.m == 'operator++':
            ok = sm.fields.get('_cursor') == Sym('cur', 1) and not sm.stores and sm.fields['_container'].fields.get('_count') == Sym('count')
            run.ob('C20.c', 'IteratorT::operator++ advances the position by exactly one and changes nothing else', ok, where=fn.pat,
                   detail=repr(sm.fields.get('_cursor')), key='IteratorT::operator++ does not step by one')
        elif fn.m in ('operator*', 'operator->'):
            ok = sm.ret == Elem('_items', Sym('cur')) and sm.fields.get('_cursor') == Sym('cur') and not sm.stores
            run.ob('C20.c', 'IteratorT::%s denotes the element at the position' % fn.m, ok, where=fn.pat, detail=repr(sm.ret),
                   key='IteratorT::%s does not denote the element at the position' % fn.m)
    # fixed array: fill / clear / empty
    filler_of = {}
    for fn in F.find('StaticArrayT', 'fill'):
        ext = storage_extent(F, fn, '_items')
        sm = summary(fn, [Opaque('arg')], {}, ('_items',))
        st_ = sm.stores if isinstance(sm.stores, list) else []
        idx = sorted(i for a, i, v in st_ if isinstance(i, int))
        ok = idx == list(range(ext)) and len(st_) == ext and all(a == '_items' and v == Opaque('arg') for a, i, v in st_)
        run.ob('C20.c', 'StaticArrayT::fill(v) stores v in each of the %d elements, once' % ext, ok, where=fn.pat,
               detail=None if ok else {'stores': repr(st_[:6]), 'extent': ext}, key='StaticArrayT::fill assigns the wrong value')
    for fn in F.find('StaticArrayT', 'clear'):
        ext = storage_extent(F, fn, '_items')
        sm = summary(fn, [], {}, ('_items',))
        st_ = sm.stores if isinstance(sm.stores, list) else []
        idx = sorted(i for a, i, v in st_ if isinstance(i, int))
        vals = set(v for a, i, v in st_)
        ok = idx == list(range(ext)) and len(vals) == 1
        if ok:
            filler_of[fn.cls] = next(iter(vals))
        run.ob('C20.c', 'StaticArrayT::clear() stores one and the same filler in each of the %d elements' % ext, ok, where=fn.pat,
               detail=None if ok else {'stores': repr(st_[:6])}, key='StaticArrayT::clear does not fill with the filler')
    for fn in F.find('StaticArrayT', 'empty'):
        ext = storage_extent(F, fn, '_items')
        try:
            paths = symeval.explore(lambda a: symeval.Eval(F, {}, ['_items'], a), fn, [])
        except symeval.Refuse as ex:
            raise AnalysisBroken('StaticArrayT::empty is outside the offset-domain fragment: %s' % ex)
        bad = None
        fillers = set()
        for dec, sm in paths:
            same = set()     # elements known to equal the filler
            differs = False
            for (op, a, b), d in dec.items():
                el, fv = (a, b) if isinstance(a, Opaque) and isinstance(a.tag, tuple) and a.tag[0] == 'entry' else (b, a)
                if not (isinstance(el, Opaque) and isinstance(el.tag, tuple) and el.tag[0] == 'entry') or op not in ('==', '!='):
                    bad = bad or {'unexpected test': repr((op, a, b))}
                    continue
                fillers.add(fv)
                if (op == '!=') == d:
                    differs = True
                else:
                    same.add(el.tag[2])
            good = (sm.ret == 1 and same == set(range(ext))) or (sm.ret == 0 and differs)
            if not good and bad is None:
                bad = {'returns': repr(sm.ret), 'elements known equal to the filler': sorted(same), 'some element known different': differs}
        want = filler_of.get(fn.cls)
        if bad is None and (len(fillers) != 1 or (want is not None and fillers != {want})):
            bad = {'compares with': repr(sorted(map(repr, fillers))), 'clear() stores': repr(want)}
        run.ob('C20.c', 'StaticArrayT::empty() is true exactly when every one of the %d elements equals the filler clear() stores (%d decision paths)' % (ext, len(paths)),
               bad is None, where=fn.pat, detail=bad, key='StaticArrayT::empty compares with something other than the filler')
    # growable array
    for fn in F.find('DynamicArrayT'):
        if fn.m == 'emplace' or (fn.m == 'operator+=' and fn.params and 'DynamicArrayT' not in fn.params[0]['ty']):
            # whatever the spelling: the one store goes to slot <entry count> and carries the argument, the count ends at <entry count> + 1;
            # emplace returns the old count, += returns the array
            sm = summary(fn, [Opaque('arg')])
            ok = isinstance(sm.stores, list) and len(sm.stores) == 1 and sm.stores[0][0] == '_items' and sm.stores[0][1] == Sym('count') and mentions(sm.stores[0][2], Opaque('arg')) and \
                sm.fields.get('_count') == Sym('count', 1) and sm.ret == (Sym('count') if fn.m == 'emplace' else ('this',))
            run.ob('C20.c', 'DynamicArrayT::%s constructs the argument in slot <count>, leaves count + 1 and returns %s' % (fn.m, 'the old count' if fn.m == 'emplace' else 'the array'),
                   ok, where=fn.pat, detail=None if ok else {'stores': repr(sm.stores), 'count afterwards': repr(sm.fields.get('_count')), 'returns': repr(sm.ret)},
                   key='DynamicArrayT::%s does not append at _count' % fn.m)
        elif fn.m == 'operator+=' and fn.params:
            # += of a whole array: appends each element of the other array in its iteration order (range-for over the other array whose
            # body is the single-item +=/emplace)
            rf = [x for x in ir.walk_stmts(fn.body) if x.get('s') == 'rfor']
            ok = len(rf) == 1 and ir.strip(rf[0]['range']).get('pi') == 0
            if ok:
                calls = [x for t in ir.walk_stmts(rf[0].get('body')) for e in ir.stmt_exprs(t) for x in ir.walk(e) if x['k'] == 'call']
                vid = rf[0]['var']['id']
                ok = len(calls) == 1 and calls[0].get('m') in ('emplace', 'operator+=') and len(calls[0].get('args', [])) == 1 and \
                    any(x['k'] == 'var' and x.get('id') == vid for x in ir.walk(calls[0]['args'][0]))
            run.ob('C20.c', 'DynamicArrayT::operator+=(array) appends every element of the other array, in its order', ok, where=fn.pat,
                   key='DynamicArrayT::operator+=(array) does not append each element')
        elif fn.m == 'clear' and not fn.params:
            sm = summary(fn, [])
            run.ob('C20.c', 'DynamicArrayT::clear resets the count', sm.fields.get('_count') == 0, where=fn.pat, detail=repr(sm.fields.get('_count')),
                   key='DynamicArrayT::clear does not reset the count')
        elif fn.m == 'empty' and not fn.params:
            sm = summary(fn, [])
            r = sm.ret
            ok = isinstance(r, Opaque) and isinstance(r.tag, tuple) and r.tag[0] == 'cmp' and \
                ((r.tag[1] == '==' and set(r.tag[2:]) == {Sym('count'), 0}) or (r.tag[1:] == ('<=', Sym('count'), 0)) or (r.tag[1:] == ('<', Sym('count'), 1)))
            run.ob('C20.c', 'DynamicArrayT::empty() is "count == 0"', ok, where=fn.pat, detail=repr(r), key='DynamicArrayT::empty is not count == 0')


def refinement(run, F):
    """C20.e: per-operation refinement of the set-of-integers model, decided by bit-provenance abstract interpretation for every
    instantiated capacity and *every* index below it: set(i) makes exactly bit i one, clear(i) makes exactly bit i zero, get(i)
    returns exactly bit i, set()/clear() make every valid bit one/zero, &= ANDs bit by bit -- and every operation keeps the padding
    bits zero. With the representation invariant (C20.b) this is a simulation argument covering all operation sequences for these
    capacities."""
    from lint import bitprov
    from lint.bitprov import const_bits, W
    I = bitprov.Interp(F)
    seen = set()
    decided = set()
    for fn in F.find('BitArrayT'):
        cap, units = capacity_of(F, fn)
        is_copy = fn.kind == 'ctor' and fn.d.get('ctorkind') in ('copy', 'move') and fn.body is not None and not fn.d.get('implicit') \
            and not fn.d.get('defaulted')
        if cap is None or fn.kind == 'dtor' or (fn.kind == 'ctor' and not is_copy):
            continue
        ext = storage_extent(F, fn)

        def fresh(tag):
            return [tuple((tag, by * 8 + k) if by * 8 + k < cap else 0 for k in range(8)) + (0,) * (W - 8) for by in range(ext)]

        def bit(data, p):
            return data[p // 8][p % 8]
        key = (cap, fn.m, len(fn.params), fn.params[0]['ty'] if fn.params else '')
        if key in seen:
            continue
        seen.add(key)
        bad = None
        cases = 0
        try:
            if fn.m in ('get', 'set', 'clear') and len(fn.params) == 1:
                for i in range(cap):
                    data = fresh('s')
                    res = I.run(fn, {'_storage': data}, [const_bits(i)])
                    cases += 1
                    for p in range(ext * 8):
                        want = ('s', p) if p < cap else 0
                        if p == i and fn.m == 'set':
                            want = 1
                        if p == i and fn.m == 'clear':
                            want = 0
                        if bit(data, p) != want and bad is None:
                            bad = {'index': i, 'storage bit': p, 'holds': str(bit(data, p)), 'expected': str(want)}
                    if fn.m == 'get' and bad is None and (res[0] != ('s', i) or any(b != 0 for b in res[1:8])):
                        bad = {'index': i, 'returns': str(res[:2]), 'expected': "('s', %d)" % i}
                what = '%s(i) for every i < %d: %s' % (fn.m, cap, {'get': 'returns exactly bit i and changes nothing', 'set': 'sets exactly bit i',
                                                                   'clear': 'clears exactly bit i'}[fn.m])
            elif fn.m in ('set', 'clear') and not fn.params:
                data = fresh('s')
                I.run(fn, {'_storage': data}, [])
                cases += 1
                for p in range(ext * 8):
                    want = (1 if fn.m == 'set' else 0) if p < cap else 0
                    if bit(data, p) != want and bad is None:
                        bad = {'storage bit': p, 'holds': str(bit(data, p)), 'expected': str(want)}
                what = '%s(): every valid bit becomes %d, padding stays 0' % (fn.m, 1 if fn.m == 'set' else 0)
            elif fn.m == 'empty' and not fn.params:
                # predicate abstraction over "this group of stored bits is zero": one run per combination of the zero tests the
                # function actually performs. empty() may answer true only when every valid bit is known to be zero, and false
                # only when some valid bit group is known to be non-zero.
                valid = set(('s', p) for p in range(cap))
                paths = I.explore(fn, lambda: {'_storage': fresh('s')})
                cases += len(paths)
                for decisions, res, this_after, _assumed in paths:
                    r = None if res is None else bitprov.to_int(res)
                    zero_bits = set(b for key, nz in decisions.items() if not nz for b in key)
                    some_nonzero = any(nz and all(b in valid for b in key) for key, nz in decisions.items())
                    good = (r == 1 and valid <= zero_bits) or (r == 0 and some_nonzero)
                    if this_after['_storage'] != fresh('s'):
                        good = False
                    if not good and bad is None:
                        bad = {'returns': r, 'bits known zero': len(zero_bits & valid), 'of': cap, 'a group known non-zero': some_nonzero}
                what = 'empty(): true exactly when every valid bit is zero (%d decision paths over the unit zero tests)' % len(paths)
            elif is_copy or (fn.m == 'operator=' and fn.body is not None and not fn.d.get('implicit') and not fn.d.get('defaulted')):
                # a hand-written copy: afterwards this array is the same set as the source (bit p == source bit p, padding zero),
                # whatever it held before and however the copy is spelled (member initialiser, loop, helper, masking of the tail)
                other = fresh('o')
                if fn.kind == 'ctor':
                    inits = [i for i in fn.inits if i.get('name') == '_storage' and i.get('written')]
                    if inits:
                        raise bitprov.Refuse('copy constructor with a member initialiser for _storage')       # the shape rule C17.b reads those
                    data = [(0,) * W for _ in range(ext)]      # `_storage[UNIT_COUNT] {}`: zero-initialised before the body runs
                    nsdmi = [f for f in (F.rec_by_name.get(fn.cls) or {}).get('fields', []) if f.get('n') == '_storage' and f.get('nsdmi')]
                    if not nsdmi:
                        data = [tuple(('u', by * 8 + k) for k in range(8)) + (0,) * (W - 8) for by in range(ext)]
                else:
                    data = fresh('s')
                env_this = {'_storage': data}
                p0 = fn.params[0]
                env = {p0['id']: ['ref', ('obj', {'_storage': other}), None]}
                try:
                    I.stmt(fn.body, fn, env_this, env, 0)
                except bitprov._Ret:
                    pass
                cases += 1
                for p in range(ext * 8):
                    want = ('o', p) if p < cap else 0
                    if bit(data, p) != want and bad is None:
                        bad = {'storage bit': p, 'holds': str(bit(data, p)), 'expected': str(want)}
                what = '%s: afterwards bit p == source bit p for every p < %d, padding 0' % ('copy constructor' if fn.kind == 'ctor' else 'operator=', cap)
            elif fn.m == 'operator&=':
                # `other` is a reference parameter to another bit array: handed in as an object. One evaluation per combination of the zero
                # tests on data the function performs (none on today's code): a path that assumed some bits to be zero is compared with the
                # expected result under the same assumption
                paths = I.explore(fn, lambda: {'_storage': fresh('s')}, [{'_storage': fresh('o')}], limit=64)
                cases += len(paths)
                for dec_, res_, this_after, zero_ in paths:
                    data = this_after['_storage']
                    for p in range(ext * 8):
                        want = ('and',) + tuple(sorted([('s', p), ('o', p)], key=repr)) if p < cap else 0
                        got = bitprov.assume_zero(bit(data, p), zero_)
                        want = bitprov.assume_zero(want, zero_)
                        if got != want and bad is None:
                            bad = {'storage bit': p, 'holds': str(got), 'expected': str(want), 'bits assumed zero on this path': len(zero_)}
                what = 'operator&=: bit p becomes (this[p] AND other[p]) for every p < %d, padding stays 0' % cap
            else:
                continue
        except bitprov.Refuse as e:
            if 'out of range' in str(e):
                # an in-range bit index addresses a unit the array does not own: that is a verdict, not an unknown idiom
                run.ob('C20.e', 'BitArrayT<%d>::%s stays inside its own storage for every in-range index' % (cap, fn.m), False, where=fn.pat,
                       detail=str(e), key='BitArrayT::%s addresses storage the array does not own' % fn.m)
                decided.add((cap, fn.m, len(fn.params)))
                continue
            raise AnalysisBroken('BitArrayT<%s>::%s is outside the bit-provenance fragment: %s' % (cap, fn.m, e))
        run.ob('C20.e', 'BitArrayT<%d>::%s' % (cap, what), bad is None, where=fn.pat, detail=bad,
               key='BitArrayT::%s%s does not refine the set-of-integers model' % (fn.m if fn.kind != 'ctor' else 'copy constructor', '(i)' if fn.params and fn.m not in ('operator&=', 'operator=') and fn.kind != 'ctor' else '()'))
        run.count('bit-provenance cases', cases)
        decided.add((cap, fn.m if fn.kind != 'ctor' else 'copy constructor', len(fn.params)))
    return decided


def run(run):
    cfgs = ['PS'] if run.tier == 'quick' else ['PS', 'PSHL', 'PSHVRDT']
    jobs = [('w_shared', c, v, s) for c in cfgs for v in facts.variants(run.tier) for s in (['c++11'] if run.tier == 'quick' else ['c++11', 'c++17'])]
    # the bit arrays as instantiated inside real machines, too
    jobs += [('w_core', 'P', v, 'c++11') for v in facts.variants(run.tier)]
    # every capacity 1..255 (all bit-array rules; quick: one header variant, thorough: every variant and both standards)
    jobs += [('w_bitarrays', 'PS', v, s) for v in (facts.variants(run.tier)[:1] if run.tier == 'quick' else facts.variants(run.tier))
             for s in (['c++11'] if run.tier == 'quick' else ['c++11', 'c++17'])]
    facts.prefetch(jobs)
    for (w, c, v, s) in jobs:
        F = facts.load(w, c, v, s)
        run.require(F.unknown == 0, 'unknown AST nodes in %s' % F.label())
        E = effects.Effects(F)
        run.count('fact units')
        decided = refinement(run, F)
        run.guard('bit index rules', bit_index_rules, run, F, E, decided)
        run.guard('invariant rules', invariant_rules, run, F, E, decided)
        run.guard('extent rules', extent_rules, run, F, E, decided)
        if w != 'w_bitarrays':
            run.guard('array rules', array_rules, run, F, E)
        facts.drop(F)
        cfgmod.clear_cache()
    run.floor('C20.a', 20)
    run.floor('C20.b', 20)
    run.floor('C20.c', 15)
    run.floor('C20.d', 20)
    run.floor('C20.e', 1500)
    from gen import static_units
    run.guard('report', static_units.report, run, 'C20.f', static_units.capacity_unit('C20.f'))
    run.floor('C20.f', 1)
    run.explanation = (
        'Sibling agreement of the get/set/clear index arithmetic after normalisation, a representation-invariant argument '
        'for the padding bits of the last storage unit (each write to the storage is classified; the invariant is established '
        'by the constructor, preserved by every mutator and relied on by empty()), full-extent rules for every whole-array '
        'operation and shape rules for the array accessors and iteration, over capacities {1,7,8,9,12,16,17,255} (bit arrays), '
        '{1,2,7,8,255} (arrays) and the bit arrays of real machines; the bit-array rules additionally over every capacity 1..255 '
        '(w_bitarrays). C20.e decides, by bit-provenance abstract interpretation of every instantiated operation for every index '
        'below the capacity, that each operation refines the set-of-integers model and keeps the padding bits zero: with the '
        'representation invariant this covers every operation sequence. Fixed/growable array element values over sequences are '
        'decided only through the accessor/iteration shape rules (C20.c).')
