"""C18 -- no dynamic allocation and no undefined behaviour on any in-contract history (decided part).

C18.a  [effect + object level] every new-expression is the reserved placement form into library-owned storage, there is no
       delete-expression, no call into an allocation family; cross-check on the undefined symbols of the compiled witness
       objects (nothing is linked or run).
C18.b  alignment of payload storage and of every embedded FFSM2 record (shares C07.a).
C18.c  no read of an indeterminate value: definite initialisation of every scalar member (shares C17.a / C09.c).
C18.d  shifts whose amount is constant or locally bounded stay below the promoted width; array extents are positive; every
       reinterpret_cast targets the payload storage; G2: where a member-array subscript is bounded by a dominating comparison
       with a compile-time constant, the bound implies index < extent.
C18.e  [type] the byte storage behind every bit container has ceil(N/8) bytes for every N <= 255.
C18.f  [summary] the task pool's slot indices stay inside its array (shares C10.a/c).
C18.g  [bitprov] every bit-container operation addresses only storage the container owns (shares C20.e).
C18.j  [type] the bits save()/load() write and read for a machine of N states fit the serial buffer of that machine, for every N (shares
       the N-family obligations of C12.b).
C18.i  [type] every per-task side array of the plan data has an element for every index the task pool can hand out; the pool has the
       configured capacity (witness capacities 1, 2, 8, 254 on three states).
C18.h  [summary] the state ids the library itself feeds into single-index bit operations -- the wrappers' own compile-time ids, the
       invalid id of the root head included -- are below the capacity of the array they index.
Not decided: absence of out-of-bounds accesses for all histories (subscripts without a local guard rest on data-structure
invariants this family does not decide; they are counted in the evidence as 'no verdict').
"""
import os
import re
import subprocess

from lint import common, facts, ir, effects, records, intervals, cfg as cfgmod
from lint.common import AnalysisBroken

LEVEL = 'other'

ALLOC_SYMS = re.compile(r'^(_Znwm|_Znam|_Znwj|_Znaj|_ZdlPv.*|_ZdaPv.*|_ZnwmSt.*|_ZnamSt.*|malloc|calloc|realloc|free|aligned_alloc|posix_memalign|'
                        r'_ZNSt.*allocator.*|_ZSt.*_alloc.*)$')


def object_symbols(run, witness, cfg):
    src = os.path.join(facts.WITNESS_DIR, witness + '.cpp')
    obj = os.path.join(common.BUILD_DIR, 'obj-%s-%s-%d.o' % (witness, cfg or 'none', os.getpid()))
    cmd = ['clang++', '-std=c++11', '-O0', '-c', '-I' + facts.WITNESS_DIR] + facts.variant_flags('inc') + facts.cfg_flags(cfg) + [src, '-o', obj]
    p = subprocess.run(cmd, stdout=subprocess.PIPE, stderr=subprocess.STDOUT, universal_newlines=True)
    if p.returncode != 0:
        raise AnalysisBroken('cannot compile %s to an object: %s' % (witness, p.stdout[-300:]))
    try:
        nm = subprocess.run(['llvm-nm-14', '-u', obj], stdout=subprocess.PIPE, universal_newlines=True).stdout
    finally:
        if os.path.exists(obj):
            os.unlink(obj)
    syms = [l.split()[-1] for l in nm.splitlines() if l.strip()]
    bad = [s for s in syms if ALLOC_SYMS.match(s)]
    run.ob('C18.a', 'object of %s [%s]: none of its %d undefined symbols is an allocation / deallocation function' % (witness, cfg or 'none', len(syms)),
           not bad, detail=bad or None, key='compiled library code references an allocation function')
    run.count('object symbols inspected', len(syms))


def promoted_bits(ty):
    t = ty.replace('const ', '')
    if 'long' in t or '64' in t:
        return 64
    return 32


def shift_rules(run, F, E):
    n_unknown = 0
    for fn in F.fns:
        decls = E.decls(fn)
        for e in ir.all_exprs(fn):
            if e['k'] in ('bin', 'asg') and e['op'] in ('<<', '>>', '<<=', '>>='):
                amt = e['r']
                r = intervals.rng_of(amt, decls)
                hi = r[1] if r is not None else intervals.upper_of_min(amt, decls)
                lhs_ty = ''
                l = ir.strip(e['l'])
                lhs_ty = l.get('ty', '') if ir.is_expr(l) else ''
                bits = promoted_bits(lhs_ty)
                if hi is None:
                    n_unknown += 1
                    continue
                lo = r[0] if r is not None else 0
                ok = 0 <= lo and hi < bits
                run.ob('C18.d', 'shift amount in %s is within [0, %d): %s in [%s, %s]' % (fn.short, bits, ir.pp(ir.strip(amt))[:40], lo, hi), ok,
                       where=fn.pat, key='shift amount can reach the operand width in %s' % fn.short)
    run.count('shifts without a locally known bound (no verdict)', n_unknown)


def extent_rules(run, F):
    for rec in F.records:
        if not rec['name'].startswith('ffsm2::'):
            continue
        for f in rec['fields']:
            if f.get('extent') is not None:
                run.ob('C18.d', '%s::%s has a positive extent (%d)' % (ir.short_type(rec.get('_tkey') or rec['name']), f['n'], f['extent']),
                       f['extent'] > 0, where=rec.get('l'), key='zero-length array member %s::%s' % (ir.short_type(rec.get('_tkey') or ''), f['n']))


def subscript_rules(run, F, E):
    n_noverdict = 0
    for fn in F.fns:
        has = any(x['k'] == 'idx' and x.get('extent') is not None for x in ir.all_exprs(fn))
        if not has:
            continue
        for x, ext, r, node in intervals.guarded_subscripts(fn, E):
            if r is None or r[1] >= (1 << 40):
                n_noverdict += 1
                continue
            ok = 0 <= r[0] and r[1] < ext
            run.ob('C18.d', 'G2 %s: %s with index in [%d, %d] stays inside extent %d' % (fn.short, ir.pp(x)[:40], r[0], r[1], ext), ok,
                   where=x.get('l') or fn.pat, key='locally guarded subscript can leave the array in %s' % fn.short)
    run.count('subscripts without a local guard (no verdict)', n_noverdict)


def state_id_indices(run, F, E, rule='C18.h'):
    """the ids the library itself feeds into single-index bit operations are in range: every wrapper S_<ID, ...> that hands its own
    compile-time id to library code -- the root head's wrappers do so with the *invalid* id 255 -- is followed into that code (offset
    domain evaluation of the callee on the concrete id, bit-array operations recorded as events): a get/set/clear(i) reached that way
    must have i < CAPACITY of the array it is applied to. (Ids that come from the user -- succeed(id), a task's origin, and the
    parameterless succeed()/fail() of a head -- are the asserted precondition `index < CAPACITY` of the bit array.)"""
    from lint import symeval
    from lint.symeval import Sym, ObjRef
    seen = {}

    def cap_of(cls):
        rec = F.rec_by_name.get(cls) or {}
        c = rec.get('consts', {}).get('CAPACITY')
        if c is None:
            raise AnalysisBroken('capacity of %s unknown' % cls)
        return c

    def this_env(g):
        rec = F.rec_by_name.get(g.cls) or {}
        env = {}
        for f in rec.get('fields', []):
            ty = f.get('ty') or ''
            if 'BitArrayT<' in ty:
                env[f['n']] = ObjRef({}, ['_storage'], f['n'])
            else:
                env[f['n']] = Sym(f['n'])
        return env
    for fn in F.find('S_'):
        if fn.body is None:
            continue
        for e in ir.all_exprs(fn):
            if e['k'] != 'call' or e.get('fn') is None:
                continue
            g = F.fn(e['fn'])
            if g is None or g.tkey in ('ffsm2::detail::LoggerInterfaceT',) or g.tkey == 'ffsm2::detail::S_':
                continue
            idx = [(i, ir.strip(a)) for i, a in enumerate(e.get('args', []))]
            idx = [(i, x) for i, x in idx if x['k'] == 'c' and x.get('n') == 'STATE_ID']
            if not idx:
                continue
            v = idx[0][1].get('v')
            key = (g.id, idx[0][0], v)
            if key in seen:
                continue
            seen[key] = True
            if g.tkey == 'ffsm2::detail::BitArrayT':
                ok = len(g.params) == 1 and v < cap_of(g.cls)
                run.ob(rule, 'S_<%d>::%s applies %s(%d) to an array of %d bits' % (v, fn.m, g.m, v, cap_of(g.cls)), ok, where=e.get('l') or fn.pat,
                       key='S_::%s addresses a bit outside the array with its own state id' % fn.m)
                continue
            log = []

            def prim(h, obj, args, log=log):
                if h.tkey == 'ffsm2::detail::BitArrayT':
                    log.append((h.cls, h.m, list(args)))
                    return True
                return False
            ev = symeval.Eval(F, this_env(g), [])
            ev.primitive = prim
            args = [v if i == idx[0][0] else Sym('a%d' % i) for i in range(len(g.params))]
            try:
                ev.run(g, args)
            except symeval.Refuse as ex:
                raise AnalysisBroken('%s (called by S_::%s with its state id) is outside the offset-domain fragment: %s' % (g.short, fn.m, ex))
            bad = [(c, m, a) for (c, m, a) in log if len(a) == 1 and (not isinstance(a[0], int) or a[0] >= cap_of(c))]
            single = [x for x in log if len(x[2]) == 1]
            run.ob(rule, '%s(%d) as called by S_<%d>::%s: %d single-index bit operation(s), all inside their array' % (g.short, v, v, fn.m, len(single)),
                   not bad, where=g.pat, detail=[(c.split('::')[-1], m, a) for (c, m, a) in bad][:3] or None,
                   key='%s addresses a bit outside the array when a wrapper hands it %s' % (g.short, 'the invalid id (root head)' if v == 255 else 'its state id'))


def run(run):
    jobs = [(w, c, v) for w in ('w_core', 'w_pay', 'w_shared') for c in (facts.configs(run.tier) if w != 'w_shared' else ['PS'])
            for v in facts.variants(run.tier)]
    facts.prefetch(jobs)
    for (w, c, v) in jobs:
        F = facts.load(w, c, v)
        run.require(F.unknown == 0, 'unknown AST nodes in %s' % F.label())
        E = effects.Effects(F)
        run.count('fact units')
        run.count('functions', len(F.fns))
        run.guard('placement news', records.placement_news, run, 'C18.a', F)
        run.guard('externals', records.externals, run, 'C18.a', F)
        run.guard('payload layout', records.payload_layout, run, 'C18.b', F)
        run.guard('member alignment', records.member_alignment, run, 'C18.b', F)
        run.guard('definite init', records.definite_init, run, 'C18.c', F)
        run.guard('reinterpret casts', records.reinterpret_casts, run, 'C18.d', F)
        run.guard('shift rules', shift_rules, run, F, E)
        run.guard('extent rules', extent_rules, run, F)
        run.guard('subscript rules', subscript_rules, run, F, E)
        if w == 'w_core' and facts.cfg_has(c, 'P'):
            run.guard('state id indices', state_id_indices, run, F, E)
        facts.drop(F)
        cfgmod.clear_cache()
    for w, c in (('w_core', 'PSHL'), ('w_pay', 'P'), ('w_shared', 'PS'), ('w_core', 'PSHVRDT')):
        run.guard('object symbols', object_symbols, run, w, c)
    run.floor('C18.a', 60)
    run.floor('C18.b', 100)
    run.floor('C18.c', 100)
    run.floor('C18.d', 60)
    # the byte storage behind every bit container really has ceil(N/8) bytes for every N up to 255 (type-level, exhaustive)
    from gen import static_units
    run.guard('report', static_units.report, run, 'C18.e', static_units.capacity_unit('C18.e'))
    run.floor('C18.e', 1)
    # the task pool hands out and takes back slot indices; that they stay inside the array rests on its vacant-list discipline, which is
    # decided per operation on effect summaries (C10.a/c) -- an obligation of C18 too (a slip there ends in an out-of-bounds store)
    from rules import c10 as _c10
    from lint import effects as _eff
    for v_ in facts.variants(run.tier):
        F_ = facts.load('w_core', 'P', v_)
        run.guard('task list summaries', _c10.task_list_summaries, run, F_, _eff.Effects(F_))
        run.guard('link rules', _c10.link_rules, run, F_, _eff.Effects(F_))
        facts.drop(F_)
        # ... and the arrays indexed with those slot indices have an element for each (every plan-carrying witness machine, among them
        # capacities above and below the state count)
        F_ = facts.load('w_limit', 'P', v_)
        run.guard('capacity extents', _c10.capacity_extents, run, F_, 'C18.i')
        run.guard('link rules', _c10.link_rules, run, F_, _eff.Effects(F_))
        facts.drop(F_)
    run.relabel('C10.a', 'C18.f')
    run.relabel('C10.b', 'C18.f')
    run.relabel('C10.c', 'C18.f')
    run.floor('C18.i', 8)
    run.floor('C18.f', 4)
    # the bit containers: every operation, for every capacity 1..255 and every in-range index, addresses only storage the array owns
    # (the refinement rule of C20.e; a violation there is an out-of-bounds access)
    from rules import c20 as _c20
    for v_ in facts.variants(run.tier)[:1]:
        F_ = facts.load('w_bitarrays', 'PS', v_, 'c++11')
        run.guard('bit array refinement', _c20.refinement, run, F_)
        facts.drop(F_)
    run.relabel('C20.e', 'C18.g')
    run.floor('C18.g', 1000)
    # save()/load() stay inside the serial buffer for every state count: the bits written per machine size are at most the bits the buffer
    # type owns (the type-level N-family obligations of C12.b -- a buffer sized one bit short at some N is an out-of-bounds access there)
    from gen import nfamily as _nf
    run.guard('report', _nf.report, run, run.tier, 'C12.b')
    run.relabel('C12.b', 'C18.j')
    run.floor('C18.j', 100)
    run.floor('C18.h', 10)
    run.explanation = (
        'Allocation-freedom from the AST (every new-expression is the reserved placement form into storage/_items, no delete, '
        'externals limited to memset / placement operator new / type_index) cross-checked on the undefined symbols of the '
        'compiled witness objects; payload and member alignment from clang\'s record layout; definite initialisation of every '
        'scalar member; constant / locally bounded shift amounts; positive extents; reinterpret_cast only on the payload storage; '
        'interval reasoning on locally guarded subscripts (G2). Out-of-bounds freedom for all histories is not decided.')
