"""C14 -- state ids follow declaration order and dispatch reaches exactly that state.

C14.a  [type] for every N in the tier's set and every k < N, PeerRoot and Root: stateId<S_k>() == k, head id invalid,
       and a template walker over the library's own CS_ tree (reached from R_::Apex, tied to the instance by
       is_base_of) proves each leaf k has INITIAL_ID == PRONG_INDEX == STATE_ID == k and wraps S_k, each split
       node's halves partition its range at R_PRONG (gen/nfamily.py).
C14.b  [order] every instantiated CS_ split dispatcher branches on `prong < R_PRONG`, true -> LHalf::same,
       false -> RHalf::same, prong and control unchanged; every leaf dispatcher calls Single::deepX exactly once.
       With C14.a this is an induction on the tree: wideX(control, k) reaches exactly leaf k.
C14.c  the initial request is the constant 0
C14.d  access<T>() is a derived-to-base conversion of the apex (never a reinterpreting cast)
C14.e  library code never copy- or move-constructs a state object (callbacks run on the object access<T>() names)
C14.f  copy/move operations leave their source untouched, so the destructor of a moved-from machine exits the state it entered and
       not the one the invalid prong falls through to (shares C01.g); C14.c also carries the invalid-prong observer of C01.a
"""
from gen import nfamily
from lint.common import AnalysisBroken

LEVEL = 'proof'


def run(run):
    n = nfamily.report(run, run.tier, 'C14.a')
    run.floor('C14.a', 60)
    try:
        from rules import dispatch_rules
    except ImportError:
        dispatch_rules = None
    if dispatch_rules:
        try:
            run.guard('c14', dispatch_rules.c14, run)
        except AnalysisBroken as e:
            # the type-level family already reports the violation; the witness machines assert their own state ids and stop
            # compiling when ids are wrong, so the dispatcher-shape rules have no facts to look at
            if not any(not o['ok'] and o['rule'] == 'C14.a' for o in run.obligations):
                raise
            run.note('dispatcher-shape rules skipped: %s' % str(e)[:200])
            run.floors.pop('C14.b', None)
            run.floors.pop('C14.c', None)
            run.floors.pop('C14.d', None)
    else:
        run.note('C14.b/c/d (dispatcher shape, initial request, access<T>) not built yet')
    run.extra['checker_cmd'] = 'clang++ -std=c++11 -fsyntax-only -ferror-limit=0 <generated N-family unit> (and g++ -fmax-errors=0); ./check C14'
    run.extra['trusted_base'] = ['clang 14 and gcc 12 template instantiation and constant evaluation',
                                 'gen/nfamily.py walker templates (read: /verif/gen/nfamily.py PRELUDE)',
                                 'ffsm2-facts extractor for the dispatcher-shape rule']
    run.explanation = (
        'Type-level proof obligations (static_assert instances) over the library\'s own compile-time structure for '
        'machine sizes N (quick: 31 sizes up to 255; thorough: all of 1..255, two compilers and both header variants), '
        'PeerRoot and Root, plus the structural dispatcher rule over every instantiated CS_ member. The induction: the '
        'root covers [0,N); a split node covering [lo,hi) sends prong < R_PRONG to the half covering [lo,R_PRONG) and '
        'the rest to the half covering [R_PRONG,hi); a leaf covering [k,k+1) wraps S_k with STATE_ID k.')
