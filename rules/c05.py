"""C05 -- update/react cycle: fixed callback order, active state only, requests last.

C05.a  [order] R_::update / react: the apex phase calls, the plan step and processRequest occur exactly once each,
       unconditionally, in the prescribed order, and processRequest is the last event; C_::deepX: head before
       sub-state for pre/update/preReact/react/query, sub-state before head for postUpdate/postReact; the prong handed
       to the dispatcher is registry.active as read at the start of the phase; no phase can write the registry or reach
       a guard / enter / exit / reenter dispatcher.
C05.b  [order] CS_ dispatchers forward to exactly one half / to their state exactly once (rules/dispatch_rules.py);
       S_::deepX calls the user's X exactly once (C15 for the injections).
C05.c  [effect] along react / query the event is passed by reference at every level: every call site hands on the
       parameter object itself (no constructor, no temporary).
C05.d  [effect] query() is const, reaches no write of machine state (only the local control's origin id).
"""
from lint import facts, ir, effects, anchors, cfg as cfgmod
from rules import dispatch_rules

LEVEL = 'other'

UPDATE_SEQ = ['deepPreUpdate', 'deepUpdate', 'deepPostUpdate']
REACT_SEQ = ['deepPreReact', 'deepReact', 'deepPostReact']
HEAD_FIRST = {'deepPreUpdate', 'deepUpdate', 'deepPreReact', 'deepReact', 'deepQuery'}
SUB_FIRST = {'deepPostUpdate', 'deepPostReact'}
FORBIDDEN_IN_PHASES = {'wideEntryGuard', 'wideExitGuard', 'wideEnter', 'wideExit', 'wideReenter', 'deepEnter', 'deepExit',
                       'deepReenter', 'deepEntryGuard', 'deepExitGuard', 'deepChangeToRequested', 'processRequest',
                       'processTransitions', 'initialEnter', 'finalExit'}


def apex_calls(c, F=None):
    def sel(n):
        if n.kind != 'call':
            return False
        if F is not None and n.e.get('fn') is not None and F.fn(n.e['fn']) is not None:
            return F.fn(n.e['fn']).tkey == 'ffsm2::detail::C_'       # resolved callee: a member of the composite (the apex)
        o = n.e.get('obj')
        o = ir.strip(o) if ir.is_expr(o) else None
        return o is not None and o['k'] == 'mem' and o['f'] == '_apex'
    return anchors.ordered_events(c, sel)


def check_entry(run, F, E, fn, seq, plans):
    """the phases as the sequence of apex dispatches reached from the entry point, looking through helper members of the root classes
    (so extracting / inlining a helper does not change the verdict)"""
    c = cfgmod.cfg_of(fn)
    flat = anchors.flatten_apex_calls(F, E, fn)
    want = list(seq) + (['deepUpdatePlans'] if plans else [])
    phase_names = set(UPDATE_SEQ + REACT_SEQ + ['deepUpdatePlans'])
    phases = [x for x in flat if x[0] in phase_names]
    names = [x[0] for x in phases]
    uncond = all(x[2] for x in phases)
    ordered = all(x[4] for x in phases) and not any(x[3] for x in phases)
    # every other apex dispatch (guards, the transition itself) belongs to request processing and comes after the last phase
    last_phase = max([flat.index(x) for x in phases]) if phases else -1
    first_other = min([i for i, x in enumerate(flat) if x[0] not in phase_names] or [len(flat)])
    ok = names == want and uncond and ordered and last_phase < first_other
    run.ob('C05.a', 'R_::%s calls %s on the apex once each, unconditionally, in order, before anything else is dispatched [%s]' % (fn.m, ', '.join(want), F.cfg or 'none'),
           ok, where=fn.pat, detail=None if ok else {'got': [x[0] for x in flat], 'unconditional': uncond, 'ordered': ordered},
           key='R_::%s does not run its phases exactly once in order' % fn.m)
    # processRequest last: at every level of the call chain from the entry point down to the call of processRequest, that call is the
    # last event of its function
    try:
        chain = anchors.chain_to(F, E, fn, lambda g: g.m == 'processRequest' and g.tkey in anchors.ROOT_TKEYS)
    except anchors.AnalysisBroken:
        chain = None
    ok2 = bool(chain)
    for (f2, c2, node) in (chain or []):
        ok2 = ok2 and c2.postdominates(node, c2.entry) and not c2.in_loop(node)
        if not ok2:
            break
        for n in c2.events(('call', 'ctor', 'write', 'new')):
            if n is node:
                continue
            if not c2.dominates(n, node):
                ok2 = False
        for s2, _ in node.succ:
            x = s2
            seen = 0
            while x is not c2.exit and seen < 50:
                if x.kind not in ('join',):
                    ok2 = False
                    break
                x = x.succ[0][0] if x.succ else c2.exit
                seen += 1
    run.ob('C05.a', 'R_::%s processes requests exactly once, as its last action [%s]' % (fn.m, F.cfg or 'none'), ok2, where=fn.pat,
           key='R_::%s does not process requests last' % fn.m)
    # nothing in the phase part reaches transitions machinery
    for n in [x[1] for x in phases]:
        g = F.fn(n.e['fn']) if n.e.get('fn') is not None else None
        if g is None:
            continue
        path = E.path_to(g, lambda h: h.m in FORBIDDEN_IN_PHASES)
        run.ob('C05.a', 'phase %s cannot reach guards / enter / exit / request processing [%s]' % (n.e.get('m'), F.cfg or 'none'),
               path is None and g.m not in FORBIDDEN_IN_PHASES, where=g.pat, detail=path,
               key='phase %s reaches transition machinery' % n.e.get('m'))
        ws = [p for p in E.writes_star(g) if effects.touches(p, ('core', 'registry'))]
        run.ob('C05.a', 'phase %s cannot write the registry [%s]' % (n.e.get('m'), F.cfg or 'none'), not ws, where=g.pat,
               detail=sorted(ws)[:3] or None, key='phase %s writes the registry' % n.e.get('m'))


def check_region(run, F, E, fn):
    """C_::deepX: head / sub order and the prong argument."""
    c = cfgmod.cfg_of(fn)

    def sel(n):
        if n.kind != 'call':
            return False
        m = n.e.get('m') or ''
        cls = n.e.get('cls') or ''
        return (cls.startswith('ffsm2::detail::S_<') and m == fn.m) or (cls.startswith('ffsm2::detail::CS_<') and m == 'wide' + fn.m[4:])
    calls, uncond, ordered = anchors.ordered_events(c, sel)
    kinds = ['head' if (n.e.get('cls') or '').startswith('ffsm2::detail::S_<') else 'sub' for n in calls]
    want = ['head', 'sub'] if fn.m in HEAD_FIRST else ['sub', 'head']
    ok = kinds == want and uncond and ordered
    run.ob('C05.a', 'C_::%s delivers to %s then %s, once each [%s]' % (fn.m, want[0], want[1], F.cfg or 'none'), ok, where=fn.pat,
           detail=None if ok else {'got': kinds, 'unconditional': uncond}, key='C_::%s has the wrong head/sub-state order' % fn.m)
    # head state has the invalid id
    for n in calls:
        if (n.e.get('cls') or '').startswith('ffsm2::detail::S_<'):
            rec = F.rec_by_name.get(n.e['cls']) or {}
            run.ob('C05.a', 'C_::%s head callee is the root state (STATE_ID invalid) [%s]' % (fn.m, F.cfg or 'none'),
                   rec.get('consts', {}).get('STATE_ID') == 255, where=fn.pat, key='C_::%s head callee is not the root state' % fn.m)
    # prong argument == registry.active read before any delivery
    subs = [n for n in calls if (n.e.get('cls') or '').startswith('ffsm2::detail::CS_<')]
    okp = False
    detail = None
    if len(subs) == 1:
        a = ir.strip(subs[0].e['args'][-1])
        paths = E.lv(a, fn) if a['k'] != 'var' or a.get('vk') != 'local' else None
        src = None
        if a['k'] == 'var':
            d = E.decls(fn).get(a['id'])
            if d is not None and d.get('init') is not None:
                src = E.lv(d['init'], fn)
                # the read (declaration) dominates the first delivery
                decl_nodes = c.events(('decl',), lambda n: n.e.get('id') == a['id'])
                okp = src == {('core', 'registry', 'active')} and len(decl_nodes) == 1 and all(c.dominates(decl_nodes[0], n) for n in calls) \
                    and not d.get('ref')
        detail = {'arg': ir.pp(a), 'source': sorted(src) if src else None}
    run.ob('C05.a', 'C_::%s dispatches with registry.active as read at the start of the phase [%s]' % (fn.m, F.cfg or 'none'), okp,
           where=fn.pat, detail=None if okp else detail, key='C_::%s does not dispatch on the active prong' % fn.m)


def event_param(fn):
    for p in fn.params:
        if p['n'] == 'event':
            return p
    return None


def check_event_by_ref(run, F, E):
    chains = 0
    user_kinds = {'preReact', 'react', 'postReact', 'query'}
    for fn in F.fns:
        if fn.tkey not in ('ffsm2::detail::R_', 'ffsm2::detail::C_', 'ffsm2::detail::CS_', 'ffsm2::detail::S_', 'ffsm2::detail::A_'):
            continue
        ep = event_param(fn)
        if ep is None:
            continue
        if not any(k in fn.m for k in ('React', 'react', 'Query', 'query')):
            continue
        ok = ep.get('ref') == '&'
        bad = None if ok else 'takes the event by value'
        handed_on = 0
        for e, g in E.call_sites(fn):
            pos = None
            if g is not None:
                for i, p in enumerate(g.params):
                    if p['n'] == 'event':
                        pos = i
                        if p.get('ref') != '&':
                            ok = False
                            bad = '%s takes the event by value' % g.short
            else:
                callee = e
                if e.get('pm'):
                    callee = E.resolve_pm(fn, e) or {}
                if effects.is_user(callee) and callee.get('m') in user_kinds:
                    pos = 0
            if pos is None:
                continue
            args = e.get('args', [])
            if pos >= len(args):
                ok = False
                bad = 'event argument missing in ' + ir.pp(e)
                continue
            a = args[pos]
            handed_on += 1
            if not (ir.is_expr(a) and a['k'] == 'var' and a.get('id') == ep['id']):
                ok = False
                bad = 'passes %s instead of its own event parameter' % ir.pp(a)
        chains += 1
        run.ob('C05.c', '%s hands on the caller\'s event object by reference (%d call site(s))' % (fn.short, handed_on), ok,
               where=fn.pat, detail=bad, key='%s copies or rebuilds the event' % fn.short)
    return chains


def check_query(run, F, E):
    for fn in F.find('R_', 'query'):
        run.ob('C05.d', 'R_::query is a const member function [%s]' % (F.cfg or 'none'), fn.is_const(), where=fn.pat,
               key='R_::query is not const')
        ws = E.writes_with_locals(fn)
        # the only write a query may reach: the origin id of the *local* control object it hands down (whatever that local is called)
        extra = sorted(p for p in ws if not (str(p[0]).startswith('local:') and p[-1] == '_originId' and len(p) == 2) and p[0] != 'temp')
        run.ob('C05.d', 'R_::query reaches no write of machine state [%s]' % (F.cfg or 'none'), not extra, where=fn.pat,
               detail=extra[:4] or None, key='R_::query can modify the machine')
        c = cfgmod.cfg_of(fn)
        calls, uncond, ordered = apex_calls(c, F)
        ok = [n.e.get('m') for n in calls] == ['deepQuery'] and uncond
        run.ob('C05.a', 'R_::query delivers deepQuery once [%s]' % (F.cfg or 'none'), ok, where=fn.pat, key='R_::query does not deliver query exactly once')
        for n in calls:
            g = F.fn(n.e['fn'])
            path = E.path_to(g, lambda h: h.m in FORBIDDEN_IN_PHASES or h.m in ('changeTo', 'changeWith'))
            run.ob('C05.d', 'query cannot reach transition machinery or a request writer [%s]' % (F.cfg or 'none'), path is None,
                   where=g.pat, detail=path, key='query reaches transition machinery')


def user_once(run, F, E):
    """S_::deepX (non-empty state) reaches the user's X; exactly-once is C15's flattened sequence."""
    for fn in F.find('S_'):
        if fn.m not in anchors.WRAPPERS or anchors.is_empty_state_spec(fn):
            continue
        user_m = anchors.WRAPPERS[fn.m][0]
        c = cfgmod.cfg_of(fn)

        def sel(n):
            if n.kind != 'call':
                return False
            g, u = anchors.call_target(F, E, fn, n)
            if u is not None:
                return u.get('m') == user_m
            if g is not None and g.tkey in ('ffsm2::detail::A_', 'ffsm2::detail::B_') and g.m == user_m:
                return True
            return False
        calls, uncond, ordered = anchors.ordered_events(c, sel)
        ok = len(calls) == 1 and uncond and ordered
        run.ob('C05.b', 'S_::%s calls the state\'s own %s exactly once' % (fn.m, user_m), ok, where=fn.pat,
               detail=None if ok else {'calls': len(calls), 'unconditional': uncond},
               key='S_::%s does not call %s exactly once' % (fn.m, user_m))


def run(run):
    cfgs = facts.configs(run.tier)
    jobs = [('w_core', c, v) for c in cfgs for v in facts.variants(run.tier)]
    facts.prefetch(jobs)
    for (w, c, v) in jobs:
        F = facts.load(w, c, v)
        run.require(F.unknown == 0, 'unknown AST nodes in %s' % F.label())
        E = effects.Effects(F)
        run.count('fact units')
        run.count('functions', len(F.fns))
        plans = facts.cfg_has(c, 'P')
        for fn in F.find('R_', 'update'):
            run.guard('check entry', check_entry, run, F, E, fn, UPDATE_SEQ, plans)
        for fn in F.find('R_', 'react'):
            run.guard('check entry', check_entry, run, F, E, fn, REACT_SEQ, plans)
        for fn in F.find('C_'):
            if fn.m in HEAD_FIRST or fn.m in SUB_FIRST:
                run.guard('check region', check_region, run, F, E, fn)
        run.guard('check event by ref', check_event_by_ref, run, F, E)
        run.guard('check query', check_query, run, F, E)
        run.guard('user once', user_once, run, F, E)
        ns, nl = dispatch_rules.check_dispatchers(run, F, E, 'C05.b')
        facts.drop(F)
        cfgmod.clear_cache()
    # "exactly once" also for states built from injected bases, with and without callbacks of their own (witness w_inj): each phase
    # callback and query() of each injection and of the state itself is invoked once -- what the state's own step `Head::X` resolves to
    # when the state does not define X must be a library no-op, not an injection's X a second time (flattening shared with C15.a)
    from rules import c15 as _c15
    for v in facts.variants(run.tier):
        F = facts.load('w_inj', '', v)
        E = effects.Effects(F)
        run.guard('injection multiplicities', _c15.one, run, F, E, {'query', 'preUpdate', 'update', 'postUpdate', 'preReact', 'react', 'postReact'}, 'C05.e', True)
        facts.drop(F)
        cfgmod.clear_cache()
    run.floor('C05.e', 40)
    from gen import static_units
    run.guard('must not compile', static_units.must_not_compile, run, 'C05.d')
    run.floor('C05.a', 100)
    run.floor('C05.b', 500)
    run.floor('C05.c', 50)
    run.floor('C05.d', 8)
    run.explanation = (
        'Order rules (dominance, post-dominance, exactly-once) on the control-flow graphs of R_::update/react/query, of '
        'every C_::deep<phase> and of every instantiated CS_ / S_ member, plus call-graph and effect-set rules: the phases '
        'cannot reach guards, enter/exit or request processing and cannot write the registry; the event object is handed '
        'on by reference at every level; query() is const and reaches no write of machine state. All machine sizes are '
        'covered because dispatch is a binary search whose correctness for every size is C14.')
