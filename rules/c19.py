"""C19 -- feature switches are orthogonal; the shipped single header equals the sources.

C19.a  compile matrix: every combination of the eight documented switches (plus FFSM2_ENABLE_ALL)
       type-checks (-fsyntax-only, the repository's own warning flags, -Werror) against witness w_core,
       which instantiates both activation modes, payload / payload-free machines and all four context kinds.
C19.b  differential facts: for each feature X, the library functions reachable with X on equal those with X
       off after erasing events that touch only X-owned state (rules/c19_diff.py).
C19.d  [summary] the feature code stays inside feature-owned storage: the state ids the library itself feeds into the plan
       feature's bit arrays -- the invalid id of the root head included -- are below their capacity (shares C18.h).
C19.e  [type] the configuration setters mean the same with and without the plan feature (every order of the setters).
C19.c  amalgamation: include/ffsm2/machine.hpp is byte-identical to what tools/join.py produces from
       development/ (translation validation: generator run in a scratch copy + independent re-implementation).
"""
import itertools
import os
import re
import shutil
import subprocess
import concurrent.futures as cf

from lint import common, facts
from lint.common import AnalysisBroken

LEVEL = 'other'

REPO_FLAGS = ['-Werror', '-Wall', '-Wextra', '-Wpedantic', '-Wshadow', '-Wold-style-cast']
SWITCHES = ['FFSM2_ENABLE_PLANS', 'FFSM2_ENABLE_SERIALIZATION', 'FFSM2_ENABLE_TRANSITION_HISTORY',
            'FFSM2_ENABLE_LOG_INTERFACE', 'FFSM2_ENABLE_VERBOSE_DEBUG_LOG', 'FFSM2_ENABLE_STRUCTURE_REPORT',
            'FFSM2_ENABLE_DEBUG_STATE_TYPE', 'FFSM2_DISABLE_TYPEINDEX']
SHORT = {s: s.replace('FFSM2_ENABLE_', '').replace('FFSM2_', '') for s in SWITCHES}


def combos():
    out = []
    for bits in itertools.product((0, 1), repeat=len(SWITCHES)):
        out.append(tuple(s for s, b in zip(SWITCHES, bits) if b))
    # FFSM2_ENABLE_ALL, alone and with the switches it does not imply
    for extra in ((), ('FFSM2_ENABLE_LOG_INTERFACE',), ('FFSM2_ENABLE_VERBOSE_DEBUG_LOG',), ('FFSM2_DISABLE_TYPEINDEX',),
                  ('FFSM2_ENABLE_VERBOSE_DEBUG_LOG', 'FFSM2_DISABLE_TYPEINDEX')):
        out.append(('FFSM2_ENABLE_ALL',) + extra)
    return out


def combo_name(c):
    return '+'.join(SHORT.get(s, s.replace('FFSM2_ENABLE_', '')) for s in c) or 'none'


def compile_one(job):
    cxx, std, variant, combo, witness = job
    cmd = [cxx, '-std=' + std, '-fsyntax-only', '-I' + facts.WITNESS_DIR] + (['-fno-crash-diagnostics'] if cxx.startswith('clang') else []) + facts.variant_flags(variant) + \
        ['-D' + s + '=' for s in combo] + REPO_FLAGS + [os.path.join(facts.WITNESS_DIR, witness + '.cpp')]
    if cxx.startswith('clang'):
        cmd.insert(1, '-ferror-limit=3')
    else:
        cmd.insert(1, '-fmax-errors=3')
    p = subprocess.run(cmd, stdout=subprocess.PIPE, stderr=subprocess.STDOUT, universal_newlines=True)
    for attempt in range(2):
        if p.returncode in (0, 1) and 'frontend command failed' not in p.stdout and 'internal compiler error' not in p.stdout:
            break
        p = subprocess.run(cmd, stdout=subprocess.PIPE, stderr=subprocess.STDOUT, universal_newlines=True)
    if p.returncode not in (0, 1) or 'frontend command failed' in p.stdout or 'internal compiler error' in p.stdout:
        return job, -99, p.stdout
    return job, p.returncode, p.stdout


ERR_RE = re.compile(r'^(?P<file>[^\s:]+):(?P<line>\d+):(?P<col>\d+): (?:fatal )?error: (?P<msg>.*)$', re.M)


def first_error(text):
    m = ERR_RE.search(text)
    if not m:
        return None, text.strip().splitlines()[-1] if text.strip() else 'compiler failed without a diagnostic'
    return '%s:%s:%s' % (m.group('file'), m.group('line'), m.group('col')), m.group('msg')


def stable_msg(msg):
    # drop instantiation-specific type spellings so the finding key is stable
    msg = re.sub(r"'[^']{40,}'", "'...'", msg)
    return msg[:160]


def matrix(run, tier):
    if tier == 'thorough':
        compilers = ['clang++', 'g++']
        stds = ['c++11', 'c++14', 'c++17', 'c++20']
        variants = ['inc', 'dev']
    else:
        compilers = ['clang++']
        stds = ['c++11']
        variants = ['inc']
    witness = 'w_core'
    jobs = [(cxx, std, v, c, witness) for cxx in compilers for std in stds for v in variants for c in combos()]
    # quick tier: additionally the extreme standard and the other compiler / variant on the all-on and all-off corners
    if tier != 'thorough':
        corners = [(), tuple(SWITCHES), ('FFSM2_ENABLE_ALL',),
                   ('FFSM2_ENABLE_PLANS', 'FFSM2_ENABLE_SERIALIZATION', 'FFSM2_ENABLE_TRANSITION_HISTORY',
                    'FFSM2_ENABLE_LOG_INTERFACE')]
        for cxx in ('clang++', 'g++'):
            for std in ('c++11', 'c++14', 'c++17', 'c++20'):
                for v in ('inc', 'dev'):
                    for c in corners:
                        j = (cxx, std, v, c, witness)
                        if j not in jobs:
                            jobs.append(j)
    results = []
    with cf.ThreadPoolExecutor(max_workers=16) as ex:
        for r in ex.map(compile_one, jobs):
            results.append(r)
    n_fail = 0
    in_witness_only = 0
    for (cxx, std, v, combo, w), rc, out in results:
        inst = '%s -std=%s %s [%s]' % (cxx, std, v, combo_name(combo))
        if rc == -99:
            raise AnalysisBroken('the compiler crashed (%s): %s' % (inst, out.strip().splitlines()[-1][:200] if out.strip() else ''))
        if rc == 0:
            run.ob('C19.a', inst, True)
        else:
            n_fail += 1
            loc, msg = first_error(out)
            if loc and '/witness/' in loc and 'ffsm2' not in out.split(loc)[0][-2000:]:
                in_witness_only += 1
            run.ob('C19.a', inst, False, where=loc, detail=msg[:300], key='does not compile: ' + stable_msg(msg))
    run.count('compiles', len(results))
    run.count('switch_combinations', len(combos()))
    if n_fail == len(results):
        raise AnalysisBroken('witness w_core compiles in no configuration at all; first: %s' % (results[0][2][:500],))
    run.floor('C19.a', 256)
    run.extra['exhaustive'] = True
    run.extra['matrix'] = {'compilers': compilers, 'standards': stds, 'variants': variants,
                           'combinations': len(combos()), 'witness': witness}


# ---------------------------------------------------------------------------------------------
COMMENT_RE = re.compile(r"(?:\s*\/\/ COMMON)|(?:\s*\/\/ SPECIFIC)|(?:\s*\/\/\/\/)|(?:\s*\/\/--)|(?:\s*\/\/ -)")


def independent_merge(dev_root):
    """Second implementation of the amalgamation (same specification as tools/join.py, written independently):
    depth-first inlining of `#include "..."` lines, each file once, comment-marker lines dropped,
    runs of blank lines collapsed."""
    out = []
    included = set()
    state = {'blank': True}

    def emit(line):
        if line == '\n':
            if state['blank']:
                return
            state['blank'] = True
        else:
            state['blank'] = False
        out.append(line)

    def visit(path):
        folder = os.path.dirname(path)
        with open(path, 'r', encoding='utf-8') as f:
            lines = f.readlines()
        if not state['blank']:
            out.append('\n')
            state['blank'] = True
        for line in lines:
            pos = line.find('#include "')
            if pos != -1:
                name = line[pos + 10:-2]
                if name not in included:
                    included.add(os.path.basename(name))
                    visit(os.path.join(folder, name))
                continue
            if line.startswith('﻿'):
                line = line[1:]
            if COMMENT_RE.match(line):
                continue
            emit(line)

    visit(os.path.join(dev_root, 'ffsm2', 'machine_dev.hpp'))
    return '﻿' + ''.join(out)


def amalgamation(run):
    repo = common.REPO
    shipped_path = os.path.join(repo, 'include', 'ffsm2', 'machine.hpp')
    run.require(os.path.exists(shipped_path), 'include/ffsm2/machine.hpp missing')
    run.require(os.path.exists(os.path.join(repo, 'tools', 'join.py')), 'tools/join.py missing')
    with open(shipped_path, 'rb') as f:
        shipped = f.read()
    scratch = os.path.join(common.BUILD_DIR, 'join-%d' % os.getpid())
    shutil.rmtree(scratch, ignore_errors=True)
    try:
        os.makedirs(os.path.join(scratch, 'include', 'ffsm2'))
        shutil.copytree(os.path.join(repo, 'tools'), os.path.join(scratch, 'tools'))
        shutil.copytree(os.path.join(repo, 'development'), os.path.join(scratch, 'development'))
        p = subprocess.run(['python3', '-W', 'ignore', 'join.py'], cwd=os.path.join(scratch, 'tools'),
                           stdout=subprocess.PIPE, stderr=subprocess.STDOUT, universal_newlines=True)
        gen_path = os.path.join(scratch, 'include', 'ffsm2', 'machine.hpp')
        if p.returncode != 0 or not os.path.exists(gen_path):
            raise AnalysisBroken('tools/join.py failed: ' + p.stdout[-500:])
        with open(gen_path, 'rb') as f:
            generated = f.read()
        second = independent_merge(os.path.join(scratch, 'development')).encode('utf-8')
    finally:
        shutil.rmtree(scratch, ignore_errors=True)

    def first_diff(a, b):
        la, lb = a.split(b'\n'), b.split(b'\n')
        for i in range(min(len(la), len(lb))):
            if la[i] != lb[i]:
                return i + 1, la[i][:120].decode('utf-8', 'replace'), lb[i][:120].decode('utf-8', 'replace')
        if len(la) != len(lb):
            return min(len(la), len(lb)) + 1, '<end>' if len(la) < len(lb) else la[len(lb)][:120].decode('utf-8', 'replace'), \
                '<end>' if len(lb) < len(la) else lb[len(la)][:120].decode('utf-8', 'replace')
        return None

    d = first_diff(shipped, generated)
    run.ob('C19.c', 'include/ffsm2/machine.hpp == tools/join.py(development/)', d is None,
           where='include/ffsm2/machine.hpp:%d' % d[0] if d else 'include/ffsm2/machine.hpp',
           detail=None if d is None else {'line': d[0], 'shipped': d[1], 'regenerated': d[2]},
           key='shipped header differs from the regenerated amalgamation')
    d2 = first_diff(generated, second)
    run.ob('C19.c', 'tools/join.py output == independent re-implementation of the merge', d2 is None,
           where='tools/join.py',
           detail=None if d2 is None else {'line': d2[0], 'join.py': d2[1], 'independent': d2[2]},
           key='join.py disagrees with the independent merge')
    run.count('amalgamation_bytes', len(shipped))
    run.extra['programs'] = 2
    run.extra['disagreements_checked'] = 2


def run(run):
    run.guard('matrix', matrix, run, run.tier)
    run.guard('amalgamation', amalgamation, run)
    try:
        from rules import c19_diff
    except ImportError:
        c19_diff = None
    if c19_diff:
        try:
            run.guard('run', c19_diff.run, run)
            # the two logging switches: the same differential C16.d runs (function bodies equal after erasing exactly the logging
            # statements), as a clause of C19 as well
            from rules import c16 as _c16
            for a_, b_ in (('PSH', 'PSHL'), ('PH', 'PHV'), ('P', 'PL')):
                for v_ in facts.variants(run.tier):
                    run.guard('differential', _c16.differential, run, a_, b_, v_)
            run.relabel('C16.d', 'C19.b')
            # "touches only feature-owned state" presupposes that the feature's code stays inside its own storage: the ids the
            # library itself feeds into the plan feature's bit arrays (the root head's invalid id among them) are in range (C18.h)
            from rules import c18 as _c18
            from lint import effects as _eff
            for c_ in (['P'] if run.tier == 'quick' else ['P', 'PSHL', 'PSHVRDT']):
                for v_ in facts.variants(run.tier):
                    F_ = facts.load('w_core', c_, v_)
                    run.guard('state id indices', _c18.state_id_indices, run, F_, _eff.Effects(F_), 'C19.d')
                    facts.drop(F_)
            run.floor('C19.d', 5)
            # the configuration setters mean the same whichever features are compiled in (every order of the setters, with and without
            # the plan feature: a setter spelled once per feature mode can put its value into the wrong slot in one of them)
            from gen import static_units as _su
            run.guard('configuration setters', _su.report, run, 'C19.e', _su.config_unit('C19.e'))
            run.guard('configuration setters', _su.report, run, 'C19.e', _su.config_unit('C19.e', plans=False))
            run.floor('C19.e', 2)
        except AnalysisBroken as e:
            # a configuration that does not compile is already reported by the matrix (C19.a); the differential needs facts of that
            # configuration and cannot say more. Without a matrix failure a broken differential is a broken analysis.
            if not any(not o['ok'] and o['rule'] == 'C19.a' for o in run.obligations):
                raise
            run.note('differential (C19.b) skipped: %s' % str(e)[:200])
    run.explanation = (
        'Compile matrix over all 2^8 switch combinations (+FFSM2_ENABLE_ALL variants) with the repository\'s own '
        'warning flags as errors; quick: clang++ -std=c++11 on the shipped header plus both compilers x four standards '
        'x both variants on the corner combinations; thorough: 2 compilers x 4 standards x 2 header variants x all '
        'combinations. Byte-level translation validation of the amalgamation with the repository generator run in a '
        'scratch copy and an independent re-implementation. Differential fact comparison per feature (C19.b). '
        'Nothing is executed except the generator script, which is not the code under analysis.')
