"""C19.b -- enabling a feature a program does not use never changes that program's behaviour (differential facts).

For each feature X the user-provided library functions instantiated both with X off and with X on (same witness, same
machines) must have the same body after erasing the statements that only touch X-owned state:
  TRANSITION_HISTORY  writes of core.previousTransition
  PLANS               writes of core.planData / the region status bookkeeping / calls of functions that exist only with
                      PLANS (the plan step itself is X-owned code; that it can only request a transition when a plan is
                      non-empty is C08/C09)
  LOG_INTERFACE / VERBOSE   the `if (logger) record(...)` statements (C16.c/d)
  SERIALIZATION, STRUCTURE_REPORT, DEBUG_STATE_TYPE, DISABLE_TYPEINDEX   add members / functions only
X-owned statements must themselves write only X-owned state (checked through the effect sets while erasing).
"""
import re

from lint import facts, ir, effects, cfg as cfgmod
from lint.common import AnalysisBroken
from rules import c16

TAG = re.compile(r"G_<\d+, ")
MACH = re.compile(r'\b(m_[a-z]+_[a-z]_[a-z])::')


def machine_of(fn):
    m = MACH.search(fn.cls or fn.name or '')
    return m.group(1) if m else ''


def fkey(fn):
    kind = fn.m if fn.kind not in ('ctor', 'dtor') else fn.kind + ':' + str(fn.d.get('ctorkind'))
    ft = ','.join(fn.d.get('ftargs') or [])
    ft = re.sub(r"'\\x[0-9a-f]+'", '#', TAG.sub('G_<#, ', ft))
    ft = re.sub(r'ArgsT<.*', 'ArgsT', ft)
    # state id / prong of the owning class distinguishes the S_/CS_ instantiations of one machine
    ids = ''
    if fn.tkey in ('ffsm2::detail::S_', 'ffsm2::detail::CS_', 'ffsm2::detail::A_'):
        t = fn.targs or []
        ids = '|'.join([t[0]] + [x for x in t[2:] if x.startswith(('m_', "'", 'ffsm2::detail::TL_', 'ffsm2::detail::A_'))])[:200] if t else ''
        ids = re.sub(r'ArgsT<[^|]*', 'ArgsT', ids)
    return (fn.pat, machine_of(fn), kind, len(fn.params) if fn.kind != 'ctor' else -1, ft, ids)


class Eraser:
    def __init__(self, F, E, feature, other_keys):
        self.F = F
        self.E = E
        self.feature = feature
        self.other = other_keys        # set of (pat, m) present when the feature is off
        self.bad = []

    def owned_path(self, p):
        if self.feature == 'H':
            return p[:2] == ('core', 'previousTransition')
        if self.feature == 'P':
            return p[:2] == ('core', 'planData') or p[0] == 'plan' or p[-1:] == ('_taskStatus',) and False
        return False

    def x_only_fn(self, g):
        return (g.pat, g.m) not in self.other

    def stmt_owned(self, fn, s):
        """expression statement / declaration that only touches feature-owned state"""
        if s.get('s') == 'expr':
            e = s['e']
        elif s.get('s') == 'decl' and len(s['vars']) == 1 and s['vars'][0].get('init') is not None:
            v = s['vars'][0]
            ty = v.get('ty', '')
            if self.feature == 'P' and any(t in ty for t in ('PayloadPlanT<', 'PlanT<', 'CPlanT<', 'BitArrayT<')):
                return True
            if self.feature == 'P' and v['n'] == 'planExists':
                return True
            return False
        else:
            return False
        x = ir.strip(e)
        writes = set()
        calls = []
        for y in ir.walk(x):
            if y['k'] == 'asg':
                writes |= self.E.lv(y['l'], fn)
            if y['k'] == 'call':
                g = self.F.fn(y['fn']) if y.get('fn') is not None else None
                calls.append((y, g))
                if g is not None:
                    for p in self.E.summary(g)['writes']:
                        writes |= self.E.reroot(p, y, fn)
                elif (y.get('op') == '=' or y.get('m') == 'operator=') and ir.is_expr(y.get('obj')):
                    writes |= {p + ('*',) for p in self.E.lv(y['obj'], fn)}
        if not writes and not calls:
            return False
        top_x_only = x['k'] == 'call' and x.get('fn') is not None and self.F.fn(x['fn']) is not None and self.x_only_fn(self.F.fn(x['fn']))
        reaches_user = any(g is not None and self.E.summary(g)['user'] for _, g in calls) or any(effects.is_user(y) for y, g in calls if g is None)
        mentions_x = any(g is not None and self.x_only_fn(g) for _, g in calls) or \
            any(y['k'] == 'mem' and y['f'] in ('planData', 'previousTransition') for y in ir.walk(x))
        all_owned = bool(writes) and all(self.owned_path(p) for p in writes) and not reaches_user and mentions_x
        if top_x_only and self.feature == 'P':
            # X-only code: must not write feature-neutral state, except the plan step's request (C08/C09 gate it)
            g = self.F.fn(x['fn'])
            foreign = [p for p in writes if not self.owned_path(p) and p[0] == 'core' and p[:2] != ('core', 'request')]
            if foreign and g.m != 'deepUpdatePlans':
                self.bad.append((fn.short, ir.pp(x)[:80], sorted(foreign)[:3]))
            return True
        if all_owned:
            return True
        return False

    def rewrite(self, fn, s):
        """PLANS: peel the status bookkeeping around a delivery:  `const TaskStatus h = CALL;` / `status |= CALL;` -> `CALL;`"""
        if self.feature != 'P':
            return None
        if s.get('s') == 'decl' and len(s['vars']) == 1 and 'TaskStatus' in s['vars'][0].get('ty', '') and s['vars'][0].get('init') is not None:
            return {'s': 'expr', 'e': self.peel(fn, s['vars'][0]['init'])}
        if s.get('s') == 'expr':
            p = self.peel(fn, s['e'])
            if p is not s['e']:
                return {'s': 'expr', 'e': p}
        return None

    def peel(self, fn, e):
        x = ir.strip(e)
        if x['k'] == 'ctor' and 'TaskStatus' in (x.get('cls') or '') and len(x.get('args', [])) == 1:
            return self.peel(fn, x['args'][0])
        if x['k'] == 'call' and x.get('m') in ('operator|=', 'operator|') and len(x.get('args', [])) == 2:
            l = self.E.lv(x['args'][0], fn)
            if all(self.owned_path(p) for p in l):
                return self.peel(fn, x['args'][1])
        return e if x is ir.strip(e) and x is e else x


def body_text(F, E, fn, er):
    def walk(s, indent=0):
        if s is None:
            return ''
        lg = c16.logging_if(E, fn, s)
        if lg is not None and lg[0]:
            return ''
        if er.stmt_owned(fn, s):
            return ''
        rw = er.rewrite(fn, s)
        if rw is not None:
            s = rw
            if s.get('s') == 'expr':
                x = ir.strip(s['e'])
                if x['k'] == 'var':
                    return ''
        if s.get('s') == 'expr' and ir.strip(s['e']).get('k') == 'c':
            return ''       # ((void)0) assertions
        if s.get('s') == 'expr' and ir.strip(s['e']).get('k') == 'cast' and ir.strip(ir.strip(s['e'])['e']).get('k') == 'c':
            return ''
        if s.get('s') == 'block':
            inner = [walk(c, indent + 1) for c in s['b']]
            inner = [t for t in inner if t.strip()]
            return '{ ' + ' '.join(inner) + ' }'
        if s.get('s') == 'if':
            t = walk(s['t'], indent + 1)
            e = walk(s.get('e'), indent + 1) if s.get('e') else ''
            cv = ''
            if s.get('cv'):
                cv = '%s = %s; ' % (s['cv']['n'], ir.pp(s['cv'].get('init')))
            return 'if (%s%s) %s%s' % (cv, ir.pp(s['c']), t or ';', (' else ' + e) if e.strip() else '')
        if s.get('s') in ('for', 'rfor', 'while', 'do'):
            return ir.pp_stmt(dict(s, body=None), None).strip() + ' ' + walk(s.get('body'), indent + 1)
        return ir.pp_stmt(s).strip()
    txt = walk(fn.body) if fn.body is not None else ''
    inits = []
    for i in fn.inits:
        if i.get('name') in ('logger', 'TYPE', 'previousTransition', 'planData'):
            continue
        inits.append('%s:%s' % (ir.short_type(i.get('name') or '').split('<')[0], ir.pp(i.get('e'))))
    t = ' '.join(inits) + ' ' + txt
    t = re.sub(r',\s*(?:move\()?(?:other\.)?logger_?\)?(?=[,}\)])', '', t)
    t = TAG.sub('G_<#, ', t)
    t = re.sub(r'cstyle_cast<void>\(0\);?', '', t)
    t = re.sub(r'\s+', ' ', t)
    t = re.sub(r'\{ \}', '{}', t)
    return t.strip()


FEATURE_NAMES = {'P': 'PLANS', 'S': 'SERIALIZATION', 'H': 'TRANSITION_HISTORY', 'R': 'STRUCTURE_REPORT', 'D': 'DEBUG_STATE_TYPE', 'T': 'DISABLE_TYPEINDEX'}


def diff_feature(run, base, feature, variant):
    with_x = ''.join(c for c in facts.FEATURE_ORDER if c in base + feature)
    A = facts.load('w_core', base, variant)
    B = facts.load('w_core', with_x, variant)
    run.require(A.unknown == 0 and B.unknown == 0, 'unknown AST nodes')
    EA, EB = effects.Effects(A), effects.Effects(B)
    keys_a = set((f.pat, f.m) for f in A.fns)
    keys_b = set((f.pat, f.m) for f in B.fns)
    era = Eraser(A, EA, feature, keys_a)
    erb = Eraser(B, EB, feature, keys_a)

    def index(F):
        d = {}
        for fn in F.fns:
            if fn.d.get('implicit'):
                continue
            d.setdefault(fkey(fn), []).append(fn)
        return d
    ia, ib = index(A), index(B)
    same = diff = 0
    for key, fb in ib.items():
        fa = ia.get(key)
        if fa is None:
            continue
        ta = sorted(set(body_text(A, EA, f, era) for f in fa))
        tb = sorted(set(body_text(B, EB, f, erb) for f in fb))
        if ta == tb:
            same += 1
        else:
            diff += 1
            run.ob('C19.b', '%s is unchanged by %s [%s -> %s]' % (fb[0].short, FEATURE_NAMES[feature], base or 'none', with_x), False,
                   where=fb[0].pat, detail={'off': ta[0][:500], 'on': tb[0][:500]},
                   key='%s changes when %s is enabled' % (fb[0].short, FEATURE_NAMES[feature]))
    for (who, what, foreign) in erb.bad:
        run.ob('C19.b', '%s-owned statement in %s writes only %s-owned state' % (FEATURE_NAMES[feature], who, FEATURE_NAMES[feature]), False,
               detail={'statement': what, 'writes': [list(p) for p in foreign]}, key='%s-owned code in %s writes feature-neutral state' % (FEATURE_NAMES[feature], who))
    run.ob('C19.b', '%d function groups are identical modulo %s-owned statements [%s -> %s, %s]' % (same, FEATURE_NAMES[feature], base or 'none', with_x, variant),
           diff == 0 and same > 150, key='library code differs beyond %s-owned statements' % FEATURE_NAMES[feature])
    run.count('function groups compared', same + diff)
    facts.drop(A)
    facts.drop(B)
    cfgmod.clear_cache()


def run(run):
    if run.tier == 'thorough':
        pairs = [(b, f) for f in 'PSHRDT' for b in ('', 'L', 'P', 'PSHL'.replace(f, ''))]
    else:
        # ('P', 'H'): the plan step exists on both sides and only the history is toggled -- code of one feature that is conditional on
        # *another* feature's switch shows up in exactly such a pair
        pairs = [('', 'H'), ('', 'S'), ('', 'P'), ('SH', 'P'), ('P', 'H'), ('P', 'S'), ('', 'R'), ('', 'D'), ('', 'T')]
    for base, f in pairs:
        if f in base:
            continue
        for v in facts.variants(run.tier):
            diff_feature(run, base, f, v)
    run.floor('C19.b', len(pairs))
