"""C02 -- transition outcome: last surviving request wins, applied only when processed.

C02.a  [effect] the four request writers write only core.request (whole object) and cannot reach a dispatcher, the
       registry or request processing; `_locked` has no writer, so the assignment is unconditional.
C02.b  [effect] registry.requested is written from a request only by applyRequest, which is called only from the two
       substitution loops and the replay entry points.
C02.c  [order] immediateChangeTo/With = request writer, then processRequest, nothing else (update/react: C05.a).
C02.d  [flow] the state entered/re-entered is the destination of the last transition that survived its guards; the
       accepted transition is a whole copy of the pending one of the same round, taken only on the not-cancelled edge; if
       nothing survived no lifecycle callback runs and the active state is unchanged.
C02.e  [flow] registry.requested is invalid at every return.
C02.f  [cmp] in the substitution loops a request is dropped without consulting guards only if it is identical to the
       accepted transition (origin, destination, method, payload presence, payload bytes).
C02.g  [effect] only the four request writers and request processing write the request slot.
C02.j  [cmp] the guard wrappers report a cancellation made by any callback they run, injected guards included (shares C03.e)
C02.i  [path] once the substitution loop is left nothing on the way to the return writes the request slot: a request left over by the
       limit is carried to the next processing point (shared as C04.d).
C02.h  [loop] processing continues while a request is outstanding up to the *configured* substitution limit and stops no earlier
       (shares C04.a: the loop bound is the constant of the configuration type the machine was instantiated with, and equals the
       limit the witness machine was declared with).
"""
import itertools

from lint import facts, ir, effects, anchors, cmpdomain, cfg as cfgmod
from lint.cmpdomain import Obj, Evaluator
from lint.common import AnalysisBroken
from rules import flow_rules
from rules.c01 import tk_short, who_may_call

LEVEL = 'other'

WRITERS = [('R_', 'changeTo'), ('RP_', 'changeWith'), ('FullControlBaseT', 'changeTo'), ('FullControlT', 'changeWith')]
FORBIDDEN = {'processRequest', 'processTransitions', 'applyRequest', 'deepChangeToRequested', 'deepEnter', 'deepExit', 'wideEnter',
             'wideExit', 'wideReenter', 'cancelledByGuards', 'cancelledByEntryGuards', 'initialEnter', 'finalExit'}


def request_writers(run, F, E):
    for tk, m in WRITERS:
        for fn in F.find(tk, m):
            if not fn.params or fn.params[0]['n'] != 'stateId_':
                continue
            ws = E.writes_star(fn)
            bad = sorted(p for p in ws if not effects.touches(p, ('core', 'request')))
            run.ob('C02.a', '%s::%s writes only core.request' % (tk, m), not bad and bool(ws), where=fn.pat, detail=bad[:4] or None,
                   key='%s::%s writes something other than the request slot' % (tk, m))
            path = E.path_to(fn, lambda g: g.m in FORBIDDEN)
            run.ob('C02.a', '%s::%s cannot reach request processing or a dispatcher' % (tk, m), path is None, where=fn.pat, detail=path,
                   key='%s::%s applies the request immediately' % (tk, m))
            # the request assignment is a whole-object assignment executed on every path where _locked is false (a public wrapper that
            # only forwards its parameters to a non-public implementation is looked through)
            fn = anchors.through_forwarders(F, fn)
            c = cfgmod.cfg_of(fn)
            asg = c.events(('call',), lambda n: (n.e.get('op') == '=' or n.e.get('m') == 'operator=') and ir.is_expr(n.e.get('obj')) and
                           E.lv(n.e['obj'], fn) == {('core', 'request')})
            ok = len(asg) == 1
            if ok:
                # a *whole-object* assignment: the assignment operator invoked is the one of the request's own (most derived) type,
                # not of a base sub-object -- otherwise members of the outstanding request (payload flag, payload bytes) survive
                cls = asg[0].e.get('cls') or ''
                whole = cls.startswith('ffsm2::detail::TransitionT<')      # TransitionBase::operator= would copy the base sub-object only
                if not whole:
                    ok = False
            if ok:
                deps = c.control_deps(asg[0])
                for b in deps:
                    txt = ir.pp(ir.strip(b.e)) if b.e else ''
                    if '_locked' not in txt:
                        ok = False
            run.ob('C02.a', '%s::%s replaces the whole request, conditional on nothing but the lock' % (tk, m), ok, where=fn.pat,
                   key='%s::%s does not always overwrite the outstanding request' % (tk, m))
    # _locked has no writer outside the (never constructed) Lock helper
    lock_writers = []
    for fn in F.fns:
        for p in E.summary(fn)['writes'] | E.summary(fn).get('local_writes', set()):
            if p[-1] == '_locked' and fn.tkey != 'ffsm2::detail::FullControlBaseT::Lock' and fn.kind != 'ctor':
                lock_writers.append(fn.short)
    lock_ctors = [fn.short for fn in F.fns for e in ir.all_exprs(fn) if e['k'] == 'ctor' and '::Lock' in (e.get('cls') or '')]
    run.ob('C02.a', 'the control lock is never taken (no Lock is constructed, no writer of _locked)', not lock_writers and not lock_ctors,
           detail=(lock_writers + lock_ctors)[:4] or None, key='something locks the control against requests')


REQUEST_SLOT_WRITERS = {('FullControlBaseT', 'changeTo'), ('FullControlT', 'changeWith'), ('RP_', 'changeWith'), ('R_', 'changeTo'),
                        ('R_', 'finalExit'), ('R_', 'initialEnter'), ('R_', 'load'), ('R_', 'processTransitions')}


def request_slot_writers(run, F, E, rule='C02.g'):
    """who may write the request slot: the four request writers (which replace it) and the places that consume / reset it (processing,
    activation, deactivation, load). Nothing else -- in particular no other member of a control object handed to user code -- may
    clear or alter an outstanding request (it would be lost without ever reaching processing). A helper of the root classes / of
    namespace detail reached only from those functions is accepted."""
    allowed = set(REQUEST_SLOT_WRITERS)
    for root_name in ('processRequest', 'initialEnter'):
        for root in F.find('R_', root_name):
            for g, _ in anchors.substitution_loops(F, E, root):
                allowed.add(tk_short(g))
    # what a function writes itself or through callees that are not themselves expected writers (a helper of another class -- say a
    # member of the core that clears the slot -- is looked through, so that its callers are the ones judged)
    memo = {}

    def own_writes(fn, depth=0):
        if fn.id in memo:
            return memo[fn.id]
        memo[fn.id] = set()
        out = set()
        for e in ir.all_exprs(fn):
            if e['k'] == 'asg':
                out |= E.lv(e['l'], fn)
        for e, g in E.call_sites(fn):
            if e['k'] == 'call' and ir.is_expr(e.get('obj')) and (e.get('op') == '=' or e.get('m') in ('operator=', 'clear')):
                out |= E.lv(e['obj'], fn)
            if g is not None and g.body is not None and depth < 6 and tk_short(g) not in allowed and g.tkey == 'ffsm2::detail::CoreT' and g.kind != 'ctor':
                for p in own_writes(g, depth + 1):
                    out |= E.reroot(p, e, fn)
        memo[fn.id] = out
        return out
    for fn in F.fns:
        if fn.tkey == 'ffsm2::detail::CoreT':
            continue          # members of the core are judged through their callers (above)
        direct = own_writes(fn)
        if not any(p[:2] == ('core', 'request') for p in direct):
            continue
        if fn.kind == 'ctor' and fn.tkey == 'ffsm2::detail::CoreT':
            continue
        ok = tk_short(fn) in allowed
        if not ok and (anchors.is_internal_helper(F, fn) or (fn.cls is None and (fn.qn or '').startswith('ffsm2::detail::'))):
            ok = not anchors.reached_only_from(F, E, fn, allowed) and bool(E.callers().get(fn.id))
        run.ob(rule, '%s is an expected writer of the request slot' % fn.short, ok, where=fn.pat, key='%s writes the request slot' % fn.short)


def node_may_writes(F, E, fn, n):
    """paths a CFG node may write: its own assignment / increment, or -- for a call / construction -- the callee's write summary
    translated to the caller's roots"""
    out = set()
    e = n.e
    if not ir.is_expr(e):
        return out
    if n.kind == 'write':
        tgt = e['l'] if e['k'] == 'asg' else e.get('e')
        if ir.is_expr(tgt):
            out |= E.lv(tgt, fn)
    if n.kind in ('call', 'ctor') and e.get('fn') is not None:
        g = F.fn(e['fn'])
        if g is not None:
            for p in E.writes_star(g):
                out |= E.reroot(p, e, fn)
    return out


def leftover_request_survives(run, F, E, rule='C02.i'):
    """a request that is still outstanding when processing stops (the substitution limit was reached) is carried to the next
    processing point: once the substitution loop is left, nothing on the way to the return writes the request slot -- neither in the
    function that owns the loop nor in the functions it was called through"""
    for root_name in ('processRequest', 'initialEnter'):
        for root in F.find('R_', root_name):
            owners = anchors.substitution_loops(F, E, root)
            if len(owners) != 1:
                raise AnalysisBroken('R_::%s: expected one substitution loop, found %d' % (root_name, len(owners)))
            owner = owners[0][0]
            chain = []
            if owner.id != root.id:
                chain = anchors.chain_to(F, E, root, lambda g: g.id == owner.id)
                if chain is None:
                    raise AnalysisBroken('R_::%s does not reach %s' % (root_name, owner.short))
            oc = cfgmod.cfg_of(owner)
            in_loop_calls = [x for x in anchors.guard_round_sites(F, E, owner, oc) if oc.in_loop(x)]
            if not in_loop_calls:
                raise AnalysisBroken('%s has no guard round inside a loop' % owner.short)
            chain = list(chain) + [(owner, oc, in_loop_calls[0])]
            bad = []
            for level, (fn, c, n) in enumerate(chain):
                heads = c.in_loop(n) if level == len(chain) - 1 else []
                inside = set()
                for h in heads:
                    inside |= c.loop_body(h)
                reach = c.reachable()
                start = [x for x in c.nodes if x.id in inside and x.id in reach] if heads else [n]
                seen = set(inside) | ({n.id} if not heads else set())
                work = [s_ for x in start for (s_, _) in x.succ if s_.id not in seen]
                after = []
                while work:
                    x = work.pop()
                    if x.id in seen:
                        continue
                    seen.add(x.id)
                    after.append(x)
                    work.extend(s_ for (s_, _) in x.succ)
                for x in after:
                    ws = [p for p in node_may_writes(F, E, fn, x) if effects.touches(p, ('core', 'request'))]
                    if ws:
                        bad.append('%s: %s' % (fn.short, ir.pp(x.e)[:70]))
            run.ob(rule, 'R_::%s: after the substitution loop nothing writes the request slot (%d level(s) of calls looked through)' % (root_name, len(chain)),
                   not bad, where=root.pat, detail=bad[:3] or None,
                   key='a request left over when R_::%s stops at the substitution limit is overwritten or dropped' % root_name)


def requested_writers(run, F, E):
    table = {('R_', 'applyRequest'): {('R_', 'processTransitions'), ('R_', 'initialEnter'), ('R_', 'replayTransition'), ('RV_', 'replayEnter')}}
    who_may_call(run, F, E, 'C02.b', table)
    allowed = {('R_', 'applyRequest'), ('C_', 'deepEnter'), ('C_', 'deepChangeToRequested'), ('C_', 'deepLoadRequested'),
               ('Registry', 'clear'), ('Registry', 'clearRequests'), ('R_', 'processTransitions'), ('R_', 'initialEnter'),
               ('R_', 'replayTransition'), ('RV_', 'replayEnter')}
    for root_name in ('processRequest', 'initialEnter'):
        for root in F.find('R_', root_name):
            for g, _ in anchors.substitution_loops(F, E, root):
                allowed.add(tk_short(g))      # the function that owns the substitution loop restores `requested` on a veto
    for fn in F.fns:
        direct = set()
        for e in ir.all_exprs(fn):
            if e['k'] == 'asg':
                direct |= E.lv(e['l'], fn)
        if ('core', 'registry', 'requested') in direct or (fn.tkey == 'ffsm2::detail::Registry' and ('this', 'requested') in direct):
            ok = tk_short(fn) in allowed
            why = 'is an expected writer of registry.requested'
            if not ok and fn.tkey == 'ffsm2::detail::Registry' and (fn.kind == 'ctor' or fn.m == 'operator=') and \
                    all(p in (('this', 'active'), ('this', 'requested')) for p in direct):
                ok = True        # the registry's own constructors / assignment initialise or copy a whole registry (C17.b / C01.g govern copies)
                why = 'initialises / copies a whole registry object'
            if not ok and (anchors.is_internal_helper(F, fn) or (fn.cls is None and (fn.qn or '').startswith('ffsm2::detail::'))):
                # a non-public helper (or a free function of namespace detail): fine when everything that can call it (transitively, through other helpers) is an expected writer
                offenders = anchors.reached_only_from(F, E, fn, allowed)
                ok = not offenders and bool(E.callers().get(fn.id))
                why = 'is a non-public helper reached only from the expected writers of registry.requested'
            run.ob('C02.b', '%s %s' % (fn.short, why), ok, where=fn.pat, key='%s writes registry.requested' % fn.short)


def immediate(run, F, E):
    for tk, m, w in (('R_', 'immediateChangeTo', 'changeTo'), ('RP_', 'immediateChangeWith', 'changeWith')):
        for fn in F.find(tk, m):
            if not fn.params or fn.params[0]['n'] != 'stateId_':
                continue
            fn = anchors.through_forwarders(F, fn)      # a public wrapper that only forwards to a non-public implementation
            c = cfgmod.cfg_of(fn)
            calls, uncond, ordered = anchors.ordered_events(c, lambda n: n.kind == 'call')
            names = [n.e.get('m') for n in calls]
            ok = names == [w, 'processRequest'] and uncond and ordered and not c.events(('write', 'new'))
            run.ob('C02.c', '%s::%s = %s then processRequest, nothing else' % (tk, m, w), ok, where=fn.pat, detail=None if ok else names,
                   key='%s::%s is not request + processing' % (tk, m))


def payload_comparison(run, F, rule='C02.f'):
    """the equality of two requests compares *all* payload bytes: a memcmp over the storage must span the whole storage, a hand-written
    byte loop must be a counted loop 0..extent whose counter cannot wrap below the extent. Returns evaluator models for the
    hand-written comparison helpers that were found complete (the comparison-domain evaluator has one opaque value per byte array)."""
    from lint import loops
    models = {}
    for rec in F.recs('TransitionT'):
        fields = {f['n']: f for f in rec.get('fields', [])}
        st_f = fields.get('storage')
        if st_f is None or not st_f.get('extent'):
            continue
        ext = st_f['extent']
        for fn in F.fns:
            if fn.cls != rec['name'] or fn.body is None:
                continue
            # (1) memcmp over the storage
            for e in ir.all_exprs(fn):
                if e['k'] == 'call' and e.get('m') in ('memcmp', '__builtin_memcmp') and len(e.get('args', [])) == 3 and 'storage' in ir.pp(e['args'][0]):
                    n = ir.const_val(e['args'][2])
                    run.ob(rule, 'TransitionT (%d payload bytes): %s compares all %d bytes' % (ext, fn.m, ext), n == ext, where=e.get('l') or fn.pat,
                           detail={'bytes compared': n, 'payload bytes': ext}, key='the request comparison does not cover the whole payload')
            # (2) a byte loop over the storage
            lps = [s_ for s_ in ir.walk_stmts(fn.body) if s_.get('s') in ('for', 'while') and
                   any(x['k'] == 'idx' and 'storage' in ir.pp(x['b']) for t in ir.walk_stmts(s_.get('body')) for e2 in ir.stmt_exprs(t) for x in ir.walk(e2))]
            if not lps or fn.kind in ('ctor', 'dtor') or fn.m in ('operator=',):
                continue
            if len(lps) != 1:
                raise AnalysisBroken('%s: %d loops over the payload storage' % (fn.short, len(lps)))
            B = loops.bounded(fn, lps[0])
            if B is None:
                raise AnalysisBroken('%s: the loop over the payload storage is not a counted loop' % fn.short)
            ty = B['var'].get('ty', '')
            cmax = 255 if 'char' in ty else 65535 if 'short' in ty else 2 ** 32 - 1
            full = B['start'] == 0 and B['per_iteration'] == 1 and not B['problems'] and cmax >= ext and \
                ((B['bound_op'] == '<' and B['bound_val'] == ext) or (B['bound_op'] == '<=' and B['bound_val'] == ext - 1) or (B['bound_op'] == '!=' and B['bound_val'] == ext))
            run.ob(rule, 'TransitionT (%d payload bytes): the byte loop of %s runs over all %d bytes' % (ext, fn.m, ext), full, where=fn.pat,
                   detail={'bound': (B['bound_op'], B['bound_val']), 'counter type': ty, 'payload bytes': ext}, key='the request comparison does not cover the whole payload')
            if full:
                rets = [s_ for s_ in ir.walk_stmts(fn.body) if s_.get('s') == 'ret']
                last = fn.body['b'][-1] if fn.body.get('s') == 'block' and fn.body.get('b') else None
                k_last = ir.const_val(last['e']) if last is not None and last.get('s') == 'ret' and last.get('e') is not None else None
                if len(rets) == 2 and k_last in (0, 1) and len(fn.params) == 1:
                    # `all bytes equal` is returned after the loop (k_last), the opposite from inside it
                    models[fn.id] = (lambda kl: (lambda ev, this, args: (kl if ev.raw(this['storage']) == ev.raw(args[0]['storage']) else 1 - kl)))(k_last)
    return models


def drop_condition(run, F):
    """In the substitution loops a request may be dropped without being shown to any guard only if it is identical to the
    transition accepted so far (origin, destination, method, payload presence, payload bytes). Decided by evaluating, on the
    comparison domain of (accepted, outstanding), the loop's own branch conditions that control whether a guard round happens --
    located through the CFG (the branches the guard call is control-dependent on), not through names or polarity."""
    E = effects.Effects(F)
    models = payload_comparison(run, F)
    sites = []
    for root_name in ('processRequest', 'initialEnter'):
        for root in F.find('R_', root_name):
            for g, st in anchors.substitution_loops(F, E, root):
                sites.append((root_name, g, st))
    seen_sites = set()
    for name, fn, loop_stmt in sites:
            if (fn.id, id(loop_stmt)) in seen_sites:
                continue
            seen_sites.add((fn.id, id(loop_stmt)))
            c = cfgmod.cfg_of(fn)

            gnodes = [n for n in anchors.guard_round_sites(F, E, fn, c) if c.in_loop(n)]
            if len(gnodes) != 1:
                raise AnalysisBroken('%s: %d guard-round call sites in the substitution loop' % (fn.short, len(gnodes)))
            gnode = gnodes[0]
            # the controlling decisions inside the loop body (the loop's own condition excluded), outermost first
            ctrl = [b_ for b_ in c.control_deps_closure(gnode) if b_.e is not None and c.in_loop(b_)]
            ctrl = [b_ for b_ in ctrl if not c._is_loop_condition(b_)]
            ctrl.sort(key=lambda b_: sum(1 for o in ctrl if c.dominates(o, b_)))
            if not ctrl:
                raise AnalysisBroken('%s: the guard round is not conditional on anything in the loop body' % fn.short)
            edges = []
            for b_ in ctrl:
                lab = None
                for s2, l2 in b_.succ:
                    if l2 in ('T', 'F') and (s2 is gnode or c.dominates(s2, gnode)):
                        lab = l2
                if lab is None:
                    raise AnalysisBroken('%s: cannot tell which edge of `%s` leads to the guard round' % (fn.short, ir.pp(b_.e)[:60]))
                edges.append((b_, lab == 'T'))
            # the accepted-so-far transition: a Transition-typed variable handed to the guard round that is not (a copy of) the request
            cur_var = None
            for a in gnode.e.get('args', []):
                x = ir.strip(a)
                if x['k'] == 'var' and 'Transition' in (x.get('ty') or ''):
                    src = [ws for ws in ir.all_exprs(fn) if ws['k'] == 'call' and (ws.get('op') == '=' or ws.get('m') == 'operator=') and ir.is_expr(ws.get('obj'))
                           and ir.strip(ws['obj']).get('id') == x['id'] and ws.get('args') and E.lv(ws['args'][0], fn) == {('core', 'request')}]
                    d = E.decls(fn).get(x['id'])
                    from_req = bool(src) or (d is not None and d.get('init') is not None and E.lv(d['init'], fn) == {('core', 'request')})
                    if not from_req and cur_var is None:
                        cur_var = x
            if cur_var is None:
                raise AnalysisBroken('%s: the accepted transition handed to the guard round is not recognisable' % fn.short)
            cur_id = cur_var['id']
            ty = cur_var['ty']
            has_payload = 'TransitionT<void>' not in ty
            origins, dests, methods = [255, 3], [0, 7, 255], [0, 2]
            psets = [0, 1] if has_payload else [0]
            stores = [0, 5] if has_payload else [0]
            bad = None
            cells = 0
            for co, cd, cm, cp, cs, ro, rd, rp, rs in itertools.product(origins, dests, methods, psets, stores, origins, dests[:2] + [254], psets, stores):
                if not cp and cs:
                    continue
                if not rp and rs:
                    continue
                cur = Obj(origin=co, destination=cd, method=cm)
                req = Obj(origin=ro, destination=rd, method=0)
                if has_payload:
                    cur['payloadSet'], cur['storage'] = cp, cs
                    req['payloadSet'], req['storage'] = rp, rs
                this = Obj(_core=Obj(request=req, registry=Obj(requested=255, active=0)))
                ev = Evaluator(F)
                ev.models = models
                env = {cur_id: cur}
                # named temporaries / cached references declared in the function (`auto& request = _core.request`)
                for t in ir.walk_stmts(fn.body):
                    if t.get('s') == 'decl':
                        for v in t['vars']:
                            if v.get('id') not in env and v.get('init') is not None and 'unknown_decl' not in v:
                                try:
                                    env[v['id']] = ev.ev(v['init'], fn, this, env, 0)
                                except cmpdomain.NotPure:
                                    pass
                try:
                    applied = True
                    for b_, want in edges:
                        if ev.truth(ev.ev(b_.e, fn, this, env, 0)) != want:
                            applied = False
                            break
                except cmpdomain.NotPure as e:
                    raise AnalysisBroken('%s: the drop predicate is not a pure comparison: %s' % (fn.short, e))
                # statements that lie on every path from the last controlling decision to the guard round (the request applied by
                # statements written out in the loop instead of inside a helper the condition calls)
                requested_known = True
                if applied:
                    last, want = edges[-1]
                    succ = [s2 for s2, l2 in last.succ if l2 == ('T' if want else 'F')]
                    between = [n_ for n_ in c.nodes if succ and n_ is not gnode and (n_ is succ[0] or c.dominates(succ[0], n_)) and c.dominates(n_, gnode)
                               and n_.kind in ('write', 'call')]
                    between.sort(key=lambda n_: sum(1 for o in between if c.dominates(o, n_)))
                    skipped = False
                    for n_ in between:
                        try:
                            ev.ev(n_.e, fn, this, env, 0)
                        except cmpdomain.NotPure:
                            skipped = True               # something this evaluator does not model (a whole-object copy, a clear())
                    if skipped and this['_core']['registry']['requested'] == 255:
                        requested_known = False          # never written by what could be modelled: decided by the interpreted program (C02.d)
                cells += 1
                identical = co == ro and cd == rd and cm == 0 and cp == rp and (not cp or cs == rs)
                if not applied and not identical and bad is None:
                    bad = {'accepted': dict(cur), 'outstanding request': dict(req), 'dropped unseen by guards': True}
                if applied and requested_known and this['_core']['registry']['requested'] != rd and bad is None:
                    bad = {'accepted': dict(cur), 'outstanding request': dict(req), 'registry.requested after applying': this['_core']['registry']['requested']}
            run.ob('C02.f', 'the substitution loop of R_::%s (in %s) drops an outstanding request unseen by guards only if it is identical to the accepted '
                   'transition; otherwise it becomes the requested destination (%d cells, %s)' % (name, fn.short, cells, 'payload' if has_payload else 'void'),
                   bad is None, where=fn.pat, detail=bad, key='the substitution loop reached from R_::%s can drop a request that differs from the accepted transition' % name)


def run(run):
    run.guard('flow obligations', flow_rules.flow_obligations, run, {'C02.d', 'C02.e', 'C03.c'})
    for c in facts.configs(run.tier):
        for v in facts.variants(run.tier):
            F = facts.load('w_core', c, v)
            E = effects.Effects(F)
            run.count('fact units')
            run.guard('request writers', request_writers, run, F, E)
            run.guard('request slot writers', request_slot_writers, run, F, E)
            run.guard('leftover request survives', leftover_request_survives, run, F, E)
            # "not cancelled by a guard" is what the guard wrappers report: a cancellation by any of the callbacks a wrapper runs (injected
            # guards included) is reported as a new cancellation (shares the C03.e evaluation of the wrappers)
            from rules import c03 as _c03
            run.guard('wrappers', _c03.wrappers, run, F, E)
            run.relabel('C03.e', 'C02.j')
            run.guard('requested writers', requested_writers, run, F, E)
            run.guard('immediate', immediate, run, F, E)
            run.guard('drop condition', drop_condition, run, F)
            facts.drop(F)
            cfgmod.clear_cache()
    # "the most recent surviving request wins" holds up to the round in which processing stops: that round is the configured
    # substitution limit and nothing smaller (a machine that stops earlier leaves a request unprocessed that the user's limit allows)
    from rules import c04 as _c04
    for c in ['', 'P'] if run.tier == 'quick' else ['', 'P', 'PSHL']:
        for v in facts.variants(run.tier):
            F = facts.load('w_limit', c, v)
            E = effects.Effects(F)
            run.count('fact units')
            run.guard('substitution loops', _c04.substitution_loops, run, F, E, F.label())
            facts.drop(F)
            cfgmod.clear_cache()
    # the request comparison on every payload type of witness w_pay (sizes 1 .. 300 bytes: beyond the range of an 8-bit byte counter)
    for v in facts.variants(run.tier):
        F = facts.load('w_pay', '', v)
        run.guard('payload comparison', payload_comparison, run, F)
        facts.drop(F)
    run.relabel('C04.a', 'C02.h')
    run.floor('C02.h', 30)
    run.floor('C02.i', 8)
    run.floor('C02.j', 20)
    run.floor('C02.a', 60)
    run.floor('C02.g', 30)
    run.floor('C02.b', 40)
    run.floor('C02.c', 8)
    run.floor('C02.d', 100)
    run.floor('C02.e', 200)
    run.floor('C02.f', 8)
    run.explanation = (
        'Effect-set rules on the four request writers and on the writers of registry.requested, order rules on the immediate '
        'forms, a must-equality dataflow through processRequest / initialEnter (interpreted with guards as unknown booleans and '
        'callbacks as havoc of the request slot) that relates the state finally entered to the accepted transition shown to '
        'enter()/reenter(), and a comparison-domain evaluation of the de-duplication test. Observation O1 (DESIGN 4 C02.f): a '
        'payload-carrying re-request of the just-accepted destination is de-duplicated unseen; not armed.')
