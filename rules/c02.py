"""C02 -- transition outcome: last surviving request wins, applied only when processed.

C02.a  [effect] the four request writers write only core.request (whole object) and cannot reach a dispatcher, the
       registry or request processing; `_locked` has no writer, so the assignment is unconditional.
C02.b  [effect] registry.requested is written from a request only by applyRequest, which is called only from the two
       substitution loops and the replay entry points.
C02.c  [order] immediateChangeTo/With = request writer, then processRequest, nothing else (update/react: C05.a).
C02.d  [flow] the state entered/re-entered is the destination of the last transition that survived its guards; the
       accepted transition is a whole copy of the pending one of the same round, taken only on the not-cancelled edge; if
       nothing survived no lifecycle callback runs and the active state is unchanged.
C02.e  [flow] registry.requested is invalid at every return.
C02.f  [cmp] in the substitution loops a request is dropped without consulting guards only if it is identical to the
       accepted transition (origin, destination, method, payload presence, payload bytes).
"""
import itertools

from lint import facts, ir, effects, anchors, cmpdomain, cfg as cfgmod
from lint.cmpdomain import Obj, Evaluator
from lint.common import AnalysisBroken
from rules import flow_rules
from rules.c01 import tk_short, who_may_call

LEVEL = 'other'

WRITERS = [('R_', 'changeTo'), ('RP_', 'changeWith'), ('FullControlBaseT', 'changeTo'), ('FullControlT', 'changeWith')]
FORBIDDEN = {'processRequest', 'processTransitions', 'applyRequest', 'deepChangeToRequested', 'deepEnter', 'deepExit', 'wideEnter',
             'wideExit', 'wideReenter', 'cancelledByGuards', 'cancelledByEntryGuards', 'initialEnter', 'finalExit'}


def request_writers(run, F, E):
    for tk, m in WRITERS:
        for fn in F.find(tk, m):
            if not fn.params or fn.params[0]['n'] != 'stateId_':
                continue
            ws = E.writes_star(fn)
            bad = sorted(p for p in ws if not effects.touches(p, ('core', 'request')))
            run.ob('C02.a', '%s::%s writes only core.request' % (tk, m), not bad and bool(ws), where=fn.pat, detail=bad[:4] or None,
                   key='%s::%s writes something other than the request slot' % (tk, m))
            path = E.path_to(fn, lambda g: g.m in FORBIDDEN)
            run.ob('C02.a', '%s::%s cannot reach request processing or a dispatcher' % (tk, m), path is None, where=fn.pat, detail=path,
                   key='%s::%s applies the request immediately' % (tk, m))
            # the request assignment is a whole-object assignment executed on every path where _locked is false
            c = cfgmod.cfg_of(fn)
            asg = c.events(('call',), lambda n: (n.e.get('op') == '=' or n.e.get('m') == 'operator=') and ir.is_expr(n.e.get('obj')) and
                           E.lv(n.e['obj'], fn) == {('core', 'request')})
            ok = len(asg) == 1
            if ok:
                deps = c.control_deps(asg[0])
                for b in deps:
                    txt = ir.pp(ir.strip(b.e)) if b.e else ''
                    if '_locked' not in txt:
                        ok = False
            run.ob('C02.a', '%s::%s replaces the whole request, conditional on nothing but the lock' % (tk, m), ok, where=fn.pat,
                   key='%s::%s does not always overwrite the outstanding request' % (tk, m))
    # _locked has no writer outside the (never constructed) Lock helper
    lock_writers = []
    for fn in F.fns:
        for p in E.summary(fn)['writes'] | E.summary(fn).get('local_writes', set()):
            if p[-1] == '_locked' and fn.tkey != 'ffsm2::detail::FullControlBaseT::Lock' and fn.kind != 'ctor':
                lock_writers.append(fn.short)
    lock_ctors = [fn.short for fn in F.fns for e in ir.all_exprs(fn) if e['k'] == 'ctor' and '::Lock' in (e.get('cls') or '')]
    run.ob('C02.a', 'the control lock is never taken (no Lock is constructed, no writer of _locked)', not lock_writers and not lock_ctors,
           detail=(lock_writers + lock_ctors)[:4] or None, key='something locks the control against requests')


def requested_writers(run, F, E):
    table = {('R_', 'applyRequest'): {('R_', 'processTransitions'), ('R_', 'initialEnter'), ('R_', 'replayTransition'), ('RV_', 'replayEnter')}}
    who_may_call(run, F, E, 'C02.b', table)
    allowed = {('R_', 'applyRequest'), ('C_', 'deepEnter'), ('C_', 'deepChangeToRequested'), ('C_', 'deepLoadRequested'),
               ('Registry', 'clear'), ('Registry', 'clearRequests'), ('R_', 'processTransitions'), ('R_', 'initialEnter')}
    for root_name in ('processRequest', 'initialEnter'):
        for root in F.find('R_', root_name):
            for g, _ in anchors.substitution_loops(F, E, root):
                allowed.add(tk_short(g))      # the function that owns the substitution loop restores `requested` on a veto
    for fn in F.fns:
        direct = set()
        for e in ir.all_exprs(fn):
            if e['k'] == 'asg':
                direct |= E.lv(e['l'], fn)
        if ('core', 'registry', 'requested') in direct or (fn.tkey == 'ffsm2::detail::Registry' and ('this', 'requested') in direct):
            ok = tk_short(fn) in allowed
            why = 'is an expected writer of registry.requested'
            if not ok and anchors.is_internal_helper(F, fn):
                # a non-public helper: fine when everything that can call it (transitively, through other helpers) is an expected writer
                offenders = anchors.reached_only_from(F, E, fn, allowed)
                ok = not offenders and bool(E.callers().get(fn.id))
                why = 'is a non-public helper reached only from the expected writers of registry.requested'
            run.ob('C02.b', '%s %s' % (fn.short, why), ok, where=fn.pat, key='%s writes registry.requested' % fn.short)
    # in the loops the request handed to applyRequest is the outstanding one
    for root_name in ('processRequest', 'initialEnter'):
        for root in F.find('R_', root_name):
            for fn, st in anchors.substitution_loops(F, E, root):
                for t in ir.walk_stmts(st.get('body')):
                    for e0 in ir.stmt_exprs(t):
                        for x in ir.walk(e0):
                            if x['k'] == 'call' and x.get('m') == 'applyRequest':
                                a = x['args'][1]
                                ok = E.lv(a, fn) in ({('core', 'request', 'destination')}, {('core', 'request')})
                                run.ob('C02.b', 'the substitution loop of R_::%s applies the outstanding request' % root_name, ok, where=x.get('l'), detail=ir.pp(a),
                                       key='the substitution loop reached from R_::%s applies something other than the outstanding request' % root_name)


def immediate(run, F, E):
    for tk, m, w in (('R_', 'immediateChangeTo', 'changeTo'), ('RP_', 'immediateChangeWith', 'changeWith')):
        for fn in F.find(tk, m):
            if not fn.params or fn.params[0]['n'] != 'stateId_':
                continue
            c = cfgmod.cfg_of(fn)
            calls, uncond, ordered = anchors.ordered_events(c, lambda n: n.kind == 'call')
            names = [n.e.get('m') for n in calls]
            ok = names == [w, 'processRequest'] and uncond and ordered and not c.events(('write', 'new'))
            run.ob('C02.c', '%s::%s = %s then processRequest, nothing else' % (tk, m, w), ok, where=fn.pat, detail=None if ok else names,
                   key='%s::%s is not request + processing' % (tk, m))


def drop_condition(run, F):
    """In the substitution loops a request may be dropped without being shown to any guard only if it is identical to the
    transition accepted so far (origin, destination, method, payload presence, payload bytes). Decided by evaluating the loop's
    own drop predicate -- the `if (applyRequest(...))` condition -- on the comparison domain of (accepted, outstanding)."""
    sites = []
    for root_name in ('processRequest', 'initialEnter'):
        for root in F.find('R_', root_name):
            for g, st in anchors.substitution_loops(F, effects.Effects(F) if not hasattr(F, '_E') else F._E, root):
                sites.append((root_name, g, st))
    seen_sites = set()
    for name, fn, loop_stmt in sites:
            if (fn.id, id(loop_stmt)) in seen_sites:
                continue
            seen_sites.add((fn.id, id(loop_stmt)))
            conds = []
            for t in ir.walk_stmts(loop_stmt.get('body')):
                if t.get('s') == 'if' and 'applyRequest' in ir.pp(t['c']):
                    conds.append(t['c'])
            if len(conds) != 1:
                raise AnalysisBroken('%s: expected one `if (applyRequest(...))` in the substitution loop, found %d' % (fn.short, len(conds)))
            cur_param = None
            cur_decl = None
            for p in fn.params:
                if p['n'] == 'currentTransition':
                    cur_param = p
            if cur_param is None:
                for s in ir.walk_stmts(fn.body):
                    if s.get('s') == 'decl':
                        for v in s['vars']:
                            if v['n'] == 'currentTransition':
                                cur_decl = v
            cur_id = (cur_param or cur_decl or {}).get('id')
            if cur_id is None:
                raise AnalysisBroken('%s: currentTransition not found' % fn.short)
            ty = (cur_param or cur_decl)['ty']
            has_payload = 'TransitionT<void>' not in ty
            origins, dests, methods = [255, 3], [0, 7, 255], [0, 2]
            psets = [0, 1] if has_payload else [0]
            stores = [0, 5] if has_payload else [0]
            bad = None
            cells = 0
            for co, cd, cm, cp, cs, ro, rd, rp, rs in itertools.product(origins, dests, methods, psets, stores, origins, dests[:2] + [254], psets, stores):
                if not cp and cs:
                    continue
                if not rp and rs:
                    continue
                cur = Obj(origin=co, destination=cd, method=cm)
                req = Obj(origin=ro, destination=rd, method=0)
                if has_payload:
                    cur['payloadSet'], cur['storage'] = cp, cs
                    req['payloadSet'], req['storage'] = rp, rs
                this = Obj(_core=Obj(request=req, registry=Obj(requested=255, active=0)))
                ev = Evaluator(F)
                try:
                    applied = ev.truth(ev.ev(conds[0], fn, this, {cur_id: cur}, 0))
                except cmpdomain.NotPure as e:
                    raise AnalysisBroken('%s: the drop predicate is not a pure comparison: %s' % (fn.short, e))
                cells += 1
                identical = co == ro and cd == rd and cm == 0 and cp == rp and (not cp or cs == rs)
                if not applied and not identical and bad is None:
                    bad = {'accepted': dict(cur), 'outstanding request': dict(req), 'dropped unseen by guards': True}
                if applied and this['_core']['registry']['requested'] != rd and bad is None:
                    bad = {'accepted': dict(cur), 'outstanding request': dict(req), 'registry.requested after applying': this['_core']['registry']['requested']}
            run.ob('C02.f', 'the substitution loop of R_::%s (in %s) drops an outstanding request unseen by guards only if it is identical to the accepted '
                   'transition; otherwise it becomes the requested destination (%d cells, %s)' % (name, fn.short, cells, 'payload' if has_payload else 'void'),
                   bad is None, where=fn.pat, detail=bad, key='the substitution loop reached from R_::%s can drop a request that differs from the accepted transition' % name)


def run(run):
    flow_rules.flow_obligations(run, {'C02.d', 'C02.e', 'C03.c'})
    for c in facts.configs(run.tier):
        for v in facts.variants(run.tier):
            F = facts.load('w_core', c, v)
            E = effects.Effects(F)
            run.count('fact units')
            request_writers(run, F, E)
            requested_writers(run, F, E)
            immediate(run, F, E)
            drop_condition(run, F)
            facts.drop(F)
            cfgmod.clear_cache()
    run.floor('C02.a', 60)
    run.floor('C02.b', 40)
    run.floor('C02.c', 8)
    run.floor('C02.d', 100)
    run.floor('C02.e', 200)
    run.floor('C02.f', 8)
    run.explanation = (
        'Effect-set rules on the four request writers and on the writers of registry.requested, order rules on the immediate '
        'forms, a must-equality dataflow through processRequest / initialEnter (interpreted with guards as unknown booleans and '
        'callbacks as havoc of the request slot) that relates the state finally entered to the accepted transition shown to '
        'enter()/reenter(), and a comparison-domain evaluation of the de-duplication test. Observation O1 (DESIGN 4 C02.f): a '
        'payload-carrying re-request of the just-accepted destination is de-duplicated unseen; not armed.')
