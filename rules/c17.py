"""C17 -- behaviour depends only on history; copies are equivalent (decided through its possible causes).

C17.a  definite initialisation of every scalar member of every FFSM2 record
C17.b  user-provided copy/move constructors copy every base and member from the same base/member
C17.c  copy/move construction of an automatically activated machine never re-enters (no initialEnter)
C17.d  no mutable namespace-scope / static state; externals are deterministic
C17.g  save() clears the whole buffer before its first write: the serialized form does not depend on what the buffer held (shares C12.a)
C17.f  copy/move construction and assignment write only the new object: the source (and so its later behaviour) is left as it was
C17.e  no value depends on an address: no pointer<->integer casts, no pointer ordering / subtraction / identity tests other than null
"""
from lint import facts, records, ir

LEVEL = 'other'


def bit_array_copies(run):
    """hand-written copies of the bit array (none today: the copies are the implicit memberwise ones) are decided bit by bit for every
    capacity by the refinement rule of C20.e -- the copy is the same set as its source --, not by reading initialiser lists"""
    from rules import c20 as _c20
    decided = False
    for v in facts.variants(run.tier)[:1]:
        F = facts.load('w_bitarrays', 'PS', v, 'c++11')
        hand = [fn for fn in F.find('BitArrayT') if fn.body is not None and not fn.d.get('implicit') and not fn.d.get('defaulted')
                and ((fn.kind == 'ctor' and fn.d.get('ctorkind') in ('copy', 'move')) or fn.m == 'operator=')]
        if hand:
            run.guard('bit array refinement', _c20.refinement, run, F)
            decided = True
        facts.drop(F)
    if decided:
        run.relabel('C20.e', 'C17.b')
    return decided


def run(run):
    jobs = [(w, c, v) for w in ('w_core', 'w_pay') for c in facts.configs(run.tier) for v in facts.variants(run.tier)]
    facts.prefetch(jobs)
    bits_decided = bit_array_copies(run)
    elsewhere = (lambda rec: 'decided bit by bit for every capacity (C20.e refinement: the copy is the same set as its source)'
                 if bits_decided and rec['name'].startswith('ffsm2::detail::BitArrayT<') else None)
    for (w, c, v) in jobs:
        F = facts.load(w, c, v)
        run.require(F.unknown == 0, 'unknown AST nodes in %s' % F.label())
        run.count('functions', len(F.fns))
        run.count('records', len(F.records))
        run.count('units')
        run.guard('definite init', records.definite_init, run, 'C17.a', F)
        run.guard('copy ctor coverage', records.copy_ctor_coverage, run, 'C17.b', F, elsewhere)
        run.guard('no mutable statics', records.no_mutable_statics, run, 'C17.d', F)
        run.guard('externals', records.externals, run, 'C17.d', F)
        run.guard('address independence', records.address_independence, run, 'C17.e', F)
        from lint import effects as _eff
        run.guard('source untouched', records.source_untouched, run, 'C17.f', F, _eff.Effects(F))
        if w == 'w_core':
            run.guard('copy does not reenter', copy_does_not_reenter, run, F)
        if w == 'w_core' and facts.cfg_has(c, 'S'):
            # the serialized form is a function of the machine alone, not of what the destination buffer held before: every save path clears
            # the whole buffer before its first write (shares the writer/reader tables of C12.a)
            from rules import c12 as _c12
            run.guard('field tables', _c12.field_tables, run, F, _eff.Effects(F))
            run.relabel('C12.a', 'C17.g')
        facts.drop(F)
    run.floor('C17.a', 40)
    run.floor('C17.b', 6)
    run.floor('C17.c', 2)
    run.floor('C17.e', 4)
    run.floor('C17.f', 20)
    run.floor('C17.g', 4)
    run.explanation = (
        'Record-level rules over every FFSM2 class instantiated by witnesses w_core and w_pay in each feature '
        'configuration: definite initialisation of scalar members by every constructor, member-by-member coverage of '
        'hand-written copy/move constructors, absence of mutable static state and of non-deterministic externals, and '
        'a call-graph rule that copy/move constructors of the automatic-activation root cannot reach initialEnter. '
        'Equality of two executions as such is not decided; the statement is decided through its only possible causes '
        'in code of this shape (indeterminate reads, incomplete copies, hidden state).')


def reach(F, fn, pred, seen=None):
    """does fn (transitively, through FFSM2 bodies) reach a function satisfying pred?"""
    if seen is None:
        seen = set()
    if fn.id in seen:
        return None
    seen.add(fn.id)
    for e in ir.all_exprs(fn):
        if e['k'] in ('call', 'ctor', 'inhctor') and e.get('fn') is not None:
            g = F.fn(e['fn'])
            if g is None:
                continue
            if pred(g):
                return [fn.short, g.short]
            r = reach(F, g, pred, seen)
            if r:
                return [fn.short] + r
    return None


def copy_does_not_reenter(run, F):
    for fn in F.find('RV_'):
        if fn.kind != 'ctor':
            continue
        ck = fn.d.get('ctorkind')
        auto = 'ffsm2::Automatic' in (fn.cls or '')
        if not auto:
            continue
        path = reach(F, fn, lambda g: g.m in ('initialEnter', 'finalExit') and g.tkey == 'ffsm2::detail::R_')
        if ck in ('copy', 'move'):
            run.ob('C17.c', 'RV_<Automatic> %s constructor cannot reach initialEnter [%s]' % (ck, F.label()), path is None,
                   where=fn.pat, detail=path, key='RV_<Automatic> %s constructor reaches initialEnter' % ck)
        else:
            run.ob('C17.c', 'RV_<Automatic> activating constructor reaches initialEnter [%s]' % F.label(), path is not None,
                   where=fn.pat, key='RV_<Automatic> constructor does not activate')
