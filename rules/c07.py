"""C07 -- payloads travel intact with the transition they were attached to (decided part).

C07.a  [type] payload storage layout: size, offset and record alignment fit the payload type, for every payload type of
       witness w_pay, in TransitionT and TaskT
C07.b  records: TransitionT/TaskT copy memberwise (no user-declared copy operations); payload constructors set
       payloadSet and placement-copy the `payload` parameter into storage; payload() returns the storage iff payloadSet
C07.c  [flow] whole-object copy chain request -> pending -> current -> previous (rules/flow_rules.py)
C07.d  [order] updatePlan forwards the same task's destination and payload
C07.e  [cmp] a payload-carrying request is never dropped unseen in favour of an accepted transition that differs from it
       (shares C02.f)
Not decided: equality of payload bytes for every value (memberwise copy of a byte array is the language's).
"""
from lint import facts, records, ir

LEVEL = 'other'


def ctor_rules(run, F):
    for tk in ('TransitionT', 'TaskT'):
        for rec in F.recs(tk):
            ti = rec.get('targinfo') or []
            if not ti or 'size' not in ti[0]:
                continue
            inst = '%s<%s>' % (tk, ti[0]['ty'])
            ok = not rec['has_user_copy_ctor'] and not rec['has_user_copy_assign'] and not rec['has_user_move_ctor']
            run.ob('C07.b', '%s has no user-declared copy operations (copies are memberwise: storage and payloadSet travel together)' % inst,
                   ok, where=rec.get('l'), key='%s has user-declared copy operations' % tk)
            ps = [f for f in rec['fields'] if f['n'] == 'payloadSet']
            run.ob('C07.b', '%s::payloadSet defaults to false' % inst,
                   bool(ps) and ps[0].get('nsdmi') and ir.const_val(ps[0].get('nsdmi_e')) == 0, where=rec.get('l'),
                   key='%s::payloadSet does not default to false' % tk)
        for fn in F.find(tk):
            if fn.kind != 'ctor' or fn.d.get('implicit'):
                continue
            pnames = [p['n'] for p in fn.params]
            if 'payload' in pnames:
                # payload-carrying constructor
                sets = [i for i in fn.inits if i['t'] == 'member' and i['name'] == 'payloadSet' and i.get('written')]
                ok_set = bool(sets) and ir.const_val(sets[0]['e']) == 1
                run.ob('C07.b', '%s(…, payload) sets payloadSet' % fn.short, ok_set, where=fn.pat,
                       key='%s payload constructor does not set payloadSet' % tk)
                news = [e for e in ir.all_exprs(fn) if e['k'] == 'new']
                ok_new = False
                if len(news) == 1:
                    init = ir.strip(news[0].get('init'))
                    # Payload{payload}: an init list / copy construction whose single source is the parameter
                    srcs = [x for x in ir.walk(init) if x['k'] == 'var' and x.get('vk') == 'param']
                    tgt = ir.strip(news[0]['place'][0])
                    ok_new = len(srcs) == 1 and srcs[0]['n'] == 'payload' and ir.pp(tgt) == '&storage'
                run.ob('C07.b', '%s(…, payload) placement-copies the payload parameter into storage' % fn.short, ok_new,
                       where=fn.pat, key='%s payload constructor does not copy its payload into storage' % tk)
                # base gets the id parameters in declaration order
                base = [i for i in fn.inits if i['t'] == 'base']
                ids = [p for p in pnames if p != 'payload']
                ok_base = False
                if base:
                    args = [ir.strip(a) for a in ir.strip(base[0]['e']).get('args', [])]
                    ok_base = [a.get('n') for a in args] == ids
                run.ob('C07.b', '%s forwards %s to its base in order' % (fn.short, ids), ok_base, where=fn.pat,
                       key='%s payload constructor scrambles its id arguments' % tk)
        for fn in F.find(tk, 'payload'):
            # return payloadSet ? reinterpret_cast<const Payload*>(&storage) : nullptr
            rets = [s for s in ir.walk_stmts(fn.body) if s.get('s') == 'ret']
            ok = False
            if len(rets) == 1:
                e = ir.strip(rets[0]['e'])
                if e['k'] == 'cond':
                    c, t, f = ir.strip(e['c']), ir.strip(e['t']), ir.strip(e['f'])
                    ok = ir.pp(c) == 'payloadSet' and t['k'] == 'cast' and ir.pp(ir.strip(t['e'])) == '&storage' and f['k'] in ('null', 'c')
                    if f['k'] == 'c':
                        ok = ok and f['v'] == 0
            run.ob('C07.b', '%s returns the storage address iff payloadSet' % fn.short, ok, where=fn.pat,
                   key='%s::payload() does not return storage iff payloadSet' % tk)
    # base constructors map parameters to the same-named members
    for tk in ('TransitionBase', 'TaskBase'):
        for fn in F.find(tk):
            if fn.kind != 'ctor' or fn.d.get('implicit') or not fn.params:
                continue
            ok = True
            seen = 0
            for i in fn.inits:
                if not i.get('written'):
                    continue
                src = ir.strip(i['e'])
                if src['k'] == 'init' and len(src['es']) == 1:
                    src = ir.strip(src['es'][0])
                if src['k'] == 'var' and src.get('vk') == 'param':
                    seen += 1
                    target = i.get('name')
                    if i['t'] == 'indirect':
                        target = i.get('name')
                    if src['n'].rstrip('_') != target:
                        ok = False
            run.ob('C07.b', '%s maps each parameter to the member of the same name' % fn.short, ok and seen == len(fn.params),
                   where=fn.pat, key='%s constructor maps a parameter to the wrong member' % tk)


def plan_payload_forwarding(run, F):
    from lint import effects, cfg as cfgmod
    E = effects.Effects(F)
    for fn in F.find('FullControlT', 'updatePlan'):
        calls = [(e, g) for e, g in E.call_sites(fn) if e.get('m') in ('changeWith', 'changeTo')]
        if (fn.cls or '').rstrip('> ').endswith('void'):
            continue      # void payload specialisation
        c = cfgmod.cfg_of(fn)
        ok = True
        det = []
        for e, g in calls:
            args = [ir.pp(ir.strip(a)) for a in e.get('args', [])]
            det.append((e.get('m'), args))
            # every argument is read through the same iterator `it`
            if not all(a.startswith(('it.', '*it.', '(*it')) or 'it.operator' in a for a in args):
                ok = False
            if e.get('m') == 'changeWith':
                ok = ok and len(args) == 2 and 'destination' in args[0] and 'payload' in args[1]
            else:
                ok = ok and len(args) == 1 and 'destination' in args[0]
        # changeWith only when that task's payload() is non-null
        nodes = c.events(('call',), lambda n: n.e.get('m') in ('changeWith', 'changeTo'))
        brs = [b for b in c.events(('branch',)) if b.e is not None and 'payload' in ir.pp(b.e)]
        if len(brs) == 1 and len(nodes) == 2 and sorted(n.e.get('m') for n in nodes) == ['changeTo', 'changeWith']:
            t = [s2 for s2, lab in brs[0].succ if lab == 'T'][0]
            f = [s2 for s2, lab in brs[0].succ if lab == 'F'][0]
            for n in nodes:
                if n.e.get('m') == 'changeWith':
                    ok = ok and c.dominates(t, n)
                else:
                    ok = ok and c.dominates(f, n)
        else:
            ok = False
        run.ob('C07.d', 'updatePlan forwards the fired task\'s own destination and payload (changeWith iff it has a payload) [%s]' % F.label(), ok,
               where=fn.pat, detail=None if ok else det, key='updatePlan forwards the wrong destination/payload')
    for fn in F.find('PayloadPlanT', 'append'):
        em = [e for e, g in E.call_sites(fn) if e.get('m') == 'emplace']
        ok = len(em) == 1 and [ir.strip(a).get('pi') for a in em[0].get('args', [])] == [0, 1, 2]
        run.ob('C07.d', 'PayloadPlanT::append stores (origin, destination, payload) in the task [%s]' % F.label(), ok, where=fn.pat,
               key='PayloadPlanT::append does not store its payload')


def run(run):
    cfgs = ['', 'P'] if run.tier == 'quick' else ['', 'P', 'PSHL', 'PSHVRDT']
    jobs = [('w_pay', c, v) for c in cfgs for v in facts.variants(run.tier)]
    stds = ['c++11'] if run.tier == 'quick' else ['c++11', 'c++20']
    jobs = [(w, c, v, s) for (w, c, v) in jobs for s in stds]
    facts.prefetch(jobs)
    for (w, c, v, s) in jobs:
        F = facts.load(w, c, v, s)
        run.require(F.unknown == 0, 'unknown AST nodes in %s' % F.label())
        run.count('units')
        run.count('records', len(F.records))
        records.payload_layout(run, 'C07.a', F)
        records.member_alignment(run, 'C07.a', F)
        ctor_rules(run, F)
        facts.drop(F)
    run.floor('C07.a', 36)
    run.floor('C07.b', 20)
    from rules import flow_rules
    fcfgs = ['PSHL', 'PHV'] if run.tier == 'quick' else ['P', 'PH', 'PSHL', 'PHV', 'PSHVRDT', 'H']
    flow_rules.flow_obligations(run, {'C07.c', 'C02.d', 'C11.b'}, cfgs=fcfgs)
    for c in fcfgs:
        for v in facts.variants(run.tier):
            F = facts.load('w_core', c, v)
            plan_payload_forwarding(run, F)
            from rules import c02
            c02.drop_condition(run, F)
            run.relabel('C02.f', 'C07.e')
            facts.drop(F)
    run.floor('C07.c', 40)
    run.floor('C07.e', 8)
    run.explanation = (
        'Type-level layout facts (sizeof / offsetof / alignof as computed by clang\'s record layout) for the payload '
        'storage of TransitionT<P> and TaskT<P> over 12 payload types with sizes 1..64 and alignments 1..64, the '
        'embedding of those records in their owners, and structural rules on the payload constructors and payload(). '
        'Value equality of payload bytes is not decided.')
