"""C07 -- payloads travel intact with the transition they were attached to (decided part).

C07.a  [type] payload storage layout: size, offset and record alignment fit the payload type, for every payload type of
       witness w_pay, in TransitionT and TaskT
C07.b  records: TransitionT/TaskT copy memberwise (no user-declared copy operations); payload constructors set
       payloadSet and placement-copy the `payload` parameter into storage; payload() returns the storage iff payloadSet
C07.c  [flow] whole-object copy chain request -> pending -> current -> previous (rules/flow_rules.py)
C07.d  [order] updatePlan forwards the same task's destination and payload
C07.f  [effect] every request writer replaces the whole request object (assignment operator of the request's own type); nothing else
       writes the slot (shares C02.a / C02.g)
C07.e  [cmp] a payload-carrying request is never dropped unseen in favour of an accepted transition that differs from it
       (shares C02.f)
Not decided: equality of payload bytes for every value (memberwise copy of a byte array is the language's).
"""
from lint import facts, records, ir
from lint.common import AnalysisBroken

LEVEL = 'other'


def ctor_rules(run, F):
    for tk in ('TransitionT', 'TaskT'):
        for rec in F.recs(tk):
            ti = rec.get('targinfo') or []
            if not ti or 'size' not in ti[0]:
                continue
            inst = '%s<%s>' % (tk, ti[0]['ty'])
            # memberwise = implicit or explicitly defaulted (`= default` on the declaration); only a *user-provided* body can copy less
            prov_ctors = [c for c in rec.get('ctors', []) if c.get('ctorkind') in ('copy', 'move') and c.get('user_provided')]
            prov_asg = [f for f in F.fns if f.cls == rec['name'] and f.m == 'operator=' and f.body is not None and not f.d.get('implicit') and not f.d.get('defaulted')]
            ok = not prov_ctors and not prov_asg
            run.ob('C07.b', '%s has no user-provided copy operations (copies are memberwise: storage and payloadSet travel together)' % inst,
                   ok, where=rec.get('l'), key='%s has user-declared copy operations' % tk)
            ps = [f for f in rec['fields'] if f['n'] == 'payloadSet']
            run.ob('C07.b', '%s::payloadSet defaults to false' % inst,
                   bool(ps) and ps[0].get('nsdmi') and ir.const_val(ps[0].get('nsdmi_e')) == 0, where=rec.get('l'),
                   key='%s::payloadSet does not default to false' % tk)
        for fn in F.find(tk):
            if fn.kind != 'ctor' or fn.d.get('implicit'):
                continue
            pnames = [p['n'] for p in fn.params]
            if 'payload' in pnames:
                # payload-carrying constructor, evaluated (member initialisers, base / delegating constructors, the placement-new of the
                # body) on distinct marker values: whatever the spelling, the object built has payloadSet, holds *the payload argument* in
                # its storage and each id argument in the member of the same name
                from lint.cmpdomain import Evaluator, Obj, NotPure
                from lint.common import AnalysisBroken
                marks = {}
                args = []
                for j, p in enumerate(fn.params):
                    v = ('payload-argument',) if p['n'] == 'payload' else 100 + j
                    marks[p['n'].rstrip('_')] = v
                    args.append(v)
                try:
                    obj = Evaluator(F).construct(fn, args, 0)
                except NotPure as ex:
                    raise AnalysisBroken('%s is outside the evaluable fragment: %s' % (fn.short, ex))
                run.ob('C07.b', '%s(…, payload) sets payloadSet' % fn.short, obj.get('payloadSet') in (1, True), where=fn.pat,
                       detail=repr(obj.get('payloadSet')), key='%s payload constructor does not set payloadSet' % tk)
                run.ob('C07.b', '%s(…, payload) placement-copies the payload parameter into storage' % fn.short, obj.get('storage') == ('payload-argument',),
                       where=fn.pat, detail=repr(obj.get('storage')), key='%s payload constructor does not copy its payload into storage' % tk)
                ids = [p for p in pnames if p != 'payload']
                ok_ids = all(obj.get(n.rstrip('_')) == marks[n.rstrip('_')] for n in ids)
                run.ob('C07.b', '%s stores %s in the members of the same names' % (fn.short, ids), ok_ids, where=fn.pat,
                       detail=None if ok_ids else {n: repr(obj.get(n.rstrip('_'))) for n in ids},
                       key='%s payload constructor scrambles its id arguments' % tk)
        for fn in F.find(tk, 'payload'):
            # return payloadSet ? reinterpret_cast<const Payload*>(&storage) : nullptr
            rets = [s for s in ir.walk_stmts(fn.body) if s.get('s') == 'ret']
            ok = False
            if len(rets) == 1:
                e = ir.strip(rets[0]['e'])
                if e['k'] == 'cond':
                    c, t, f = ir.strip(e['c']), ir.strip(e['t']), ir.strip(e['f'])
                    ok = ir.pp(c) == 'payloadSet' and t['k'] == 'cast' and ir.pp(ir.strip(t['e'])) == '&storage' and f['k'] in ('null', 'c')
                    if f['k'] == 'c':
                        ok = ok and f['v'] == 0
            run.ob('C07.b', '%s returns the storage address iff payloadSet' % fn.short, ok, where=fn.pat,
                   key='%s::payload() does not return storage iff payloadSet' % tk)
    # base constructors map parameters to the same-named members
    for tk in ('TransitionBase', 'TaskBase'):
        for fn in F.find(tk):
            if fn.kind != 'ctor' or fn.d.get('implicit') or not fn.params:
                continue
            ok = True
            seen = 0
            for i in fn.inits:
                if not i.get('written'):
                    continue
                src = ir.strip(i['e'])
                if src['k'] == 'init' and len(src['es']) == 1:
                    src = ir.strip(src['es'][0])
                if src['k'] == 'var' and src.get('vk') == 'param':
                    seen += 1
                    target = i.get('name')
                    if i['t'] == 'indirect':
                        target = i.get('name')
                    if src['n'].rstrip('_') != target:
                        ok = False
            run.ob('C07.b', '%s maps each parameter to the member of the same name' % fn.short, ok and seen == len(fn.params),
                   where=fn.pat, key='%s constructor maps a parameter to the wrong member' % tk)


def plan_payload_forwarding(run, F):
    from lint import effects, cfg as cfgmod
    E = effects.Effects(F)
    for fn in F.find('FullControlT', 'updatePlan'):
        if (fn.cls or '').rstrip('> ').endswith('void'):
            continue      # void payload specialisation
        from lint import inline
        fn = inline.inlined(F, E, fn)
        c = cfgmod.cfg_of(fn)
        decls = E.decls(fn)
        iters = [n for n in c.events(('decl',)) if (n.e.get('ty') or '').endswith('::Iterator') and 'PlanT<' in (n.e.get('ty') or '')]
        if len(iters) != 1:
            raise AnalysisBroken('updatePlan: %d plan iterators' % len(iters))
        it_id = iters[0].e['id']

        def from_task(e, field):
            """e (after expanding named temporaries) reads `field` / calls `field()` of the task the iterator points at"""
            x = ir.expand(e, decls)
            has_it = any(y['k'] == 'var' and y.get('id') == it_id for y in ir.walk(x))
            has_f = any((y['k'] == 'mem' and y.get('f') == field) or (y['k'] == 'call' and y.get('m') == field) for y in ir.walk(x))
            return has_it and has_f
        nodes = c.events(('call',), lambda n: n.e.get('m') in ('changeWith', 'changeTo') and (n.e.get('cls') or '').startswith(('ffsm2::detail::FullControlT<', 'ffsm2::detail::FullControlBaseT<')))
        ok = True
        det = []
        for n in nodes:
            e = n.e
            args = e.get('args', [])
            det.append((e.get('m'), [ir.pp(ir.strip(a)) for a in args]))
            if e.get('m') == 'changeWith':
                ok = ok and len(args) == 2 and from_task(args[0], 'destination') and from_task(args[1], 'payload')
            else:
                ok = ok and len(args) == 1 and from_task(args[0], 'destination')
        # changeWith only when that task's payload() is non-null: a decision on the task's payload pointer (tested directly, through a
        # condition variable or through a named temporary), whatever its polarity
        def payload_test(t):
            t = ir.strip(t)
            if t['k'] == 'bin' and t['op'] in ('!=', '==') and (ir.strip(t['r'])['k'] == 'null' or ir.const_val(t['r']) == 0):
                return False      # handled through the aliases: `p != nullptr` has the plain `p` spelling as an alias only when written so
            return from_task(t, 'payload')

        def payload_nonnull(t):
            t = ir.strip(t)
            if t['k'] == 'bin' and t['op'] == '!=' and (ir.strip(t['r'])['k'] == 'null' or ir.const_val(t['r']) == 0):
                return from_task(t['l'], 'payload')
            if t['k'] == 'bin' and t['op'] == '!=' and (ir.strip(t['l'])['k'] == 'null' or ir.const_val(t['l']) == 0):
                return from_task(t['r'], 'payload')
            return t['k'] != 'bin' and t['k'] != 'un' and from_task(t, 'payload')
        brs = ir.find_decisions(c, payload_nonnull)
        if len(brs) == 1 and len(nodes) == 2 and sorted(n.e.get('m') for n in nodes) == ['changeTo', 'changeWith']:
            _, t, f = brs[0]
            for n in nodes:
                if n.e.get('m') == 'changeWith':
                    ok = ok and c.dominates(t, n)
                else:
                    ok = ok and c.dominates(f, n)
        else:
            ok = False
            det.append(('payload tests', len(brs)))
        run.ob('C07.d', 'updatePlan forwards the fired task\'s own destination and payload (changeWith iff it has a payload) [%s]' % F.label(), ok,
               where=fn.pat, detail=None if ok else det, key='updatePlan forwards the wrong destination/payload')
    for fn in F.find('PayloadPlanT', 'append'):
        em = [e for e, g in E.call_sites(fn) if e.get('m') == 'emplace']
        ok = len(em) == 1 and [ir.strip(a).get('pi') for a in em[0].get('args', [])] == [0, 1, 2]
        run.ob('C07.d', 'PayloadPlanT::append stores (origin, destination, payload) in the task [%s]' % F.label(), ok, where=fn.pat,
               key='PayloadPlanT::append does not store its payload')


def run(run):
    cfgs = ['', 'P'] if run.tier == 'quick' else ['', 'P', 'PSHL', 'PSHVRDT']
    jobs = [('w_pay', c, v) for c in cfgs for v in facts.variants(run.tier)]
    stds = ['c++11'] if run.tier == 'quick' else ['c++11', 'c++20']
    jobs = [(w, c, v, s) for (w, c, v) in jobs for s in stds]
    facts.prefetch(jobs)
    for (w, c, v, s) in jobs:
        F = facts.load(w, c, v, s)
        run.require(F.unknown == 0, 'unknown AST nodes in %s' % F.label())
        run.count('units')
        run.count('records', len(F.records))
        run.guard('payload layout', records.payload_layout, run, 'C07.a', F)
        run.guard('member alignment', records.member_alignment, run, 'C07.a', F)
        run.guard('payload constructors', ctor_rules, run, F)
        facts.drop(F)
    run.floor('C07.a', 36)
    run.floor('C07.b', 20)
    from rules import flow_rules
    fcfgs = ['PSHL', 'PHV'] if run.tier == 'quick' else ['P', 'PH', 'PSHL', 'PHV', 'PSHVRDT', 'H']
    run.guard('flow obligations', flow_rules.flow_obligations, run, {'C07.c', 'C02.d', 'C11.b'}, cfgs=fcfgs)
    for c in fcfgs:
        for v in facts.variants(run.tier):
            F = facts.load('w_core', c, v)
            run.guard('plan payload forwarding', plan_payload_forwarding, run, F)
            from rules import c02
            run.guard('drop predicate', c02.drop_condition, run, F)
            run.relabel('C02.f', 'C07.e')
            # a request replaces the *whole* outstanding request object (no payload flag / bytes of an earlier request survive in it), and
            # nothing but the request writers and request processing touches the slot
            from lint import effects as _eff
            E2 = _eff.Effects(F)
            run.guard('request writers', c02.request_writers, run, F, E2)
            run.guard('request slot writers', c02.request_slot_writers, run, F, E2, 'C07.f')
            run.relabel('C02.a', 'C07.f')
            facts.drop(F)
    run.floor('C07.c', 40)
    run.floor('C07.e', 8)
    from gen import static_units as _su
    run.guard('configuration setters', _su.report, run, 'C07.g', _su.config_unit('C07.g'))      # the configured value survives every order of the setters
    run.guard('configuration setters', _su.report, run, 'C07.g', _su.config_unit('C07.g', plans=False))      # ... with and without the plan feature
    run.floor('C07.g', 1)
    run.floor('C07.f', 20)
    run.explanation = (
        'Type-level layout facts (sizeof / offsetof / alignof as computed by clang\'s record layout) for the payload '
        'storage of TransitionT<P> and TaskT<P> over 12 payload types with sizes 1..64 and alignments 1..64, the '
        'embedding of those records in their owners, and structural rules on the payload constructors and payload(). '
        'Value equality of payload bytes is not decided.')
