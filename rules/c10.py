"""C10 -- plan capacity is exact, order-preserving and never leaks (decided part).

C10.a  [order] every write to task storage, links, bounds or counters reachable from append() happens under a
       `count < CAPACITY` test; the full path writes nothing (except the planExists flag in the payload variant) and reports
       failure.
C10.b  [effect per path] linkTask: empty plan -> {first, last := index}; otherwise {links[last].next := index,
       links[index].prev := last, last := index} with the bound updated last. PlanT::remove: predecessor / first patched,
       successor / last patched, own link reset, then the slot is released.
C10.c  emplace increments and remove decrements the count exactly once on the paths that take / release a slot, never on the
       full path; TaskListT::clear resets all four cursors.
C10.h  [type] the configured task capacity survives every order of the configuration setters
C10.i  [type] the task pool has the configured capacity; per-task side arrays are at least as long
C10.j  [order] clearing a plan walks the whole list, reading each successor before the task is removed, and resets the bounds (shares C09.a)
C10.d  [order] all three iterator types advance with `_curr := _next; _next := next()`; remove() does not touch the cached
       successor; the constructor caches the successor of the first task.
C10.e  [sib] the three iterator types agree.
C10.f  G2 on TaskListT::emplace: the grow branch's guard implies the slot it initialises after ++_last is inside the array.
Not decided: that the intrusive free list stays well-formed over every history and capacity.
"""
import re

from lint import facts, ir, effects, anchors, intervals, cfg as cfgmod
from lint.common import AnalysisBroken

LEVEL = 'other'


def sym_bounds(dec, sym):
    """(lower, upper) bound on the entry value `sym` implied by the decisions of a path (comparisons with integer constants)"""
    lb = ub = None
    for (o, x, y), v in dec.items():
        if x != sym or not isinstance(y, int):
            continue
        if not v:
            o = {'<': '>=', '>=': '<', '>': '<=', '<=': '>', '==': '!=', '!=': '=='}[o]
        if o == '<':
            ub = y - 1 if ub is None else min(ub, y - 1)
        elif o == '<=':
            ub = y if ub is None else min(ub, y)
        elif o == '>':
            lb = y + 1 if lb is None else max(lb, y + 1)
        elif o == '>=':
            lb = y if lb is None else max(lb, y)
        elif o == '==':
            lb = y if lb is None else max(lb, y)
            ub = y if ub is None else min(ub, y)
    return lb, ub


def task_list_summaries(run, F, E):
    """C10.a / C10.c for the task pool, decided on effect summaries (lint/symeval.py): each operation is evaluated once per combination
    of the entry-state comparisons it branches on; per path, *what ends up stored where* (last store per cell), the exit values of
    head / tail / last / count and the returned index must be those of a vacant-list pop / push -- however the body is spelled."""
    from lint import symeval
    from lint.symeval import Sym, Opaque, Elem
    INV = 255

    def entry():
        return {'_vacantHead': Sym('vh'), '_vacantTail': Sym('vt'), '_last': Sym('last'), '_count': Sym('count')}

    def final(stores):
        m = {}
        for a, i, v in stores:
            m[(a.replace('..', '.'), i)] = v
        return m

    def decided(dec, op, a, b):
        """truth value the path gave to `a op b` (in any spelling it was asked), or None"""
        neg = {'==': '!=', '!=': '==', '<': '>=', '>=': '<', '>': '<=', '<=': '>'}
        swap = {'==': '==', '!=': '!=', '<': '>', '>': '<', '<=': '>=', '>=': '<='}
        for (o, x, y), v in dec.items():
            if (o, x, y) == (op, a, b) or (swap.get(o), y, x) == (op, a, b):
                return v
            if (neg.get(o), x, y) == (op, a, b) or (swap.get(neg.get(o)), y, x) == (op, a, b):
                return not v
        return None

    def paths_of(fn, args):
        try:
            return symeval.explore(lambda asm: symeval.Eval(F, entry(), ['_items'], asm), fn, args, limit=64)
        except symeval.Refuse as ex:
            raise AnalysisBroken('%s is outside the offset-domain fragment: %s' % (fn.short, ex))

    for fn in F.find('TaskListT', 'emplace'):
        cap = (F.rec_by_name.get(fn.cls) or {}).get('consts', {}).get('CAPACITY')
        args = [Opaque('arg%d' % j) for j in range(len(fn.params))]
        paths = paths_of(fn, args)
        bad = None
        kinds = set()
        for dec, sm in paths:
            room = decided(dec, '<', Sym('count'), cap)
            if room is None and decided(dec, '<=', Sym('count'), cap - 1) is not None:
                room = decided(dec, '<=', Sym('count'), cap - 1)
            fm = final(sm.stores)
            fl = sm.fields
            if room is None:
                bad = bad or {'path does not test the capacity': repr(dec)}
                continue
            if not room:
                kinds.add('full')
                ok = not sm.stores and fl == entry() and sm.ret == INV
                if not ok:
                    bad = bad or {'full path': {'stores': repr(sm.stores), 'fields': repr(fl), 'returns': repr(sm.ret)}}
                continue
            # a slot is taken: the slot is the entry head of the vacant list, the task is constructed there from the arguments, the
            # count goes up by exactly one, the slot index is returned
            slot = fm.get(('_items', Sym('vh')))
            took = isinstance(slot, Opaque) and isinstance(slot.tag, tuple) and slot.tag[0] == 'constructed' and list(slot.tag[1:]) == args
            ok = took and fl.get('_count') == Sym('count', 1) and sm.ret == Sym('vh')
            one_left = decided(dec, '!=', Sym('vh'), Sym('vt'))
            if one_left is True:
                kinds.add('recycle')
                nxt = Opaque(('entry', '_items..next', Sym('vh')))
                nxt2 = Opaque(('entry', '_items.next', Sym('vh')))
                head = fl.get('_vacantHead')
                ok = ok and head in (nxt, nxt2) and fl.get('_vacantTail') == Sym('vt') and fl.get('_last') == Sym('last') and \
                    (fm.get(('_items.prev', head)) == INV) and set(fm) == {('_items', Sym('vh')), ('_items.prev', head)}
            elif one_left is False:
                grow = None
                for (o, x, y), v in dec.items():
                    if x == Sym('last') and isinstance(y, int) and o in ('<', '<='):
                        grow = (o, y, v)
                if grow is None:
                    ok = False
                elif grow[2]:
                    kinds.add('grow')
                    ub = grow[1] - 1 if grow[0] == '<' else grow[1]      # last <= ub on this path
                    nl = Sym('last', 1)
                    ok = ok and ub + 1 <= cap - 1 and fl.get('_last') == nl and fl.get('_vacantHead') == nl and fl.get('_vacantTail') == nl and \
                        fm.get(('_items.prev', nl)) == INV and fm.get(('_items.next', nl)) == INV and \
                        set(fm) == {('_items', Sym('vh')), ('_items.prev', nl), ('_items.next', nl)}
                else:
                    kinds.add('last')
                    ok = ok and fl.get('_last') == cap and fl.get('_vacantHead') == INV and fl.get('_vacantTail') == INV and set(fm) == {('_items', Sym('vh'))}
            else:
                ok = False
            if not ok:
                bad = bad or {'decisions': repr(dec), 'stores': repr(sm.stores), 'fields': repr(fl), 'returns': repr(sm.ret)}
        complete = kinds == {'full', 'recycle', 'grow', 'last'}
        run.ob('C10.a', 'TaskListT<%s>::emplace: with no room nothing is written and INVALID is returned; otherwise the vacant head is popped (recycle / grow by '
               'one inside the array / last slot), the task is constructed there and its index returned (%d paths)' % (cap, len(paths)),
               bad is None and complete, where=fn.pat, detail=bad or (None if complete else {'path kinds': sorted(kinds)}),
               key='TaskListT::emplace writes without a capacity test (or mis-reports a full list)')
        run.ob('C10.c', 'TaskListT<%s>::emplace increments the count exactly once when it takes a slot and constructs the task in the slot it returns' % cap,
               bad is None and complete, where=fn.pat, detail=bad, key='TaskListT::emplace does not count the slot it takes exactly once')
    for fn in F.find('TaskListT', 'remove'):
        cap = (F.rec_by_name.get(fn.cls) or {}).get('consts', {}).get('CAPACITY')
        paths = paths_of(fn, [Sym('i')])
        bad = None
        kinds = set()
        for dec, sm in paths:
            room = decided(dec, '<', Sym('count'), cap)
            fm = final(sm.stores)
            fl = sm.fields
            ok = fl.get('_count') == Sym('count', -1) and fl.get('_vacantHead') == Sym('i') and fl.get('_last') == Sym('last')
            if room is True:
                kinds.add('push')
                ok = ok and fl.get('_vacantTail') == Sym('vt') and fm == {('_items.prev', Sym('i')): INV, ('_items.next', Sym('i')): Sym('vh'),
                                                                       ('_items.prev', Sym('vh')): Sym('i')}
            elif room is False:
                kinds.add('first')
                ok = ok and fl.get('_vacantTail') == Sym('i') and fm == {('_items.prev', Sym('i')): INV, ('_items.next', Sym('i')): INV}
            else:
                ok = False
            if not ok:
                bad = bad or {'decisions': repr(dec), 'stores': repr(sm.stores), 'fields': repr(fl)}
        run.ob('C10.c', 'TaskListT<%s>::remove releases exactly one slot: count - 1, the slot becomes the head of the vacant list and is linked in front of '
               'the old head (or is the only vacant slot when the list was full) (%d paths)' % (cap, len(paths)), bad is None and kinds == {'push', 'first'},
               where=fn.pat, detail=bad, key='TaskListT::remove does not put the released slot on the vacant list')
    for fn in F.find('TaskListT', 'clear'):
        ev = symeval.Eval(F, entry(), ['_items'])
        try:
            sm = ev.run(fn, [])
        except symeval.Refuse as ex:
            raise AnalysisBroken('TaskListT::clear is outside the offset-domain fragment: %s' % ex)
        ok = all(sm.fields.get(k) == 0 for k in ('_vacantHead', '_vacantTail', '_last', '_count'))
        run.ob('C10.c', 'TaskListT::clear resets head, tail, last and count to 0', ok, where=fn.pat, detail=repr(sm.fields),
               key='TaskListT::clear does not reset the list')


def capacity_rules(run, F, E):
    task_list_summaries(run, F, E)
    # append (both plan flavours), on effect summaries: with no room in the pool nothing is stored or linked and false is returned
    # (whether append tests the capacity itself or relies on the pool's own test); with room the task is constructed from the arguments
    # in the slot the pool hands out and linked behind the tail, and true is returned
    from lint import symeval
    from lint.symeval import Sym, Opaque, ObjRef

    def mk(asm):
        tasks = ObjRef({'_vacantHead': Sym('vh'), '_vacantTail': Sym('vt'), '_last': Sym('tlast'), '_count': Sym('tcount')}, ['_items'], 'tasks')
        pd = ObjRef({'taskLinks': ObjRef({}, ['_items'], 'taskLinks'), 'tasks': tasks, 'planExists': Sym('pe')}, [])
        ev = symeval.Eval(F, {'_bounds': ObjRef({'first': Sym('first'), 'last': Sym('last')}, []), '_planData': pd}, [], asm)
        ev.distinct_indices = True
        return ev
    for tk in ('PlanT', 'PayloadPlanT'):
        for fn in F.find(tk, 'append'):
            rec = F.rec_by_name.get(fn.cls) or {}
            cap = rec.get('consts', {}).get('TASK_CAPACITY')
            args = [Opaque('arg%d' % j) for j in range(len(fn.params))]
            try:
                paths = symeval.explore(mk, fn, args, limit=128)
            except symeval.Refuse as ex:
                raise AnalysisBroken('%s::append is outside the offset-domain fragment: %s' % (tk, ex))
            bad = None
            n_full = n_ok = 0
            for dec, sm in paths:
                lb, ub = sym_bounds(dec, Sym('tcount'))
                room = True if (ub is not None and ub <= cap - 1) else False if (lb is not None and lb >= cap) else None
                b_ = sm.fields['_bounds'].fields
                pe = sm.fields['_planData'].fields['planExists']
                if room is False:
                    n_full += 1
                    ok = not sm.stores and b_ == {'first': Sym('first'), 'last': Sym('last')} and sm.ret in (0, False) and pe in (Sym('pe'), 1, True) and \
                        sm.fields['_planData'].fields['tasks'].fields['_count'] == Sym('tcount')
                elif room is True:
                    handed = None
                    for (o, x, y), v in dec.items():
                        if (o, x, y) == ('!=', Sym('vh'), 255):
                            handed = v
                        if (o, x, y) == ('==', Sym('vh'), 255):
                            handed = not v
                        if (o, x, y) == ('<', Sym('vh'), cap):
                            handed = v if handed is None else handed
                    if handed is False:
                        continue          # the pool claims room but hands out INVALID: excluded by the pool's own invariant (C10.a emplace)
                    n_ok += 1
                    slot = [v for a_, i, v in sm.stores if a_ == 'tasks._items' and i == Sym('vh')]
                    built = bool(slot) and isinstance(slot[-1], Opaque) and isinstance(slot[-1].tag, tuple) and list(slot[-1].tag[1:]) == args
                    ok = built and sm.ret in (1, True) and pe in (1, True) and b_.get('last') == Sym('vh')
                else:
                    ok = False
                if not ok:
                    bad = bad or {'decisions': repr(dec), 'stores': repr(sm.stores)[:300], 'bounds': repr(b_), 'returns': repr(sm.ret), 'planExists': repr(pe)}
            run.ob('C10.a', '%s::append (capacity %s): a full pool leaves the plan untouched and yields false; otherwise the task is built from the arguments and '
                   'linked at the tail (%d paths)' % (tk, cap, len(paths)), bad is None and n_full >= 1 and n_ok >= 1, where=fn.pat, detail=bad,
                   key='%s::append does not respect the capacity' % tk)


def path_writes(F, E, fn):
    """for each acyclic path: ordered list of (expanded target, expanded value) of its writes, with the path's branch decisions"""
    c = cfgmod.cfg_of(fn)
    decls = E.decls(fn)

    def expand_ref(e):
        # expand every reference local (const or not) by its initialiser: the referent is fixed at the declaration
        e = ir.strip(e)
        if e['k'] == 'var' and e.get('vk') == 'local':
            d = decls.get(e['id'])
            if d is not None and d.get('ref') and d.get('init') is not None:
                return expand_ref(d['init'])
            if d is not None and d.get('const') and d.get('init') is not None:
                return expand_ref(d['init'])
            return e
        out = dict(e)
        for k in ir.EXPR_CHILD_KEYS:
            if ir.is_expr(e.get(k)):
                out[k] = expand_ref(e[k])
        for k in ir.EXPR_LIST_KEYS:
            if e.get(k):
                out[k] = [expand_ref(a) if ir.is_expr(a) else a for a in e[k]]
        return out
    res = []
    for p in cfgmod.enumerate_paths(c):
        ws = []
        decisions = []
        for n, lab in p:
            if n.kind == 'write' and n.e.get('k') == 'asg':
                ws.append((ir.pp(ir.normalize(expand_ref(n.e['l']))), ir.pp(ir.normalize(expand_ref(n.e['r'])))))
            if n.kind == 'branch' and lab in ('T', 'F') and n.e is not None:
                decisions.extend(ir.decision_aliases(expand_ref(n.e), lab))
        res.append((decisions, ws))
    return res


def link_rules(run, F, E):
    """C10.b on effect summaries: linkTask appends at the tail (or starts the list), remove unlinks exactly the given node -- the
    neighbours are joined, the bounds move when the node was first / last, the node's own links are reset and its slot is released --
    per combination of the entry-state comparisons the function branches on. Index expressions that differ syntactically are taken to
    denote different nodes (a node is never its own neighbour: the list invariant, see the residue of C10)."""
    from lint import symeval
    from lint.symeval import Sym, Opaque, ObjRef
    INV = 255

    def mk(asm):
        tasks = ObjRef({'_vacantHead': Sym('vh'), '_vacantTail': Sym('vt'), '_last': Sym('tlast'), '_count': Sym('tcount')}, ['_items'], 'tasks')
        pd = ObjRef({'taskLinks': ObjRef({}, ['_items'], 'taskLinks'), 'tasks': tasks, 'planExists': 1}, [])
        ev = symeval.Eval(F, {'_bounds': ObjRef({'first': Sym('first'), 'last': Sym('last')}, []), '_planData': pd}, [], asm)
        ev.distinct_indices = True
        return ev

    def truth(dec, op, a, b):
        neg = {'==': '!=', '!=': '==', '<': '>=', '>=': '<', '>': '<=', '<=': '>'}
        for (o, x, y), v in dec.items():
            if (o, x, y) == (op, a, b):
                return v
            if (neg[o], x, y) == (op, a, b):
                return not v
        return None

    def links(stores):
        m = {}
        for a, i, v in stores:
            if a.startswith('taskLinks.'):
                m[(a.replace('..', '.').split('.')[-1], i)] = v
        return m
    I = Sym('index')
    for fn in F.find('PlanT', 'linkTask'):
        try:
            paths = symeval.explore(mk, fn, [I], limit=32)
        except symeval.Refuse as ex:
            raise AnalysisBroken('PlanT::linkTask is outside the offset-domain fragment: %s' % ex)
        bad = None
        kinds = set()
        for dec, sm in paths:
            b_ = sm.fields['_bounds'].fields
            lm = links(sm.stores)
            valid = truth(dec, '!=', I, INV)
            if valid is None:
                valid = truth(dec, '<', I, cap_of(F, fn))
            if valid is False:
                kinds.add('invalid')
                ok = not sm.stores and b_ == {'first': Sym('first'), 'last': Sym('last')} and sm.ret in (0, False)
            elif valid is True:
                empty = truth(dec, '==', Sym('first'), INV)
                if empty is True:
                    kinds.add('empty')
                    ok = not lm and b_ == {'first': I, 'last': I} and sm.ret in (1, True)
                elif empty is False:
                    kinds.add('nonempty')
                    ok = lm == {('next', Sym('last')): I, ('prev', I): Sym('last')} and b_ == {'first': Sym('first'), 'last': I} and sm.ret in (1, True)
                else:
                    ok = False
            else:
                ok = False
            if not ok:
                bad = bad or {'decisions': repr(dec), 'links written': repr(lm), 'bounds': repr(b_), 'returns': repr(sm.ret)}
        run.ob('C10.b', 'PlanT::linkTask: an invalid index links nothing and reports false; otherwise the task becomes the list (empty plan) or is appended '
               'behind the old tail (%d paths)' % len(paths), bad is None and kinds == {'invalid', 'empty', 'nonempty'}, where=fn.pat, detail=bad,
               key='PlanT::linkTask does not append at the tail')
    for fn in F.find('PlanT', 'remove'):
        cap = cap_of(F, fn) or (F.rec_by_name.get(fn.cls) or {}).get('consts', {}).get('TASK_CAPACITY')
        try:
            paths = symeval.explore(mk, fn, [I], limit=64)
        except symeval.Refuse as ex:
            raise AnalysisBroken('PlanT::remove is outside the offset-domain fragment: %s' % ex)
        P = Opaque(('entry', 'taskLinks._items.prev', I))
        N = Opaque(('entry', 'taskLinks._items.next', I))
        bad = None
        seen = set()
        for dec, sm in paths:
            b_ = sm.fields['_bounds'].fields
            lm = links(sm.stores)
            tf = sm.fields['_planData'].fields['tasks'].fields
            hp = truth(dec, '<', P, cap)
            hn = truth(dec, '<', N, cap)
            if hp is None:
                hp = truth(dec, '!=', P, INV)
            if hn is None:
                hn = truth(dec, '!=', N, INV)
            want = {('prev', I): INV, ('next', I): INV}
            wb = {'first': Sym('first'), 'last': Sym('last')}
            if hp:
                want[('next', P)] = N
            else:
                wb['first'] = N
            if hn:
                want[('prev', N)] = P
            else:
                wb['last'] = P
            ok = hp is not None and hn is not None and lm == want and b_ == wb and tf.get('_count') == Sym('tcount', -1) and tf.get('_vacantHead') == I
            seen.add((hp, hn))
            if not ok:
                bad = bad or {'has predecessor': hp, 'has successor': hn, 'links written': repr(lm), 'expected': repr(want), 'bounds': repr(b_), 'pool': repr(tf)}
        run.ob('C10.b', 'PlanT::remove unlinks exactly the given task in all four neighbour situations, resets its links and releases its slot (%d paths)' % len(paths),
               bad is None and seen == {(True, True), (True, False), (False, True), (False, False)}, where=fn.pat, detail=bad,
               key='PlanT::remove does not unlink correctly')


def cap_of(F, fn):
    rec = F.rec_by_name.get(fn.cls) or {}
    cap = rec.get('consts', {}).get('TASK_CAPACITY')
    if cap is None and fn.cls and '::' in fn.cls:
        outer = F.rec_by_name.get(fn.cls.rsplit('::', 1)[0]) or {}       # nested iterator class: the plan's capacity
        cap = outer.get('consts', {}).get('TASK_CAPACITY')
    return cap


ITER_TKEYS = ['CPlanT::Iterator', 'PlanT::CIterator', 'PlanT::Iterator']


def iterator_rules(run, F, E):
    """C10.d/e on effect summaries: the plan iterator caches the successor of the task it stands on *before* that task can be removed,
    advances to the cached successor, and reads the successor link of a valid position only."""
    from lint import symeval
    from lint.symeval import Sym, Opaque, Elem, ObjRef

    def plan():
        pd = ObjRef({'taskLinks': ObjRef({}, ['_items'], 'taskLinks'), 'tasks': ObjRef({'_count': Sym('tcount')}, ['_items'], 'tasks')}, [])
        return ObjRef({'_bounds': ObjRef({'first': Sym('first'), 'last': Sym('last')}, []), '_planData': pd}, [])

    def link_next(i):
        return Opaque(('entry', 'taskLinks._items.next', i))

    def explore(fn, ctor=False):
        try:
            if ctor:
                out = []
                pending = symeval.explore.__wrapped__ if hasattr(symeval.explore, '__wrapped__') else None
                # constructors: same exploration, through run_ctor
                res = []
                stack = [[]]
                while stack:
                    prefix = stack.pop()
                    taken, decisions = [], {}

                    def assume(op, a_, b_, prefix=prefix, taken=taken, decisions=decisions):
                        key = (op, a_, b_)
                        if key in decisions:
                            return decisions[key]
                        i = len(taken)
                        d = prefix[i] if i < len(prefix) else False
                        if i >= len(prefix):
                            stack.append(taken[:] + [True])
                        taken.append(d)
                        decisions[key] = d
                        return d
                    P = plan()
                    ev = symeval.Eval(F, {'_plan': Opaque('unbound'), '_curr': Opaque('uninit'), '_next': Opaque('uninit')}, [], assume)
                    res.append((decisions, ev.run_ctor(fn, [P])))
                return res
            return symeval.explore(lambda asm: symeval.Eval(F, {'_plan': plan(), '_curr': Sym('curr'), '_next': Sym('next')}, [], asm), fn, [], limit=32)
        except symeval.Refuse as ex:
            raise AnalysisBroken('%s is outside the offset-domain fragment: %s' % (fn.short, ex))

    def valid(dec, sym, cap):
        """did the path decide `sym` to be a valid task index?"""
        for (o, x, y), v in dec.items():
            if x == sym and y == cap and o == '<':
                return v
            if x == sym and y == cap and o == '>=':
                return not v
            if x == sym and y == 255 and o == '!=':
                return v
            if x == sym and y == 255 and o == '==':
                return not v
        return None
    sig = {}
    for tk in ITER_TKEYS:
        for fn in F.find(tk, 'operator++'):
            cap = cap_of(F, fn)
            paths = explore(fn)
            ok = len(paths) == 2
            for dec, sm in paths:
                v = valid(dec, Sym('next'), cap)
                want_next = link_next(Sym('next')) if v else 255
                ok = ok and v is not None and sm.fields.get('_curr') == Sym('next') and sm.fields.get('_next') == want_next and not sm.stores
            run.ob('C10.d', '%s::operator++ moves to the cached successor and caches that one\'s successor (invalid past the end), reading no link of the task it leaves' % tk,
                   ok, where=fn.pat, detail=None if ok else [(repr(d), repr(m.fields.get('_curr')), repr(m.fields.get('_next'))) for d, m in paths],
                   key='%s::operator++ re-reads the link of the current (possibly removed) task' % tk)
            sig.setdefault('operator++', {})[tk] = sorted((repr(sorted(map(repr, d.items()))), repr(m.fields.get('_curr')), repr(m.fields.get('_next'))) for d, m in paths)
        for fn in F.find(tk, 'next'):
            cap = cap_of(F, fn)
            paths = explore(fn)
            ok = len(paths) == 2
            for dec, sm in paths:
                v = valid(dec, Sym('curr'), cap)
                ok = ok and v is not None and sm.ret == (link_next(Sym('curr')) if v else 255) and not sm.stores and sm.fields.get('_curr') == Sym('curr')
            run.ob('C10.d', '%s::next() is the successor link of the current task (invalid at the end)' % tk, ok, where=fn.pat,
                   detail=None if ok else [(repr(d), repr(m.ret)) for d, m in paths], key='%s::next() does not return the successor' % tk)
            sig.setdefault('next', {})[tk] = sorted((repr(sorted(map(repr, d.items()))), repr(m.ret)) for d, m in paths)
        for fn in F.find(tk, 'operator bool'):
            cap = cap_of(F, fn)
            paths = explore(fn)
            r = paths[0][1].ret if len(paths) == 1 else None
            ok = isinstance(r, Opaque) and isinstance(r.tag, tuple) and r.tag[0] == 'cmp' and \
                (r.tag[1:] == ('<', Sym('curr'), cap) or (r.tag[1] == '!=' and set(r.tag[2:]) == {Sym('curr'), 255}))
            run.ob('C10.d', '%s::operator bool() == (the position is a valid task index)' % tk, ok, where=fn.pat, detail=repr(r),
                   key='%s::operator bool is not "position valid"' % tk)
            sig.setdefault('operator bool', {})[tk] = repr(r)
        for fn in F.find(tk):
            if fn.m in ('operator*', 'operator->') and not fn.d.get('implicit'):
                paths = explore(fn)
                ok = all(sm.ret == Elem('tasks._items', Sym('curr')) and not sm.stores for dec, sm in paths)
                run.ob('C10.d', '%s::%s denotes the task at the position' % (tk, fn.m), ok, where=fn.pat, detail=repr([m.ret for d, m in paths]),
                       key='%s::%s denotes another task' % (tk, fn.m))
            if fn.kind == 'ctor' and not fn.d.get('implicit') and fn.params and fn.d.get('ctorkind') not in ('copy', 'move'):
                # (a hand-written copy of an iterator is a copy like any other: member coverage is C17.b's)
                cap = cap_of(F, fn)
                paths = explore(fn, ctor=True)
                ok = len(paths) == 2
                for dec, sm in paths:
                    v = valid(dec, Sym('first'), cap)
                    ok = ok and v is not None and sm.fields.get('_curr') == Sym('first') and sm.fields.get('_next') == (link_next(Sym('first')) if v else 255)
                run.ob('C10.d', '%s starts at the first task and caches its successor' % tk, ok, where=fn.pat,
                       detail=None if ok else [(repr(d), repr(m.fields.get('_curr')), repr(m.fields.get('_next'))) for d, m in paths],
                       key='%s constructor does not start at the first task' % tk)
        for fn in F.find(tk, 'remove'):
            ws = E.writes_star(fn)
            run.ob('C10.d', '%s::remove() does not touch the cached successor' % tk, not any(p[:2] == ('this', '_next') for p in ws), where=fn.pat,
                   key='%s::remove() disturbs the iteration' % tk)
            calls = [(e.get('m'), ir.pp(ir.strip(e['args'][0])) if e.get('args') else '') for e, g in E.call_sites(fn)]
            run.ob('C10.d', '%s::remove() removes the current task' % tk, calls == [('remove', '_curr')], where=fn.pat, detail=calls,
                   key='%s::remove() removes another task' % tk)
    for what, d in sig.items():
        if len(d) < 2:
            continue
        vals = set(repr(v) for v in d.values())
        ok = len(vals) == 1
        run.ob('C10.e', 'the three plan iterators have the same %s (compared on their effect summaries)' % what, ok, detail=None if ok else {k: repr(v)[:200] for k, v in d.items()},
               key='the plan iterators disagree on %s' % what)
    for tk, m in (('PlanT', 'operator bool'), ('CPlanT', 'operator bool')):
        for fn in F.find(tk, m):
            # decided on the summary of the function: what it returns is the comparison "first task index < capacity", however the
            # bounds are reached (reference, pointer, cached local)
            from lint import symeval
            cap = (F.rec_by_name.get(fn.cls) or {}).get('consts', {}).get('TASK_CAPACITY')
            bounds = ObjRef({'first': Sym('first'), 'last': Sym('last')}, [])
            ev = symeval.Eval(F, {'_bounds': bounds, '_planData': ObjRef({'tasksBounds': bounds, 'planExists': Sym('planExists')}, [])}, [])
            try:
                r = ev.run(fn, []).ret
            except symeval.Refuse as ex:
                raise AnalysisBroken('%s::operator bool is outside the offset-domain fragment: %s' % (tk, ex))
            t = getattr(r, 'tag', None)
            ok = isinstance(t, tuple) and len(t) == 4 and t[0] == 'cmp' and (
                (t[1] == '<' and t[2:] == (Sym('first'), cap)) or (t[1] == '>' and t[2:] == (cap, Sym('first'))) or
                (t[1] == '<=' and t[2:] == (Sym('first'), cap - 1)) or (t[1] == '>=' and t[2:] == (cap - 1, Sym('first'))))
            run.ob('C10.d', '%s::operator bool() == (first task index is valid)' % tk, ok, where=fn.pat, detail=repr(r),
                   key='%s emptiness test is inconsistent with the task sequence' % tk)
    for fn in F.find('CPlanT', 'first') + F.find('CPlanT', 'last'):
        rets = [ir.pp(ir.strip(s['e'])) for s in ir.walk_stmts(fn.body) if s.get('s') == 'ret']
        run.ob('C10.d', 'CPlanT::%s() returns the task at _bounds.%s' % (fn.m, fn.m), rets == ['_planData.tasks[_bounds.%s]' % fn.m], where=fn.pat, detail=rets,
               key='CPlanT::%s() returns the wrong task' % fn.m)


def g2(run, F, E):
    for fn in F.find('TaskListT', 'emplace'):
        n = 0
        for x, ext, r, node in intervals.guarded_subscripts(fn, E):
            if r is None or r[1] >= (1 << 40):
                continue
            n += 1
            run.ob('C10.f', 'G2 TaskListT::emplace: %s with index in [%d, %d] stays inside extent %d' % (ir.pp(x)[:40], r[0], r[1], ext), 0 <= r[0] and r[1] < ext,
                   where=x.get('l') or fn.pat, key='TaskListT::emplace grow branch can initialise a slot outside the array')
        if n == 0 and ext_of(F, fn) and ext_of(F, fn) > 1:
            raise AnalysisBroken('TaskListT::emplace: no locally guarded subscript found (grow branch not recognised)')


def ext_of(F, fn):
    rec = F.rec_by_name.get(fn.cls) or {}
    for f in rec.get('fields', []):
        if f['n'] == '_items':
            return f.get('extent')
    return None


# the task capacity each plan-carrying machine of witness w_limit was declared with (namespace of its states -> capacity); None = the
# default (255 is the "not configured" sentinel)
W_CAPACITY_DECLARED = {'t1': 1, 't2': 2, 't8': 8, 't254': 254}


def capacity_extents(run, F, rule='C10.i'):
    """type-level facts about the plan storage of every instantiated machine: the task pool holds exactly the configured number of
    tasks, and every per-task side array (the link array, the payload array) has at least as many elements as the pool can hand out
    indices for -- a side array sized by something else (the state count, say) is overrun as soon as more tasks than that are linked"""
    import re
    n = 0
    for name, rec in F.rec_by_name.items():
        if not name.startswith('ffsm2::detail::PlanDataT<'):
            continue
        fields = {f['n']: f for f in rec.get('fields', [])}

        def cap(fname):
            f = fields.get(fname)
            r = F.rec_by_name.get(f.get('ty')) if f else None
            return (r or {}).get('consts', {}).get('CAPACITY')
        pool = cap('tasks')
        if pool is None:
            raise AnalysisBroken('PlanDataT without a task pool of known capacity: %s' % name[-60:])
        m = re.search(r'TL_<\s*(\w+)::', name)
        declared = W_CAPACITY_DECLARED.get(m.group(1)) if m else None
        if declared is not None:
            n += 1
            run.ob(rule, 'the task pool of machine %s holds the configured %d tasks' % (m.group(1), declared), pool == declared, where=rec.get('l'),
                   detail={'pool capacity': pool, 'declared': declared}, key='the task pool does not have the configured capacity')
        for fname, f in fields.items():
            ty = f.get('ty') or ''
            if fname == 'tasks' or not ty.startswith('ffsm2::detail::StaticArrayT<'):
                continue
            c = cap(fname)
            n += 1
            run.ob(rule, 'PlanDataT::%s has an element for every task index (%s >= %d)' % (fname, c, pool), c is not None and c >= pool, where=rec.get('l'),
                   detail={'array': fname, 'elements': c, 'task pool capacity': pool},
                   key='PlanDataT::%s is smaller than the task pool it is indexed with' % fname)
    return n


def run(run):
    jobs = [('w_core', c, v) for c in facts.configs(run.tier) if facts.cfg_has(c, 'P') for v in facts.variants(run.tier)]
    jobs += [('w_shared', 'PS', v) for v in facts.variants(run.tier)] + [('w_limit', 'P', v) for v in facts.variants(run.tier)]
    facts.prefetch(jobs)
    for (w, c, v) in jobs:
        F = facts.load(w, c, v)
        run.require(F.unknown == 0, 'unknown AST nodes')
        E = effects.Effects(F)
        run.count('fact units')
        run.guard('capacity rules', capacity_rules, run, F, E)
        run.guard('link rules', link_rules, run, F, E)
        from rules import c09
        run.guard('reset completeness', c09.reset_completeness, run, F, E, 'C10.g')
        run.guard('iterator rules', iterator_rules, run, F, E)
        run.guard('g2', g2, run, F, E)
        run.guard('capacity extents', capacity_extents, run, F)
        # "never leaks": clearing a plan walks the whole list, reading each successor before the task is removed, and releases every slot
        # (shares the clearTasks rule of C09.a)
        run.guard('clear tasks', c09.clear_tasks, run, F, E, 'C10.j')
        facts.drop(F)
        cfgmod.clear_cache()
    run.floor('C10.a', 40)
    run.floor('C10.b', 10)
    run.floor('C10.c', 40)
    run.floor('C10.d', 60)
    run.floor('C10.e', 6)
    run.floor('C10.f', 4)
    run.floor('C10.g', 4)
    run.floor('C10.i', 8)
    run.floor('C10.j', 4)
    # the capacity that was configured is the capacity the plan gets, in whatever order the configuration was written (type-level)
    from gen import static_units
    run.guard('configuration setters', static_units.report, run, 'C10.h', static_units.config_unit('C10.h'))
    run.floor('C10.h', 1)
    run.explanation = (
        'Necessary structural conditions of the statement: capacity tests dominate every write of task storage and the full path '
        'is write-free; per-path effect sets of linkTask and PlanT::remove (all four neighbour cases); exactly-once count updates; '
        'iterators cache the successor before a removal can reset the link, and the three iterator types agree; interval reasoning '
        'on the grow branch of the slot allocator (capacities 1,2,3,5,255). Integrity of the intrusive free list over every '
        'history is not decided (relational shape reasoning over array contents; exhaustive enumeration would be model checking).')
