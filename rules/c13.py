"""C13 -- bit stream: reads return exactly what was written, packed back to back (decided part).

C13.a  [cmp] bitWidth(v): its argument is used only in `v == 0` / `v >> c == 0` tests; evaluating the expression on both
       end points of every region [2^(k-1), 2^k) gives k for all 2^32 arguments. [type] UBitWidth<N> holds N bits, N=1..32.
C13.b  [order] write<N> / read<N>: the remaining width starts at N, the loop runs exactly while it is non-zero, each
       iteration subtracts from it and adds to the cursor the same amount W = min(8 - cursor mod 8, remaining) (so
       1 <= W <= remaining): the cursor advances by exactly N and fields are contiguous.
C13.c  [sib] writer and reader use identical normalised expressions for byte index, chunk start and chunk width; the writer
       consumes low bits first and only ORs into a buffer its constructor cleared; the reader deposits at an item cursor that
       advances in lock step (LSB first on both sides).
C13.d  [bit provenance] for every width N = 1..32 and every start cursor: write<N> places exactly the item's N low bits at
       [cursor, cursor+N) and changes no other bit; read<N> returns exactly those bits; both advance the cursor by N. Together:
       any sequence of fields that fits reads back what was written, packed back to back, LSB first.
An unrecognised shape is analysis-broken (exit 2); a recognised shape with a wrong constant/operator is a violation.
"""
from lint import facts, ir, effects, loops, cmpdomain, cfg as cfgmod
from lint.cmpdomain import Evaluator
from lint.common import AnalysisBroken
from gen import static_units

LEVEL = 'other'


def bit_width(run, F):
    fns = [f for f in F.fns if f.qn == 'ffsm2::bitWidth']
    run.require(fns, 'ffsm2::bitWidth not instantiated')
    fn = fns[0]
    reps = {0, (1 << 32) - 1}
    for k in range(1, 33):
        reps.add(1 << (k - 1))
        reps.add((1 << k) - 1)
    bad = None
    thresholds = set()
    # the statement is about every 32-bit argument: what the body sees is the argument converted to the parameter's type
    UNSIGNED_BITS = {'unsigned char': 8, 'unsigned short': 16, 'unsigned int': 32, 'unsigned long': 64, 'unsigned long long': 64}
    pty = (fn.params[0].get('ty') or '').replace('const ', '').strip() if fn.params else ''
    run.require(len(fn.params) == 1 and pty in UNSIGNED_BITS, 'bitWidth parameter of a type the rule does not know: %r' % pty)
    pbits = UNSIGNED_BITS[pty]
    for v in sorted(reps):
        ev = Evaluator(F)
        try:
            got = ev.call(fn, None, [Evaluator.In(v & ((1 << pbits) - 1), 'v')])
        except cmpdomain.NotPure as e:
            raise AnalysisBroken('bitWidth is outside the threshold fragment: %s' % e)
        if ev.other_uses:
            raise AnalysisBroken('bitWidth uses its argument outside threshold tests: ' + '; '.join(ev.other_uses[:2]))
        thresholds |= ev.shift_thresholds
        want = v.bit_length()
        if ev.raw(got) != want and bad is None:
            bad = {'v': v, 'returns': ev.raw(got), 'expected': want}
    # the partition really is the one we evaluated: every threshold the function tests is a power of two in our grid
    grid_ok = all(t in reps or (t - 1) in reps for t in thresholds)
    run.ob('C13.a', 'bitWidth(v) == bit length of v on both end points of all 33 threshold regions (thresholds tested: %d; parameter type %s, %d bits)' % (len(thresholds), pty, pbits),
           bad is None and grid_ok, where=fn.pat, detail=bad, key='bitWidth returns the wrong width')


def stream_loop(fn):
    lps = [s for s in ir.walk_stmts(fn.body) if s.get('s') == 'for']
    if len(lps) != 1:
        raise AnalysisBroken('%s: expected exactly one loop, found %d' % (fn.short, len(lps)))
    return lps[0]


def stream_rules(run, F, E, semantic=None):
    """Shape rules for the chunk loops. They are *diagnostic siblings* of C13.d: where C13.d has decided write<N>/read<N> for every
    start cursor, a loop that is merely spelled differently (locals renamed, `x |= y` written `x = x | y`, ...) is not reported and
    not refused here -- the obligation is recorded as discharged through C13.d; a shape that differs *and* fails C13.d is reported
    by both rules, so the report says where the loop went wrong."""
    semantic = semantic or {}
    shapes = {}
    for tk, m in (('BitWriteStreamT', 'write'), ('BitReadStreamT', 'read')):
        for fn in F.find(tk, m):
            N = parse_width(fn)
            sem = semantic.get(('w' if m == 'write' else 'r', N))
            sub = Sub(run)
            try:
                stream_rule(sub, F, E, fn, tk, m, shapes)
                broken = None
            except AnalysisBroken as e:
                broken = str(e)
            inst = '%s<%s>::%s<%s>' % (tk, fn.targs[0] if fn.targs else '?', m, N)
            if broken is not None and sem is None:
                raise AnalysisBroken(broken)
            if (broken is not None or not sub.all_ok()) and sem is True:
                run.ob('C13.b', '%s: loop spelled differently from the recognised chunk loop; cursor/width lock step taken from C13.d (every start cursor)' % inst, True, where=fn.pat)
                run.ob('C13.c', '%s: loop spelled differently from the recognised chunk loop; bit placement taken from C13.d (every start cursor)' % inst, True, where=fn.pat)
                run.note('C13.b/c step aside for %s: %s' % (inst, broken or 'shape differs'))
                if sub.key:
                    shapes.pop((tk,) + sub.key, None)
                continue
            if broken is not None:
                # unrecognised and C13.d reports it as wrong: C13.d's report stands
                run.note('C13.b/c: %s not recognised (%s); see C13.d' % (inst, broken))
                continue
            sub.commit()
    stream_agreement(run, F, E, shapes, semantic)


class Sub:
    """obligations of one function, committed or replaced as a whole"""
    def __init__(self, run):
        self.run = run
        self.obs = []
        self.key = None

    def ob(self, *a, **k):
        self.obs.append((a, k))

    def all_ok(self):
        return all(a[2] for a, k in self.obs)

    def commit(self):
        for a, k in self.obs:
            self.run.ob(*a, **k)


def stream_rule(run, F, E, fn, tk, m, shapes):
    if True:
        if True:
            n = ir.const_val({'k': 'c', 'v': 0})
            width = None
            ft = fn.d.get('ftargs') or []
            lp = stream_loop(fn)
            # loop-local declarations (re-declared each iteration) + function-level ones
            decls = E.decls(fn)
            init_vars = lp.get('init', {}).get('vars', []) if lp.get('init') else []
            rem = None
            for v in init_vars:
                if ir.const_val(v.get('init')) not in (None, 0):
                    rem = v
            if rem is None:
                raise AnalysisBroken('%s: no remaining-width variable initialised to the field width' % fn.short)
            N = ir.const_val(rem['init'])
            cond = ir.strip(lp.get('c'))
            cond_ok = cond is not None and ((cond['k'] == 'var' and cond['id'] == rem['id']) or
                                            (cond['k'] == 'bin' and cond['op'] in ('!=', '>') and ir.strip(cond['l']).get('id') == rem['id'] and ir.const_val(cond['r']) == 0))
            # compound assignments in the body
            asgs = [x for s in ir.walk_stmts(lp['body']) for e in ir.stmt_exprs(s) for x in ir.walk(e) if x['k'] == 'asg']
            by_target = {}
            for x in asgs:
                by_target.setdefault(ir.pp(ir.strip(x['l'])), []).append(x)
            def amount(name, op):
                xs = by_target.get(name, [])
                if len(xs) != 1 or xs[0]['op'] != op:
                    return None
                return ir.npp(xs[0]['r'], decls)
            sub = amount(rem['n'], '-=')
            add = amount('_cursor', '+=')
            W_expected = 'min((8 - (_cursor %% 8)), %s)' % rem['n']
            ok = cond_ok and sub is not None and sub == add and sub == W_expected and lp.get('inc') is None
            inst = '%s<%s>::%s<%s>' % (tk, fn.targs[0] if fn.targs else '?', m, N)
            run.ob('C13.b', '%s: remaining starts at %s, loop while non-zero, cursor += W and remaining -= W with W = min(8 - cursor%%8, remaining)' % (inst, N),
                   ok, where=fn.pat, detail=None if ok else {'cond_ok': cond_ok, 'remaining -=': sub, 'cursor +=': add},
                   key='%s::%s does not advance the cursor by exactly the field width' % (tk, m))
            # sibling shapes
            def local_init(name):
                for s in ir.walk_stmts(lp['body']):
                    if s.get('s') == 'decl':
                        for v in s['vars']:
                            if v['n'] == name:
                                return v
                return None
            idx = local_init('byteIndex')
            start = local_init('byteChunkStart')
            widthv = local_init('byteChunkWidth')
            if not (idx and start and widthv):
                raise AnalysisBroken('%s: byteIndex / byteChunkStart / byteChunkWidth locals not found (unrecognised shape)' % fn.short)
            run.key = (N, fn.targs[0] if fn.targs else '')
            shapes[(tk, N, fn.targs[0] if fn.targs else '')] = {
                'byteIndex': ir.npp(idx['init'], decls), 'chunkStart': ir.npp(start['init'], decls), 'chunkWidth': ir.npp(widthv['init'], decls),
                'fn': fn, 'by_target': by_target, 'decls': decls, 'rem': rem['n'], 'loop': lp}
            if tk == 'BitWriteStreamT':
                bw = by_target.get('byte', [])
                okw = len(bw) == 1 and bw[0]['op'] == '|=' and ir.npp(bw[0]['r'], decls) == '(itemBits << (_cursor % 8))'
                byte = local_init('byte')
                okw = okw and byte is not None and byte.get('ref') and ir.npp(byte['init'], decls) == '_buffer._data[(_cursor / 8)]'
                sh = by_target.get('itemBits', [])
                okw = okw and len(sh) == 1 and sh[0]['op'] == '>>=' and ir.npp(sh[0]['r'], decls) == W_expected
                # order: OR before the shift, shift before the cursor moves
                c = cfgmod.cfg_of(fn)
                wn = {ir.pp(ir.strip(n.e['l'])): n for n in c.events(('write',)) if n.e.get('k') == 'asg'}
                okw = okw and all(k in wn for k in ('byte', 'itemBits', '_cursor')) and c.dominates(wn['byte'], wn['itemBits']) and c.dominates(wn['byte'], wn['_cursor'])
                run.ob('C13.c', '%s: ORs (remaining bits << chunk start) into the cursor byte, then drops the W lowest bits' % inst, okw, where=fn.pat,
                       key='BitWriteStreamT::write places bits wrongly')
            else:
                it = by_target.get('item', [])
                r = ir.npp(it[0]['r'], decls) if len(it) == 1 else ''
                want = '(((_buffer._data[(_cursor / 8)] >> (_cursor % 8)) & ((1 << ' + W_expected + ') - 1)) << itemCursor)'
                okr = len(it) == 1 and it[0]['op'] == '|=' and r == want
                det = {'got': r, 'want': want}
                ic = by_target.get('itemCursor', [])
                okr = okr and len(ic) == 1 and ic[0]['op'] == '+=' and ir.npp(ic[0]['r'], decls) == W_expected
                icv = [v for v in init_vars if v['n'] == 'itemCursor']
                okr = okr and len(icv) == 1 and ir.const_val(icv[0]['init']) == 0
                run.ob('C13.c', '%s: deposits ((byte >> chunk start) & mask(W)) at an item cursor that starts at 0 and advances by W' % inst, okr,
                       where=fn.pat, detail=None if okr else det, key='BitReadStreamT::read extracts bits wrongly')


def stream_agreement(run, F, E, shapes, semantic):
    # writer / reader agreement
    for (tk, N, cap), w in shapes.items():
        if tk != 'BitWriteStreamT':
            continue
        r = shapes.get(('BitReadStreamT', N, cap))
        if r is None:
            continue
        same = all(w[k] == r[k] for k in ('byteIndex', 'chunkStart', 'chunkWidth'))
        canon = w['byteIndex'] == '(_cursor / 8)' and w['chunkStart'] == '(_cursor % 8)'
        if not (same and canon) and semantic.get(('w', N)) is True and semantic.get(('r', N)) is True:
            run.ob('C13.c', 'write<%s>/read<%s> (capacity %s): layouts spelled differently; agreement taken from C13.d' % (N, N, cap), True, where=w['fn'].pat)
            continue
        run.ob('C13.c', 'write<%s>/read<%s> (capacity %s) agree on byte index, chunk start and chunk width' % (N, N, cap), same and canon,
               where=w['fn'].pat, detail=None if same and canon else {'writer': {k: w[k] for k in ('byteIndex', 'chunkStart', 'chunkWidth')},
                                                                      'reader': {k: r[k] for k in ('byteIndex', 'chunkStart', 'chunkWidth')}},
               key='bit stream writer and reader disagree on the layout')
    # the write stream clears its buffer; clear() covers the whole buffer
    for fn in F.find('BitWriteStreamT'):
        if fn.kind == 'ctor' and not fn.d.get('implicit') and fn.params:
            calls = [(e.get('m'), ir.pp(ir.strip(e['obj'])) if ir.is_expr(e.get('obj')) else '') for e, g in E.call_sites(fn)]
            run.ob('C13.c', 'BitWriteStreamT constructor clears the buffer it writes into', ('clear', '_buffer') in calls, where=fn.pat, detail=calls,
                   key='the write stream does not clear its buffer')
    for fn in F.find('StreamBufferT', 'clear'):
        ws = E.writes_star(fn)
        ok = ws == {('this', '_data', '*')}
        run.ob('C13.c', 'StreamBufferT::clear zeroes the whole byte array', ok, where=fn.pat, detail=sorted(ws), key='StreamBufferT::clear does not clear everything')
    for f in F.fns:
        if f.qn == 'ffsm2::fill':
            e = [x for x in ir.all_exprs(f) if x['k'] == 'call' and x.get('m') in ('memset', '__builtin_memset')]
            ok = len(e) == 1
            if ok:
                a = e[0]['args']
                ok = ir.pp(ir.strip(a[0])) == '&a' and ir.strip(a[1]).get('k') in ('var', 'cast', 'c') and ir.const_val(a[2]) is not None
                # sizeof(a) folded: equals the array size of this instantiation
            run.ob('C13.c', 'fill(a, value) sets sizeof(a) bytes of a', ok, where=f.pat, key='fill() does not cover the whole object')



def parse_width(fn):
    fi = fn.d.get('ftints') or []
    return fi[0] if fi and fi[0] is not None else None


def class_int(fn, i=0):
    rec = fn.facts.rec_by_name.get(fn.cls) or {}
    ti = rec.get('targinfo') or []
    return ti[i].get('int') if i < len(ti) else None


SMALL_CAPS = (1, 2, 3, 4, 5, 6, 7, 8, 9, 16, 64)      # 1..9 = every serial-buffer size a machine can have (1 + bit width of <= 255 states)


def value_level(run, F, tier, cap=255, rule='C13.d'):
    """C13.d: for every field width N and every start cursor c with c + N <= capacity: write<N> places exactly the N low bits of the
    item at buffer bits [c, c+N) (LSB first), leaves the bits below c untouched and the bits above c+N zero, and advances the
    cursor by N; read<N> returns exactly the buffer bits [c, c+N) and advances the cursor by N. Decided by bit-provenance
    abstract interpretation (lint/bitprov.py) -- exhaustive over (N, c), no data values involved."""
    from lint import bitprov
    from lint.bitprov import const_bits, to_int
    nbytes = (cap + 7) // 8
    maxw = min(32, cap)
    writers = {parse_width(f): f for f in F.find('BitWriteStreamT', 'write') if class_int(f) == cap}
    readers = {parse_width(f): f for f in F.find('BitReadStreamT', 'read') if class_int(f) == cap}
    run.require(len(writers) >= maxw and len(readers) >= maxw, 'w_streams does not instantiate all %d widths at capacity %d (%d writers, %d readers)' % (maxw, cap, len(writers), len(readers)))
    cursors = range(0, cap) if (tier == 'thorough' or cap <= 64) else list(range(0, 41)) + [63, 64, 100, 127, 128, 200, 222, 223, 247, 248, 254]
    I = bitprov.Interp(F)
    n_cases = 0
    semantic = {}
    for N in range(1, maxw + 1):
        item_w = 8 if N <= 8 else 16 if N <= 16 else 32
        bad_w = bad_r = None
        for c0 in cursors:
            if c0 + N > cap:
                continue
            n_cases += 1
            # ---- write: one evaluation per combination of the zero tests on data the function performs (none on today's code); a path that
            # assumed some item bits to be zero is compared with the expected buffer under the same assumption
            def mk_w(c0=c0):
                d_ = []
                for by in range(nbytes):
                    d_.append(tuple(('b', by * 8 + k) if by * 8 + k < c0 else 0 for k in range(8)) + (0,) * (bitprov.W - 8))
                return {'_cursor': const_bits(c0), '_buffer': {'_data': d_}}
            item = tuple(('i', k) if k < N else 0 for k in range(bitprov.W))
            try:
                wpaths = I.explore(writers[N], mk_w, [item], limit=256)
            except bitprov.Refuse as e:
                raise AnalysisBroken('write<%d> at cursor %d is outside the bit-provenance fragment: %s' % (N, c0, e))
            for dec_, res_, this, zero_ in wpaths:
                if bad_w is not None:
                    break
                data = this['_buffer']['_data']
                for p in range(nbytes * 8):
                    got = bitprov.assume_zero(data[p // 8][p % 8], zero_)
                    want = ('b', p) if p < c0 else (('i', p - c0) if p < c0 + N else 0)
                    want = bitprov.assume_zero(want, zero_)
                    if got != want:
                        bad_w = {'cursor': c0, 'buffer bit': p, 'holds': str(got), 'expected': str(want), 'bits assumed zero on this path': len(zero_)}
                        break
                if bad_w is None and to_int(this['_cursor']) != c0 + N:
                    bad_w = {'cursor': c0, 'cursor after': to_int(this['_cursor']), 'expected': c0 + N}
            # ---- read
            def mk_r(c0=c0):
                d_ = [tuple(('b', by * 8 + k) for k in range(8)) + (0,) * (bitprov.W - 8) for by in range(nbytes)]
                return {'_cursor': const_bits(c0), '_buffer': {'_data': d_}}
            try:
                rpaths = I.explore(readers[N], mk_r, [], limit=256)
            except bitprov.Refuse as e:
                raise AnalysisBroken('read<%d> at cursor %d is outside the bit-provenance fragment: %s' % (N, c0, e))
            for dec_, res, this, zero_ in rpaths:
                if bad_r is not None:
                    break
                for j in range(item_w):
                    want = bitprov.assume_zero(('b', c0 + j) if j < N else 0, zero_)
                    if bitprov.assume_zero(res[j], zero_) != want:
                        bad_r = {'cursor': c0, 'result bit': j, 'holds': str(res[j]), 'expected': str(want)}
                        break
                if bad_r is None and to_int(this['_cursor']) != c0 + N:
                    bad_r = {'cursor': c0, 'cursor after': to_int(this['_cursor']), 'expected': c0 + N}
        run.ob(rule, 'write<%d> on a %d-bit stream: item bits 0..%d land at [cursor, cursor+%d), nothing else changes, cursor += %d (all %d start cursors)' % (N, cap, N - 1, N, N, len([c for c in cursors if c + N <= cap])),
               bad_w is None, where=writers[N].pat, detail=bad_w, key='write<N> does not place exactly its own field')
        run.ob(rule, 'read<%d> on a %d-bit stream: returns buffer bits [cursor, cursor+%d), cursor += %d (all start cursors)' % (N, cap, N, N), bad_r is None, where=readers[N].pat,
               detail=bad_r, key='read<N> does not return exactly the field at the cursor')
        semantic[('w', N)] = bad_w is None
        semantic[('r', N)] = bad_r is None
    run.count('bit-provenance cases (width x start cursor)', n_cases)
    return semantic


def run(run):
    cfgs = ['PS'] if run.tier == 'quick' else ['PS', 'S', 'PSHL', 'PSHVRDT']
    jobs = [('w_shared', c, v) for c in cfgs if 'P' in c for v in facts.variants(run.tier)]
    facts.prefetch(jobs)
    semantic = {}
    for v in facts.variants(run.tier):
        F = facts.load('w_streams', 'S', v)
        run.require(F.unknown == 0, 'unknown AST nodes')
        semantic[v] = value_level(run, F, run.tier)
        # ... and at small capacities, among them stream lengths that are an exact number of bytes (a field that ends on the last bit)
        for cap_ in SMALL_CAPS:
            run.guard('value level (capacity %d)' % cap_, value_level, run, F, run.tier, cap_)
        facts.drop(F)
    for (w, c, v) in jobs:
        F = facts.load(w, c, v)
        run.require(F.unknown == 0, 'unknown AST nodes')
        E = effects.Effects(F)
        run.count('fact units')
        run.guard('bit width', bit_width, run, F)
        run.guard('stream rules', stream_rules, run, F, E, semantic[v])
        # writer and reader work on the caller's buffer, not on a snapshot of it (fields written after a reader was opened are read back)
        from lint import records as _rec
        run.guard('streams view the buffer', _rec.views_by_reference, run, 'C13.f', F, ('BitWriteStreamT', 'BitReadStreamT'), 'the stream buffer')
        facts.drop(F)
        cfgmod.clear_cache()
    run.guard('report', static_units.report, run, 'C13.a', 'ubitwidth')
    run.guard('report', static_units.report, run, 'C13.e', static_units.capacity_unit('C13.e'))
    from gen import nfamily
    run.guard('report', nfamily.report, run, run.tier, 'C12.b')
    # the N-family obligations used here are the "bit width suffices for the state count" clause
    run.floor('C13.a', 2)
    run.floor('C13.b', 20)
    run.floor('C13.c', 20)
    run.floor('C13.d', 64)
    run.floor('C13.e', 1)
    run.floor('C13.f', 2)
    run.explanation = (
        'bitWidth is decided for all 2^32 arguments by evaluating the extracted expression on the end points of the 33 regions '
        'its own threshold tests induce (the checker first verifies that the argument is used in threshold tests only). The '
        'cursor/width lock-step rule and the writer/reader agreement are structural rules on the normalised expression trees of '
        'write<N>/read<N> for N in {1,2,7,8,9,16,17,31,32}. That the derived width suffices for every state count 1..255 is a '
        'type-level fact (C12.b obligations). C13.d decides the value-level clauses by bit-provenance abstract interpretation of '
        'write<N>/read<N> for every width 1..32 and every start cursor of the 255-bit stream: symbolic bit identities flow through '
        'the shifts, masks, ORs and narrowing conversions, so the verdict holds for every value; with the cursor rule this composes to '
        'the round trip over every field sequence. Where C13.d decides, the shape rules C13.b/c act as diagnostics only and step '
        'aside for loops that are spelled differently but proven right.')
