"""C12 -- serialization round-trips the activity state and is canonical.

C12.a  [sib] writer/reader field tables agree per activation mode: on every save path the ordered list of write<N> equals
       the ordered list of read<N> on the matching load path (Automatic [1, W]; Manual active [1, W], inactive [1]); the values
       written are the constants 1/0 and registry.active, nothing else; every save path clears the whole buffer before the
       first write; SerialBuffer ==/!= compare every byte.
C12.b  [type] for every N = 1..255 (both root kinds): 2^WIDTH_BITS >= N, SERIAL_BITS == 1 + WIDTH_BITS, buffer capacity and
       byte count suffice (gen/nfamily.py).
C12.c  [effect+type] save() is const and reaches writes only to the stream and the buffer.
C12.d  [flow] load(): per (loader active?, stored bit) the C01 change-or-reenter / initial enter / final exit contract with
       the entered state == the value read, no guards (rules/flow_rules.py).
C12.e  [bitprov] the stream kernels write<N>/read<N> are exact at every serial-buffer size a machine can have (1..9 bits), for every
       field width and start cursor -- including a field that ends on the last bit of the buffer (shares C13.d).
"""
from lint import facts, ir, effects, loops, anchors, cfg as cfgmod
from lint.common import AnalysisBroken
from gen import nfamily
from rules import flow_rules
from rules.c03 import GUARDS

LEVEL = 'other'


def stream_ops(F, E, fn, depth=0):
    """list of paths; each path is a list of ('w'|'r', N, value-pp, branch-context) in program order, with FFSM2 callees
    that contain stream operations expanded. Branches multiply paths."""
    if depth > 6:
        raise AnalysisBroken('stream-op expansion depth')
    c = cfgmod.cfg_of(fn)
    # which callees contain stream ops?
    memo = {}

    def has_ops(g, seen=()):
        if g.id in memo:
            return memo[g.id]
        r = False
        if g.tkey in ('ffsm2::detail::BitWriteStreamT', 'ffsm2::detail::BitReadStreamT') and g.m in ('write', 'read'):
            r = True
        else:
            for h in E.callees(g):
                if h.id not in seen and has_ops(h, seen + (g.id,)):
                    r = True
        memo[g.id] = r
        return r
    paths = []
    decls = E.decls(fn)

    def canon(e):
        """condition with named temporaries expanded, in one canonical spelling -> (text, polarity)"""
        x = ir.expand(e, decls)
        als = ir.decision_aliases(x, 'T')
        # canonical = lexicographically smallest alias text
        t, lab = sorted(als)[0]
        return t, lab == 'T'

    def resolve(e, acc):
        """value written, with named temporaries expanded and a ?: resolved by the decision this path took on its condition"""
        x = ir.strip(ir.expand(e, decls))
        for _ in range(3):
            if x['k'] != 'cond':
                break
            key, pol = canon(x['c'])
            took = None
            for item in acc:
                if item[0] == '?' and len(item) > 3 and item[3] == key:
                    took = item[4]
            if took is None:
                break
            x = ir.strip(x['t'] if (took == pol) else x['f'])
        return ir.pp(x)

    def walk(n, acc, visited):
        if n.id in visited:
            return
        if n is c.exit:
            paths.append(acc)
            return
        acc2 = acc
        if n.kind == 'call':
            g = F.fn(n.e['fn']) if n.e.get('fn') is not None else None
            if g is not None and g.tkey in ('ffsm2::detail::BitWriteStreamT', 'ffsm2::detail::BitReadStreamT') and g.m in ('write', 'read'):
                width = (g.d.get('ftints') or [None])[0]
                val = resolve(n.e['args'][0], acc) if n.e.get('args') else ''
                acc2 = acc + [('w' if g.m == 'write' else 'r', width, val)]
            elif g is not None and has_ops(g):
                subs = stream_ops(F, E, g, depth + 1)
                for sp in subs:
                    for s2, lab in n.succ:
                        walk(s2, acc + sp, visited | {n.id})
                return
        if n.kind == 'branch':
            key, pol = canon(n.e) if n.e is not None else ('', True)
            for s2, lab in n.succ:
                if lab in ('T', 'F') and n.e is not None:
                    truth = (lab == 'T') == pol           # truth value of the canonical condition on this edge
                    prior = [it for it in acc2 if it[0] == '?' and len(it) > 3 and it[3] == key]
                    if prior and prior[-1][4] != truth and pure_cond(n.e):
                        continue      # infeasible: the same side-effect-free condition was decided the other way earlier on this path
                    walk(s2, acc2 + [('?', ir.pp(ir.strip(ir.expand(n.e, decls)))[:60], lab, key, truth)], visited | {n.id})
                else:
                    walk(s2, acc2 + [('?', ir.pp(ir.strip(n.e))[:60] if n.e else '', lab)], visited | {n.id})
            return
        for s2, lab in n.succ:
            walk(s2, acc2, visited | {n.id})
    walk(c.entry, [], frozenset())
    return paths


def pure_cond(e):
    """a condition whose value cannot change between two evaluations on one path of these functions: locals, constants, members read
    through const accessors (isActive()) -- no stream reads"""
    for x in ir.walk(e):
        if x['k'] == 'call' and x.get('m') in ('read', 'write'):
            return False
        if x['k'] in ('asg',) or (x['k'] == 'un' and x.get('op') in ('++', '--')):
            return False
    return True


def ops_only(path):
    return [(k, w) for (k, w, *_r) in path if k in ('w', 'r')]


def field_tables(run, F, E):
    for fn in F.find('RV_', 'save'):
        if len(fn.params) != 1 or 'StreamBufferT' not in fn.params[0]['ty']:
            continue
        manual = 'ffsm2::Manual' in fn.cls
        rec = None
        # WIDTH_BITS of this machine: from the load side's read width; compare below
        wpaths = stream_ops(F, E, fn)
        loads = [g for g in F.find('RV_', 'load') if g.cls == fn.cls and len(g.params) == 1 and 'StreamBufferT' in g.params[0]['ty']]
        run.require(len(loads) == 1, 'load() for %s not found' % ir.short_type(fn.cls))
        rpaths = stream_ops(F, E, loads[0])
        wsets = sorted(set(tuple(ops_only(p)) for p in wpaths))
        rsets = sorted(set(tuple(ops_only(p)) for p in rpaths))
        # key the writer paths by the activity bit they write, the reader paths by the edge taken on the bit read
        wmap = {}
        for p in wpaths:
            ops = [x for x in p if x[0] == 'w']
            if ops:
                wmap.setdefault(ops[0][2], set()).add(tuple(w for _, w, *_r in ops))
        rmap = {}
        for p in rpaths:
            widths = tuple(x[1] for x in p if x[0] == 'r')
            edge = None
            seen_read = False
            for x in p:
                if x[0] == 'r':
                    seen_read = True
                elif x[0] == '?' and seen_read and edge is None and 'read' in x[1]:
                    edge = x[2]
            rmap.setdefault(edge, set()).add(widths)
        ok = wmap.get('1') is not None and len(wmap['1']) == 1 and rmap.get('T') == wmap['1'] and rmap.get('F') == {(1,)}
        if '0' in wmap:
            ok = ok and wmap['0'] == {(1,)}
        if manual:
            ok = ok and '0' in wmap
        widths_w = {k: sorted(v) for k, v in wmap.items()}
        widths_r = {str(k): sorted(v) for k, v in rmap.items()}
        one = sorted(wmap.get('1', {()}))[0] if wmap.get('1') else ()
        ok = ok and len(one) == 2 and one[0] == 1
        run.ob('C12.a', '%s save/load field tables agree: writes %s, reads %s' % ('Manual' if manual else 'Automatic', widths_w, widths_r), ok,
               where=fn.pat, detail=None if ok else {'save paths': wsets, 'load paths': rsets},
               key='save() and load() disagree on the field layout (%s activation)' % ('manual' if manual else 'automatic'))
        # values written: activity bit constants and registry.active
        vals_ok = True
        detail = []
        for p in wpaths:
            ops = [x for x in p if x[0] == 'w']
            if not ops:
                continue
            first = ops[0]
            if first[1] != 1 or first[2] not in ('0', '1'):
                vals_ok = False
                detail.append(first)
            if first[2] == '1':
                rest = ops[1:]
                if len(rest) != 1 or not rest[0][2].endswith('registry.active') and rest[0][2] != 'registry.active':
                    vals_ok = False
                    detail.append(rest)
            else:
                if len(ops) != 1:
                    vals_ok = False
                    detail.append(ops)
        run.ob('C12.a', '%s save writes the activity bit (constant) and, when active, registry.active -- nothing else' % ('Manual' if manual else 'Automatic'),
               vals_ok, where=fn.pat, detail=detail[:3] or None, key='save() writes something other than the activity bit and the active index')
        # the inactive marker is written exactly when the machine is inactive (manual)
        if manual:
            # on every feasible path: the first bit written is 1 exactly when the path decided isActive() to be true
            okb = bool(wpaths)
            for p in wpaths:
                dec = [it for it in p if it[0] == '?' and len(it) > 3 and 'isActive()' in it[3]]
                ops = [x for x in p if x[0] == 'w']
                if not dec or not ops:
                    okb = False
                    continue
                # it[3] is the canonical text (possibly the negated spelling), it[4] its truth value
                key0 = dec[0][3].replace('(', '').replace(')', '').replace(' ', '')
                active = dec[0][4] if not key0.startswith('!') else (not dec[0][4])
                okb = okb and ops[0][2] == ('1' if active else '0')
            run.ob('C12.a', 'Manual save writes 1 iff isActive()', okb, where=fn.pat, key='manual save() encodes the activity bit wrongly')
        # every save path passes through a whole-buffer clear before the first write: either the write stream's constructor clears the
        # buffer it is given (today), or save() clears its buffer argument itself
        c = cfgmod.cfg_of(fn)
        ctors = c.events(('ctor',), lambda n: 'BitWriteStreamT' in (n.e.get('cls') or ''))
        writes = [n for n in c.events(('call',)) if n.e.get('m') in ('write', 'save')]
        on_param = len(ctors) == 1 and ir.strip(ctors[0].e['args'][0]).get('k') == 'var' and ir.strip(ctors[0].e['args'][0]).get('pi') == 0
        ctor_clears = False
        if len(ctors) == 1:
            g = F.fn(ctors[0].e['fn']) if ctors[0].e.get('fn') is not None else None
            if g is not None:
                ctor_clears = any(e.get('m') == 'clear' and ir.is_expr(e.get('obj')) and ir.pp(ir.strip(e['obj'])) == '_buffer' for e, _ in E.call_sites(g))
        explicit = [n for n in c.events(('call',)) if n.e.get('m') == 'clear' and ir.is_expr(n.e.get('obj')) and
                    ir.strip(n.e['obj']).get('k') == 'var' and ir.strip(n.e['obj']).get('pi') == 0]
        okc = on_param and all(c.dominates(ctors[0], w) for w in writes) and \
            (ctor_clears or any(all(c.dominates(x, w) for w in writes) and c.postdominates(x, c.entry) for x in explicit))
        run.ob('C12.a', 'save writes through a stream on its buffer argument, and a whole-buffer clear precedes the first write on every path '
               '(equal states give equal buffers)', okc, where=fn.pat, detail=None if okc else {'stream on the buffer argument': on_param,
                                                                                                'stream constructor clears': ctor_clears, 'explicit clears': len(explicit)},
               key='save() can write into a buffer that was not cleared')
        # load: the T edge of the activity bit reads the index into registry.requested
        lf = loads[0]
        for g in [lf] + list(E.calls_star(lf).values()):
            if g.m == 'deepLoadRequested':
                ws = [x for x in ir.all_exprs(g) if x['k'] == 'asg']
                okl = len(ws) == 1 and E.lv(ws[0]['l'], g) in ({('param:0', 'requested')}, {('core', 'registry', 'requested')}) and \
                    ir.strip(ws[0]['r'])['k'] == 'call' and ir.strip(ws[0]['r']).get('m') == 'read'
                run.ob('C12.a', 'deepLoadRequested stores the value read into registry.requested', okl, where=g.pat,
                       detail=None if okl else [ir.pp(w) for w in ws], key='deepLoadRequested does not load the requested prong')
            if g.m == 'deepSaveActive':
                pass
    for fn in F.find('C_', 'deepSaveActive'):
        calls = [(e.get('m'), ir.pp(ir.strip(e['args'][0])) if e.get('args') else '') for e, g in E.call_sites(fn)]
        ok = calls == [('write', 'registry.active')]
        run.ob('C12.a', 'deepSaveActive writes registry.active (WIDTH_BITS wide)', ok, where=fn.pat, detail=calls, key='deepSaveActive does not save the active prong')
        wfn = [g for e, g in E.call_sites(fn) if g is not None and g.m == 'write']
        rec = F.rec_by_name.get(fn.cls) or {}
        wb = rec.get('consts', {}).get('WIDTH_BITS')
        if wfn and wb is not None:
            ft = (wfn[0].d.get('ftargs') or ['?'])[0]
            n = (wfn[0].d.get('ftints') or [None])[0]
            run.ob('C12.a', 'the active index is written with exactly WIDTH_BITS (%s) bits' % wb, n == wb, where=fn.pat, detail={'write<N>': ft},
                   key='the active index is not written WIDTH_BITS wide')
    for fn in F.find('C_', 'deepLoadRequested'):
        rfn = [g for e, g in E.call_sites(fn) if g is not None and g.m == 'read']
        rec = F.rec_by_name.get(fn.cls) or {}
        wb = rec.get('consts', {}).get('WIDTH_BITS')
        if rfn and wb is not None:
            ft = (rfn[0].d.get('ftargs') or ['?'])[0]
            n = (rfn[0].d.get('ftints') or [None])[0]
            run.ob('C12.a', 'the active index is read with exactly WIDTH_BITS (%s) bits' % wb, n == wb, where=fn.pat, detail={'read<N>': ft},
                   key='the active index is not read WIDTH_BITS wide')
    for fn in F.find('StreamBufferT', 'clear'):
        ws = E.writes_star(fn)
        run.ob('C12.a', 'StreamBufferT::clear zeroes the whole byte array', ws == {('this', '_data', '*')}, where=fn.pat, detail=sorted(ws),
               key='StreamBufferT::clear does not clear everything')
    # buffer comparison covers every byte
    for m in ('operator==', 'operator!='):
        for fn in F.find('StreamBufferT', m):
            rec = F.rec_by_name.get(fn.cls) or {}
            ext = [f.get('extent') for f in rec.get('fields', []) if f['n'] == '_data']
            lps = loops.loops_of(fn)
            ok = len(lps) == 1 and ext and loops.full_extent(lps[0], ext[0])
            conds = [ir.pp(ir.strip(s['c'])) for s in ir.walk_stmts(fn.body) if s.get('s') == 'if']
            ok = ok and conds == ['(_data[i] != buffer._data[i])']
            rets = [ir.const_val(s['e']) for s in ir.walk_stmts(fn.body) if s.get('s') == 'ret']
            ok = ok and rets == ([0, 1] if m == 'operator==' else [1, 0])
            run.ob('C12.a', 'StreamBufferT::%s compares all %s byte(s)' % (m, ext[0] if ext else '?'), ok, where=fn.pat, detail=None if ok else {'conds': conds, 'rets': rets},
                   key='StreamBufferT::%s does not compare every byte' % m)


def save_effects(run, F, E):
    for fn in F.find('RV_', 'save') + F.find('R_', 'save'):
        run.ob('C12.c', '%s is const' % fn.short, fn.is_const(), where=fn.pat, key='%s is not const' % fn.short)
        ws = E.writes_with_locals(fn)
        bad = sorted(p for p in ws if p[0] in ('core', 'this') or p[0].startswith('global'))
        run.ob('C12.c', '%s writes only the stream and the buffer' % fn.short, not bad, where=fn.pat, detail=bad[:4] or None,
               key='%s modifies the machine' % fn.short)
        users = E.reaches_user(fn)
        run.ob('C12.c', '%s runs no user code' % fn.short, not users, where=fn.pat, key='%s runs user code' % fn.short)
    for tk, m in (('RV_', 'load'), ('R_', 'load'), ('RV_', 'loadEnter')):
        for fn in F.find(tk, m):
            path = E.path_to(fn, lambda g: g.m in GUARDS)
            run.ob('C12.d', '%s::%s consults no guard' % (tk, m), path is None, where=fn.pat, detail=path, key='%s::%s consults guards' % (tk, m))


def run(run):
    scfgs = [c for c in facts.configs(run.tier) if facts.cfg_has(c, 'S')]
    run.require(scfgs, 'no configuration with serialization')
    run.guard('flow obligations', flow_rules.flow_obligations, run, {'C12.d', 'C01.a'}, cfgs=scfgs)
    for c in scfgs:
        for v in facts.variants(run.tier):
            F = facts.load('w_core', c, v)
            E = effects.Effects(F)
            run.count('fact units')
            run.guard('field tables', field_tables, run, F, E)
            run.guard('save effects', save_effects, run, F, E)
            facts.drop(F)
            cfgmod.clear_cache()
    run.guard('report', nfamily.report, run, run.tier, 'C12.b')
    from gen import static_units
    run.guard('report', static_units.report, run, 'C12.b', static_units.capacity_unit('C12.b'))
    # the round trip goes through the bit-stream kernels at the buffer sizes machines really have: 1 + bit width of the state count, i.e.
    # 1..9 bits (8 = a machine of 64..127 states, whose state index ends on the last bit of a one-byte buffer). Decided for every field
    # width and start cursor by the bit-provenance interpretation of C13.d.
    from rules import c13 as _c13
    for v_ in facts.variants(run.tier)[:1]:
        F_ = facts.load('w_streams', 'S', v_)
        for cap_ in range(1, 10):
            run.guard('stream kernels (capacity %d)' % cap_, _c13.value_level, run, F_, run.tier, cap_, 'C12.e')
        facts.drop(F_)
    run.floor('C12.e', 40)
    run.floor('C12.a', 40)
    run.floor('C12.b', 60)
    run.floor('C12.c', 20)
    run.floor('C12.d', 20)
    run.explanation = (
        'Writer/reader field tables extracted from the control-flow graphs of save()/load() (with the stream-operating callees '
        'expanded) and compared per activation mode; values written; buffer cleared first; type-level capacity facts for every '
        'state count; save() const and effect-free on the machine; load() interpreted abstractly for active and inactive loaders '
        'with the stored activity bit unknown: it performs exactly the C01 transitions, enters the state that was read and never '
        'reaches a guard. Assumes the buffer passed to load() was produced by save() of the same machine type.')
