"""C08 -- plan tasks fire in order, only for the succeeded active state, and only once.

C08.a  [effect/order] updatePlan is called only from C_::deepUpdatePlans, which is called only from update/react, after the
       three phases and before request processing (position: C05.a).
C08.b  [order] both updatePlan specialisations: the scan starts at begin() and continues only while the iterator is valid AND
       the task's origin is active; a task fires only under `tasksSuccesses.get(it->origin)` of the same iterator; the scoped
       origin (it->origin) dominates the firing call; it.remove() follows the firing call in the same branch; each firing
       iteration passes exactly one of the two success-consumption writes; `tasksSuccesses &= successesToClear` follows the loop.
C08.c  [cmp] the activity predicate used by the scan is `active == origin` for every origin id (shares C06.d).
C08.d  [cmp] the leaf status mapping is failure first, then success, else none; operator| / |= are maxima; enum order
       NONE < SUCCESS < FAILURE; deepUpdatePlans calls updatePlan with that status.
C08.e  [effect] S_::deepExit clears both status bits of its own id after the user code.
C08.f  [sib] payload and void specialisations of updatePlan agree after erasing the payload branch.
C08.g  the plan-exists gate: set by append only, cleared by the full reset only (shares C09.b).
C08.h  [summary] succeed(id)/fail(id) set exactly the bit of id and the cycle result; the parameterless forms report for the caller.
C08.i  the per-cycle status is reset on every path after the plan step (shares C09.e).
C08.l  [effect] a fired task's request replaces the whole request slot, payload included (shares C02.a)
C08.k  [must-write] PlanDataT::clear(), deactivation and load reset the whole plan state, task links included (shares C09.f).
C08.j  [summary] order across plan edits: linkTask appends at the tail, PlanT::remove unlinks exactly the given task, the plan
       iterators step to the successor cached before a removal (shares the per-operation summaries C10.b/d/e).
"""
import itertools
import re

from lint import inline, facts, ir, effects, anchors, cmpdomain, loops, cfg as cfgmod
from lint.cmpdomain import Obj, Evaluator, NotPure
from lint.common import AnalysisBroken
from gen import static_units
from rules.c01 import who_may_call, tk_short
from rules import c06

LEVEL = 'other'


def callers_rule(run, F, E):
    who_may_call(run, F, E, 'C08.a', {('FullControlT', 'updatePlan'): {('C_', 'deepUpdatePlans')},
                                      ('C_', 'deepUpdatePlans'): {('R_', 'update'), ('R_', 'react')}})


def pp_it(e):
    return ir.pp(ir.strip(e))


def update_plan_rules(run, F, E):
    """the scan / fire / consume discipline of updatePlan, keyed on *types and resolved callees* (the plan iterator is the local of
    the plan's iterator type, the deferred mask the local bit array, a firing is a call of changeTo/changeWith, ...), never on the
    names of locals or on the loop's spelling"""
    SUCC = ('core', 'planData', 'tasksSuccesses')
    for fn in F.find('FullControlT', 'updatePlan'):
        fn = inline.inlined(F, E, fn)      # private helpers extracted from the body are looked through
        c = cfgmod.cfg_of(fn)
        label = 'payload' if not (fn.cls or '').rstrip('> ').endswith('void') else 'void'
        decls = c.events(('decl',))
        iters = [n for n in decls if (n.e.get('ty') or '').endswith('::Iterator') and 'PlanT<' in (n.e.get('ty') or '')]
        masks = [n for n in decls if (n.e.get('ty') or '').startswith('ffsm2::detail::BitArrayT<') and not n.e.get('ref')]
        conds = {}
        conds['one plan iterator and one deferred mask'] = len(iters) == 1 and len(masks) == 1
        if not conds['one plan iterator and one deferred mask']:
            run.ob('C08.b', 'FullControlT<%s>::updatePlan scan/fire/consume discipline [%s]' % (label, F.label()), False, where=fn.pat,
                   detail={'plan iterators': len(iters), 'local bit arrays': len(masks)}, key='updatePlan (%s) breaks the scan/fire/consume discipline' % label)
            continue
        it_id, mask_id = iters[0].e['id'], masks[0].e['id']

        def on_iter(e):
            """expression mentions the iterator"""
            return ir.is_expr(e) and any(x['k'] == 'var' and x.get('id') == it_id for x in ir.walk(e))

        def task_origin(e):
            """the origin field of the task the iterator points at"""
            return ir.is_expr(e) and on_iter(e) and any(x['k'] == 'mem' and x.get('f') == 'origin' for x in ir.walk(e))

        def is_var(e, vid):
            x = ir.strip(e) if ir.is_expr(e) else None
            return x is not None and x['k'] == 'var' and x.get('id') == vid

        def on_path(e, path):
            return ir.is_expr(e) and E.lv(e, fn) == {path}

        def call_m(n):
            g = F.fn(n.e['fn']) if n.e.get('fn') is not None else None
            return (g.tkey.split('::')[-1], g.m) if g is not None else (None, n.e.get('m'))

        lps = c.events(('loophead',))
        ok_loop = len(lps) == 1
        conds['one scan loop'] = ok_loop
        fires = c.events(('call',), lambda n: call_m(n) in (('FullControlBaseT', 'changeTo'), ('FullControlT', 'changeWith')))
        removes = c.events(('call',), lambda n: n.e.get('m') == 'remove' and is_var(n.e.get('obj'), it_id))
        gets = [b for b in c.events(('branch',)) if b.e is not None and
                any(x['k'] == 'call' and x.get('m') == 'get' and on_path(x.get('obj'), SUCC) and x.get('args') and task_origin(x['args'][0]) for x in ir.walk(b.e))]
        if ok_loop:
            lp_stmt = lps[0].e
            # the scan continues only while the iterator is valid and the origin of its task is active: both are conjuncts of the loop
            # condition (for / while)
            cj = loops.conjuncts(lp_stmt.get('c')) if lp_stmt.get('c') is not None else []
            valid = [x for x in cj if any(y['k'] == 'call' and y.get('m') == 'operator bool' and is_var(y.get('obj'), it_id) for y in ir.walk(x))]
            active = [x for x in cj if any(y['k'] == 'call' and y.get('m') == 'isActive' and y.get('args') and task_origin(y['args'][0]) for y in ir.walk(x))
                      and not (ir.strip(x)['k'] == 'un' and ir.strip(x)['op'] == '!')]
            conds['scan continues only while the iterator is valid and its origin is active'] = len(cj) == 2 and len(valid) == 1 and len(active) == 1
            init = ir.strip(iters[0].e.get('init')) if ir.is_expr(iters[0].e.get('init')) else None
            conds['scan starts at begin() of the plan'] = init is not None and any(
                x['k'] == 'call' and x.get('m') == 'begin' and 'PlanT<' in (x.get('cls') or '') for x in ir.walk(init)) and c.dominates(iters[0], lps[0]) \
                and not c.in_loop(iters[0])
            # exactly one ++it on every path that iterates again, none of them under the success test
            incs = c.events(('call',), lambda n: n.e.get('m') == 'operator++' and is_var(n.e.get('obj'), it_id))
            def is_inc(x):
                return x['k'] == 'call' and x.get('m') == 'operator++' and is_var(x.get('obj'), it_id)
            per_iter = loops.events_per_iteration(lp_stmt, is_inc)
            conds['advances with exactly one ++it per iteration'] = per_iter == {1} and len(incs) == 1
            conds['no continue/break in the scan'] = not loops.has_jump(loops.classify(lp_stmt))
        conds['one success test per iteration on the same iterator'] = len(gets) == 1 and (not ok_loop or c.in_loop(gets[0]))
        if len(gets) == 1:
            # the edge on which the success bit is set, whatever the polarity the test is written in
            dec = [d for d in ir.find_decisions(c, lambda t: ir.strip(t)['k'] == 'call' and ir.strip(t).get('m') == 'get') if d[0] is gets[0]]
            t_edge = dec[0][1] if dec else [s for s, lab in gets[0].succ if lab == 'T'][0]
            conds['firing only under the success test'] = bool(fires) and all(c.dominates(t_edge, f) for f in fires)
            conds['the fired task is removed after firing, in the same branch'] = len(removes) == 1 \
                and c.dominates(t_edge, removes[0]) and all(not c.dominates(removes[0], f) for f in fires)
            origin = c.events(('decl',), lambda n: (n.e.get('cls') or '').endswith('::Origin'))
            okor = len(origin) == 1 and all(c.dominates(origin[0], f) for f in fires)
            if okor:
                a = ir.strip(origin[0].e['init']).get('args', [])
                okor = len(a) == 2 and task_origin(a[1])
            conds['the request is made with the task origin as the caller (scoped origin it->origin)'] = okor
            # the fired destination / payload come from the same task
            okd = all(f.e.get('args') and on_iter(f.e['args'][0]) and any(x['k'] == 'mem' and x.get('f') == 'destination' for x in ir.walk(f.e['args'][0])) for f in fires)
            conds['the destination requested is the task\'s destination'] = okd

            def is_consume(n):
                if n.e.get('m') != 'clear' or len(n.e.get('args', [])) != 1 or not ir.is_expr(n.e.get('obj')):
                    return False
                return on_path(n.e['obj'], SUCC) or is_var(n.e['obj'], mask_id)
            consume = c.events(('call',), is_consume)
            cyc = ir.find_decisions(c, lambda t: ir.strip(t)['k'] == 'call' and ir.strip(t).get('m') == 'cyclic' and on_iter(t))
            okc = len(consume) == 2 and len(cyc) == 1
            if okc:
                _, te, fe = cyc[0]
                on_t = [n for n in consume if c.dominates(te, n)]
                on_f = [n for n in consume if c.dominates(fe, n)]
                okc = len(on_t) == 1 and len(on_f) == 1 and on_path(on_t[0].e['obj'], SUCC) and is_var(on_f[0].e['obj'], mask_id) \
                    and c.dominates(t_edge, cyc[0][0])
                okc = okc and all(task_origin(n.e['args'][0]) for n in consume)
            conds['each firing iteration consumes the success report exactly once (cyclic: now, otherwise after the scan)'] = okc
        ands = c.events(('call',), lambda n: n.e.get('op') == '&=' or n.e.get('m') == 'operator&=')
        okand = len(ands) == 1 and ok_loop and not c.in_loop(ands[0])
        if okand:
            okand = on_path(ands[0].e['obj'], SUCC) and is_var(ands[0].e['args'][0], mask_id)
            # follows the loop: the loop head dominates it and it is outside the loop
            okand = okand and c.dominates(lps[0], ands[0])
        conds['deferred consumption is applied after the scan (tasksSuccesses &= mask)'] = okand
        sets = c.events(('call',), lambda n: n.e.get('m') == 'set' and not n.e.get('args') and is_var(n.e.get('obj'), mask_id))
        conds['the deferred mask starts from all-ones before the scan'] = len(sets) == 1 and ok_loop and c.dominates(sets[0], lps[0])
        bad = [k for k, v in conds.items() if not v]
        run.ob('C08.b', 'FullControlT<%s>::updatePlan scan/fire/consume discipline (%d conditions) [%s]' % (label, len(conds), F.label()), not bad,
               where=fn.pat, detail=bad or None, key='updatePlan (%s) breaks the scan/fire/consume discipline' % label)


def status_rules(run, F, E):
    for fn in F.find('S_', 'deepUpdatePlans'):
        sid = anchors.state_id_of(F, fn)
        c = cfgmod.cfg_of(fn)
        paths = cfgmod.enumerate_paths(c)
        table = {}
        shape_ok = True
        for fbit, sbit in itertools.product([False, True], repeat=2):
            res = None
            for p in paths:
                feasible = True
                ret = None
                for n, lab in p:
                    if n.kind == 'branch' and lab in ('T', 'F'):
                        t = ir.pp(n.e)
                        ok_id = ('(%s)' % sid) in t or ('STATE_ID(%s)' % sid) in t
                        if 'tasksFailures.get(' in t and ok_id:
                            v = fbit
                        elif 'tasksSuccesses.get(' in t and ok_id:
                            v = sbit
                        else:
                            shape_ok = False
                            v = True
                        if v != (lab == 'T'):
                            feasible = False
                    if n.kind == 'ret':
                        r = ir.strip(n.e.get('e'))
                        if r is not None and r['k'] == 'ctor':
                            ret = ir.const_val(r['args'][0]) if r.get('args') else 0
                if feasible:
                    res = ret
            table[(fbit, sbit)] = res
        want = {(False, False): 0, (False, True): 1, (True, False): 2, (True, True): 2}
        run.ob('C08.d', 'S_<%s>::deepUpdatePlans maps (failure bit, success bit) to FAILURE first, then SUCCESS, else NONE' % sid, shape_ok and table == want,
               where=fn.pat, detail=None if table == want else {str(k): v for k, v in table.items()},
               key='the leaf status mapping does not give failure priority / reads other bits')
    for f in F.fns:
        if f.qn in ('ffsm2::detail::operator|', 'ffsm2::detail::operator|='):
            bad = None
            txt = ir.pp_stmt(f.body).replace('\n', ' ')
            shape = '((lhs.result > rhs.result) ? lhs.result : rhs.result)' in txt or '((rhs.result > lhs.result) ? rhs.result : lhs.result)' in txt
            if f.qn.endswith('|'):
                for a, b in itertools.product([0, 1, 2], repeat=2):
                    ev = Evaluator(F)
                    got = ev.call(f, None, [Obj(result=a), Obj(result=b)])
                    val = got.get('result') if isinstance(got, Obj) else None
                    if val != max(a, b) and bad is None:
                        bad = {'lhs': a, 'rhs': b, 'returns': val}
                ok = bad is None
            else:
                # lhs becomes the maximum and is what is returned (evaluated on all 9 pairs, whatever the spelling)
                for a, b in itertools.product([0, 1, 2], repeat=2):
                    ev = Evaluator(F)
                    L, R = Obj(result=a), Obj(result=b)
                    try:
                        got = ev.call(f, None, [L, R])
                    except NotPure as ex:
                        raise AnalysisBroken('TaskStatus operator|= is outside the evaluable fragment: %s' % ex)
                    if (L.get('result') != max(a, b) or got is not L or R.get('result') != b) and bad is None:
                        bad = {'lhs': a, 'rhs': b, 'lhs afterwards': L.get('result'), 'returns lhs': got is L}
                ok = bad is None
            run.ob('C08.d', 'TaskStatus %s is the maximum of the two results' % f.qn.split('::')[-1], ok, where=f.pat, detail=bad,
                   key='TaskStatus %s is not a maximum' % f.qn.split('::')[-1])
    for fn in F.find('C_', 'deepUpdatePlans'):
        c = cfgmod.cfg_of(fn)
        ups = c.events(('call',), lambda n: n.e.get('m') == 'updatePlan')
        ok = len(ups) == 1 and not c.in_loop(ups[0])
        det = None
        if ok:
            deps = c.control_deps_closure(ups[0])
            txt = ' && '.join(ir.pp(b.e) for b in deps if b.e is not None)
            decls = E.decls(fn)
            sarg = ir.strip(ups[0].e['args'][1])
            if sarg.get('k') == 'ctor' and len(sarg.get('args', [])) == 1:
                sarg = ir.strip(sarg['args'][0])
            sdecl = decls.get(sarg.get('id')) if sarg.get('k') == 'var' else None
            sinit = ir.pp(ir.strip(sdecl['init'])) if sdecl and sdecl.get('init') is not None else ''
            ok = 'planExists' in txt and 'operator bool' in txt and 'wideUpdatePlans' in sinit and 'subStatus' in sinit and 'operator|' in sinit
            det = {'guards': txt, 'status': sinit}
            pe = [v for v in decls.values() if v['n'] == 'planExists']
            if pe:
                ok = ok and E.lv(pe[0]['init'], fn) == {('core', 'planData', 'planExists')}
        run.ob('C08.d', 'C_::deepUpdatePlans runs the plan step iff (cycle status | active state\'s bits) is set and a plan exists', ok, where=fn.pat,
               detail=None if ok else det, key='deepUpdatePlans does not gate/feed the plan step correctly')


def exit_clears(run, F, E):
    for fn in F.find('S_', 'deepExit'):
        if anchors.is_empty_state_spec(fn):
            continue
        sid = anchors.state_id_of(F, fn)
        c = cfgmod.cfg_of(fn)
        cl = c.events(('call',), lambda n: n.e.get('m') == 'clearTaskStatus')
        user = [n for n in c.events(('call',)) if anchors.call_target(F, E, fn, n)[1] is not None]
        ok = len(cl) == 1 and ir.const_val(cl[0].e['args'][0]) == sid and c.postdominates(cl[0], c.entry) and all(c.dominates(u, cl[0]) for u in user)
        run.ob('C08.e', 'S_<%s>::deepExit clears its own task status after exit()' % sid, ok, where=fn.pat, key='S_::deepExit does not clear the exiting state\'s task status')
    for fn in F.find('PlanDataT', 'clearTaskStatus'):
        # both bits of the given state, unconditionally (an exiting state's reports must not survive its exit, whether or not a plan
        # exists at that moment)
        c = cfgmod.cfg_of(fn)
        cl = c.events(('call',), lambda n: n.e.get('m') == 'clear' and ir.is_expr(n.e.get('obj')) and n.e.get('args'))
        calls = sorted((pp_it(n.e['obj']), ir.strip(n.e['args'][0]).get('pi')) for n in cl)
        def only_the_id(b_):
            # a test of the argument itself (`stateId != INVALID`): nothing but the parameter and constants
            return b_.e is not None and all(x['k'] in ('c', 'bin', 'un', 'cast') or (x['k'] == 'var' and x.get('vk') == 'param' and x.get('pi') == 0)
                                             for x in ir.walk(b_.e))
        ok = calls == [('tasksFailures', 0), ('tasksSuccesses', 0)] and all(all(only_the_id(b_) for b_ in c.control_deps_closure(n)) for n in cl)
        run.ob('C08.e', 'PlanDataT::clearTaskStatus(id) clears both bits of id, unconditionally', ok, where=fn.pat, detail=calls, key='clearTaskStatus does not clear both bits')


def status_reports(run, F, E, rule='C08.h'):
    """what a status report does, on effect summaries: succeed(id) sets exactly the success bit of id (fail: the failure bit), the
    control variants also record the result for the current cycle, the parameterless control variant reports for the calling state
    (the scoped origin), nothing else is touched"""
    from lint import symeval
    from lint.symeval import Sym, ObjRef

    def mk(asm=None):
        pd = ObjRef({'tasksSuccesses': ObjRef({}, ['_storage'], 'succ'), 'tasksFailures': ObjRef({}, ['_storage'], 'fail')}, [])
        core = ObjRef({'planData': pd, 'logger': 0, 'registry': ObjRef({'active': Sym('active'), 'requested': Sym('requested')}, [])}, [])
        ev = symeval.Eval(F, {'_taskStatus': ObjRef({'result': Sym('r')}, []), '_core': core, '_originId': Sym('origin')}, [], asm)
        ev.primitive = lambda g, obj, args: g.tkey == 'ffsm2::detail::BitArrayT'
        return ev

    def states_of(fn):
        """number of states of the machine this control belongs to: the capacity of its per-state bit arrays"""
        for name, rec in F.rec_by_name.items():
            if name.startswith('ffsm2::detail::PlanDataT<') and (fn.cls or '').split('ArgsT<')[-1][:60] == name.split('ArgsT<')[-1][:60]:
                for f in rec.get('fields', []):
                    if f['n'] == 'tasksSuccesses':
                        return (F.rec_by_name.get(f['ty']) or {}).get('consts', {}).get('CAPACITY')
        return None

    def in_contract(dec, n_states):
        """is this combination of decisions possible for a *valid* reported id (0 <= id < number of states)? A path taken only for
        ids >= the number of states (a defensive range check) is outside the precondition of the report"""
        for (o, x, y), v in dec.items():
            if x in (Sym('id'), Sym('origin')) and isinstance(y, int):
                if n_states is None:
                    return None
                lo, hi = 0, n_states - 1
                holds_all = {'<': hi < y, '<=': hi <= y, '>': lo > y, '>=': lo >= y, '!=': not (lo <= y <= hi), '==': False}.get(o)
                holds_none = {'<': lo >= y, '<=': lo > y, '>': hi <= y, '>=': hi < y, '==': not (lo <= y <= hi), '!=': False}.get(o)
                if v and holds_none:
                    return False
                if (not v) and holds_all:
                    return False
        return True
    for tk in ('FullControlBaseT', 'R_'):
        for m, bits, res in (('succeed', 'tasksSuccesses', 1), ('fail', 'tasksFailures', 2)):
            for fn in F.find(tk, m):
                try:
                    paths = symeval.explore(mk, fn, [Sym('id')] if fn.params else [], limit=16)
                except symeval.Refuse as ex:
                    raise AnalysisBroken('%s::%s is outside the offset-domain fragment: %s' % (tk, m, ex))
                n_states = states_of(fn)
                feasible = []
                for dec, sm_ in paths:
                    ic = in_contract(dec, n_states)
                    if ic is None:
                        raise AnalysisBroken('%s::%s branches on the reported id and the number of states of its machine is not known' % (tk, m))
                    if ic:
                        feasible.append((dec, sm_))
                if not feasible:
                    raise AnalysisBroken('%s::%s has no path for a valid id' % (tk, m))
                # every path a valid id can take must do the same, complete report
                sm = feasible[0][1]
                evs = sm.events
                ok = all(p_[1].events == evs and p_[1].fields['_taskStatus'].fields.get('result') == sm.fields['_taskStatus'].fields.get('result') for p_ in feasible)
                ok = ok and len(evs) == 1 and evs[0][0] == 'BitArrayT::set' and evs[0][1].endswith('planData.' + bits) and len(evs[0][2]) == 1 and not sm.stores
                if ok:
                    a = evs[0][2][0]
                    if fn.params:
                        ok = a == Sym('id')
                    elif fn.d.get('ftargs'):
                        ok = isinstance(a, int) and a != 255          # succeed<TState>(): that state's id (ids are C14's)
                    else:
                        ok = a == Sym('origin')                       # succeed(): the calling state
                want = res if tk == 'FullControlBaseT' else Sym('r')
                ok = ok and sm.fields['_taskStatus'].fields.get('result') == want
                run.ob(rule, '%s::%s%s sets exactly the %s bit of the reported state%s' % (tk, m, '(id)' if fn.params else '()', 'success' if res == 1 else 'failure',
                                                                                             ' and records the result for this cycle' if tk == 'FullControlBaseT' else ''),
                       ok, where=fn.pat, detail=None if ok else {'events': repr(evs), 'result': repr(sm.fields['_taskStatus'].fields.get('result'))},
                       key='%s::%s does not report exactly its own status' % (tk, m))


def sibling_rule(run, F, E):
    """the two specialisations perform the same sequence of library calls (resolved callees in dominance order, with their control
    dependences), apart from how the payload is handed on -- compared on the call structure, not on the text of the bodies, so that a
    named temporary or a renamed local on one side is no disagreement"""
    by = {}
    IGNORE = {'operator->', 'operator*', 'payload', 'operator bool'}
    for fn in F.find('FullControlT', 'updatePlan'):
        void = (fn.cls or '').rstrip('> ').endswith('void')
        c = cfgmod.cfg_of(fn)
        evs, _, _ = anchors.ordered_events(c, lambda n: n.kind == 'call')
        seq = []
        for n in evs:
            g = F.fn(n.e['fn']) if n.e.get('fn') is not None else None
            name = (g.tkey.split('::')[-1] + '::' + g.m) if g is not None else str(n.e.get('m'))
            m = name.split('::')[-1]
            if m in IGNORE:
                continue
            if m in ('changeWith', 'changeTo'):
                name = 'fire'
            deps = len([b_ for b_ in c.control_deps_closure(n) if not (b_.e is not None and 'payload' in ir.pp(b_.e))])
            item = (name, bool(c.in_loop(n)), deps)
            if name == 'fire' and seq and seq[-1] == item:
                continue      # changeWith / changeTo on the two arms of the payload test: one firing
            seq.append(item)
        by.setdefault(void, set()).add(tuple(seq))
    if True in by and False in by:
        ok = by[True] == by[False]
        run.ob('C08.f', 'payload and void specialisations of updatePlan agree after erasing the payload branch', ok,
               detail=None if ok else {'void': [x[0] for x in sorted(by[True])[0]], 'payload': [x[0] for x in sorted(by[False])[0]]},
               key='the two updatePlan specialisations disagree')


def run(run):
    pcfgs = [c for c in facts.configs(run.tier) if facts.cfg_has(c, 'P')]
    for c in pcfgs:
        for v in facts.variants(run.tier):
            F = facts.load('w_core', c, v)
            E = effects.Effects(F)
            run.count('fact units')
            run.guard('callers rule', callers_rule, run, F, E)
            from rules import c05
            for fn in F.find('R_', 'update'):
                run.guard('check entry', c05.check_entry, run, F, E, fn, c05.UPDATE_SEQ, True)
            for fn in F.find('R_', 'react'):
                run.guard('check entry', c05.check_entry, run, F, E, fn, c05.REACT_SEQ, True)
            run.guard('update plan rules', update_plan_rules, run, F, E)
            # the gate of the plan step: set by append only, cleared by the full plan-data reset only -- were it cleared when a plan
            # merely completes, reports made while no plan exists would never be consumed and could fire a later plan's head task
            from rules import c09 as _c09
            run.guard('plan exists', _c09.plan_exists, run, F, E)
            run.relabel('C09.b', 'C08.g')
            # a report from an earlier cycle must not feed the plan step of a later one (it could fail or fire a plan that did nothing)
            run.guard('cycle status reset', _c09.cycle_status_reset, run, F, E)
            run.relabel('C09.e', 'C08.i')
            run.guard('status rules', status_rules, run, F, E)
            run.guard('exit clears', exit_clears, run, F, E)
            run.guard('sibling rule', sibling_rule, run, F, E)
            run.guard('status reports', status_reports, run, F, E)
            # "tasks that do not fire stay in the plan in their original order", also across plan edits: appending links at the tail,
            # removing unlinks exactly the given task, the iterators step to the cached successor (the per-operation summaries of C10)
            from rules import c10 as _c10
            run.guard('link rules', _c10.link_rules, run, F, E)
            run.guard('iterator rules', _c10.iterator_rules, run, F, E)
            for r_ in ('C10.a', 'C10.b', 'C10.c', 'C10.d', 'C10.e', 'C10.f'):
                run.relabel(r_, 'C08.j')
            # a full reset (deactivation, load) forgets every task *and its links*: links that survive would be inherited by the tasks of
            # the next plan (a task that was never appended fires)
            run.guard('reset completeness', _c09.reset_completeness, run, F, E, 'C08.k')
            # a fired task's request replaces whatever was in the request slot -- payload included (a payload-free task must not inherit
            # the payload of a task fired just before it): every request writer assigns a whole request (shares C02.a)
            from rules import c02 as _c02
            run.guard('request writers', _c02.request_writers, run, F, E)
            run.relabel('C02.a', 'C08.l')
            # C08.c: the scan's activity predicate
            run.guard('check is active', c06.check_is_active, run, F)
            facts.drop(F)
            cfgmod.clear_cache()
    for o in run.obligations:
        if o['rule'] == 'C05.a':
            cc = run.rule_counts['C05.a']
            cc[0] -= 1
            cc[1] -= 1 if o['ok'] else 0
            o['rule'] = 'C08.a'
            c2 = run.rule_counts.setdefault('C08.a', [0, 0])
            c2[0] += 1
            c2[1] += 1 if o['ok'] else 0
        if o['rule'] == 'C06.d':
            cc = run.rule_counts['C06.d']
            cc[0] -= 1
            cc[1] -= 1 if o['ok'] else 0
            o['rule'] = 'C08.c'
            c2 = run.rule_counts.setdefault('C08.c', [0, 0])
            c2[0] += 1
            c2[1] += 1 if o['ok'] else 0
    run.rule_counts = {k: v for k, v in run.rule_counts.items() if v[0] > 0}
    # status reports on machines whose task capacity differs from their number of states (witness w_limit: capacities 1, 2, 8, 254 on
    # three states): a report for a valid state id must not depend on the task capacity
    for v in facts.variants(run.tier):
        F = facts.load('w_limit', 'P', v)
        run.guard('status reports', status_reports, run, F, effects.Effects(F))
        facts.drop(F)
        cfgmod.clear_cache()
    run.guard('report', static_units.report, run, 'C08.d', 'taskstatus')
    run.floor('C08.a', 10)
    run.floor('C08.j', 20)
    run.floor('C08.k', 4)
    run.floor('C08.l', 8)
    run.floor('C08.b', 10)
    run.floor('C08.c', 20)
    run.floor('C08.d', 40)
    run.floor('C08.e', 20)
    run.explanation = (
        'Order rules on the control-flow graph of both updatePlan specialisations (scan condition, firing under the success test of '
        'the same iterator, scoped origin, remove-after-fire, exactly-once success consumption, deferred consumption after the scan), '
        'who-may-call rules for the plan step, the status mapping evaluated on its four-row table, maxima for the status operators, '
        'an exhaustive comparison-domain evaluation of the activity predicate used by the scan (origin id 0 included), and sibling '
        'agreement of the two specialisations. The order in which tasks are visited relies on the plan list (C10).')
