"""C09 -- planSucceeded / planFailed are delivered exactly when warranted.

C09.a  [effect+order] wrapPlanFailed is called only from the FAILURE branch and wrapPlanSucceeded only from the
       SUCCESS-and-plan-empty branch of updatePlan; the branches are mutually exclusive; no task fires in the FAILURE branch;
       plan().clear() follows each callback in its branch and clears the tasks and the status bits of every state; the plan
       step runs at most once per update/react.
C09.b  [order] the plan step is dominated by a test of planExists; writers of planExists: append (true), PlanDataT::clear
       (false) only.
C09.c  definite initialisation of every scalar member of every record of the instance (shares C17.a) -- in particular
       planExists, which the plan step reads on every cycle.
C09.d  failure priority (shares C08.d).
C09.h  [effect] leaving a state clears both of its status bits whether or not a plan exists (shares C08.e)
C09.e  [must-write] the per-cycle status accumulators are reset on every path through update()/react() after the plan step.
"""
from lint import inline, facts, ir, effects, anchors, loops, records, cfg as cfgmod
from rules.c01 import who_may_call, tk_short
from rules import c08
from lint.common import AnalysisBroken

LEVEL = 'other'


def outcome_rules(run, F, E):
    for fn in F.find('FullControlT', 'updatePlan'):
        fn = inline.inlined(F, E, fn)      # private helpers extracted from the body are looked through
        label = 'payload' if not (fn.cls or '').rstrip('> ').endswith('void') else 'void'
        c = cfgmod.cfg_of(fn)
        failed = c.events(('call',), lambda n: n.e.get('m') == 'wrapPlanFailed')
        succ = c.events(('call',), lambda n: n.e.get('m') == 'wrapPlanSucceeded')
        def callee(n):
            g = F.fn(n.e['fn']) if n.e.get('fn') is not None else None
            return (g.tkey.split('::')[-1], g.m) if g is not None else (None, n.e.get('m'))
        # keyed on resolved callees / the parameter, never on local names or on the polarity a test is written in
        clears = c.events(('call',), lambda n: callee(n) in (('PlanT', 'clear'), ('PayloadPlanT', 'clear')))
        fires = c.events(('call',), lambda n: callee(n) in (('FullControlBaseT', 'changeTo'), ('FullControlT', 'changeWith')))

        def status_is(k):
            def pred(t):
                t = ir.strip(t)
                if t['k'] != 'bin' or t['op'] != '==':
                    return False
                for a_, b_ in ((t['l'], t['r']), (t['r'], t['l'])):
                    a_ = ir.strip(a_)
                    if a_['k'] == 'mem' and a_.get('f') == 'result' and ir.strip(a_['b']).get('vk') == 'param' and ir.strip(a_['b']).get('pi') == 1 and ir.const_val(b_) == k:
                        return True
                return False
            return pred

        def plan_nonempty(t):
            t = ir.strip(t)
            return t['k'] == 'call' and t.get('m') == 'operator bool' and 'PlanT<' in (t.get('cls') or '') and not (t.get('cls') or '').endswith('Iterator')
        bf = ir.find_decisions(c, status_is(2))
        bs = ir.find_decisions(c, status_is(1))
        bp = ir.find_decisions(c, plan_nonempty)
        conds = {}
        shape = len(failed) == 1 and len(succ) == 1 and len(bf) == 1 and len(bs) == 1 and len(bp) == 1
        conds['recognised shape (one FAILURE test, one SUCCESS test, one plan-non-empty test)'] = shape
        if shape:
            T, Fa = 1, 2     # index of the successor on which the condition is true / false
            conds['planFailed only on the FAILURE edge'] = c.dominates(bf[0][T], failed[0])
            conds['planSucceeded only when not FAILURE, SUCCESS, and the plan is empty'] = \
                c.dominates(bf[0][Fa], succ[0]) and c.dominates(bs[0][T], succ[0]) and c.dominates(bp[0][Fa], succ[0])
            conds['no task fires in the FAILURE branch'] = all(c.dominates(bf[0][Fa], f) for f in fires) and bool(fires)
            conds['tasks fire only while the plan is non-empty'] = all(c.dominates(bp[0][T], f) for f in fires)
            cf_ = [x for x in clears if c.dominates(failed[0], x)]
            cs_ = [x for x in clears if c.dominates(succ[0], x)]
            conds['the plan is cleared after planFailed returns'] = len(cf_) == 1 and c.dominates(bf[0][T], cf_[0])
            conds['the plan is cleared after planSucceeded returns'] = len(cs_) == 1 and c.dominates(bp[0][Fa], cs_[0])
            conds['neither callback is in a loop'] = not c.in_loop(failed[0]) and not c.in_loop(succ[0])
            # callbacks are delivered to the head state handed in
            for nme, n in (('planFailed', failed[0]), ('planSucceeded', succ[0])):
                o = ir.strip(n.e.get('obj'))
                conds['%s goes to the root state argument' % nme] = o.get('k') == 'var' and o.get('vk') == 'param' and o.get('pi') == 0
        bad = [k for k, v in conds.items() if not v]
        run.ob('C09.a', 'FullControlT<%s>::updatePlan delivers planFailed / planSucceeded only in their branches, then clears the plan [%s]' % (label, F.label()),
               not bad, where=fn.pat, detail=bad or None, key='updatePlan (%s) delivers a plan outcome when it is not warranted' % label)
    who_may_call(run, F, E, 'C09.a', {('S_', 'wrapPlanFailed'): {('FullControlT', 'updatePlan')}, ('S_', 'wrapPlanSucceeded'): {('FullControlT', 'updatePlan')}})
    # the head-state wrappers deliver exactly the matching user callback
    for m, user_m in (('wrapPlanFailed', 'planFailed'), ('wrapPlanSucceeded', 'planSucceeded')):
        for fn in F.find('S_', m):
            if anchors.is_empty_state_spec(fn):
                users = E.user_calls(fn)
                run.ob('C09.a', 'S_<Empty>::%s runs no user code' % m, not users, where=fn.pat, key='empty head %s runs user code' % m)
                continue
            c = cfgmod.cfg_of(fn)
            calls = []
            for n in c.events(('call',)):
                g, u = anchors.call_target(F, E, fn, n)
                if u is not None:
                    calls.append(u.get('m'))
                elif g is not None and g.tkey == 'ffsm2::detail::A_' and g.m in ('planFailed', 'planSucceeded'):
                    calls.append(g.m)
            run.ob('C09.a', 'S_::%s delivers %s exactly once' % (m, user_m), calls == [user_m], where=fn.pat, detail=calls,
                   key='S_::%s does not deliver %s exactly once' % (m, user_m))
    # PlanT::clear: all tasks and the status bits of every state
    for fn in F.find('PlanT', 'clear'):
        # evaluated: which (bit array, index) pairs get cleared and that the task list is emptied -- one loop or two, in any order
        from lint import symeval
        rec = F.rec_by_name.get(fn.cls) or {}
        n_states = rec.get('consts', {}).get('STATE_COUNT')
        from lint.symeval import Sym, ObjRef

        def mk(asm):
            ev = symeval.Eval(F, {'_bounds': ObjRef({'first': Sym('first'), 'last': Sym('last')}, [])}, [], asm)
            ev.primitive = lambda g, obj, args: (g.tkey == 'ffsm2::detail::BitArrayT' and g.m == 'clear') or g.m == 'clearTasks'
            return ev
        try:
            paths = symeval.explore(mk, fn, [], limit=16)
        except symeval.Refuse as ex:
            raise AnalysisBroken('PlanT::clear is outside the offset-domain fragment: %s' % ex)
        ok = n_states is not None
        cleared = {}
        for dec, sm in paths:       # on every path, whatever the plan's bounds are
            cleared = {}
            for name, obj, args in sm.events:
                if name.endswith('BitArrayT::clear') and len(args) == 1:
                    cleared.setdefault(obj.split('.')[-1], set()).add(args[0])
            tasks_cleared = any(name.endswith('clearTasks') for name, obj, args in sm.events)
            if not (n_states is not None and tasks_cleared and cleared.get('tasksSuccesses') == set(range(n_states)) and cleared.get('tasksFailures') == set(range(n_states))):
                ok = False
                break
        run.ob('C09.a', 'PlanT::clear removes every task and clears both status bits of all %s states' % n_states, ok, where=fn.pat,
               detail=None if ok else {k: sorted(map(repr, v)) for k, v in cleared.items()}, key='PlanT::clear leaves tasks or status bits behind')
    clear_tasks(run, F, E)


def clear_tasks(run, F, E, rule='C09.a'):
    for fn in F.find('PlanT', 'clearTasks'):
        c = cfgmod.cfg_of(fn)
        # by resolved callee, write paths and dominance -- not by the names of locals or by how the bounds are reached
        rm = [n for n in c.events(('call',)) if n.e.get('fn') is not None and F.fn(n.e['fn']) is not None and F.fn(n.e['fn']).tkey == 'ffsm2::detail::PlanT'
              and F.fn(n.e['fn']).m == 'remove']
        reset = set()
        for n in c.events(('write',)):
            if n.e.get('k') == 'asg' and ir.const_val(n.e['r']) == 255 and not c.in_loop(n):
                for p in E.lv(n.e['l'], fn):
                    if len(p) >= 2 and p[-1] in ('first', 'last') and p[-2] in ('tasksBounds', '_bounds'):
                        reset.add(p[-1])
        ok = len(rm) == 1 and bool(c.in_loop(rm[0])) and reset == {'first', 'last'}
        # the successor is read before the task is removed: the value the walk continues with after the removal comes from a local whose
        # declaration dominates the removal and reads a task link's `next`
        if ok:
            ok = False
            for n in c.events(('write',)):
                if n.e.get('k') == 'asg' and c.in_loop(n) and c.dominates(rm[0], n):
                    src = ir.strip(n.e['r'])
                    if src['k'] == 'var':
                        for d in c.events(('decl',)):
                            if d.e.get('id') == src.get('id') and c.dominates(d, rm[0]) and d.e.get('init') is not None and \
                                    any(x['k'] == 'mem' and x.get('f') == 'next' for x in ir.walk(d.e['init'])):
                                ok = True
        run.ob(rule, 'PlanT::clearTasks removes every linked task (successor read before removal) and resets the bounds', ok, where=fn.pat,
               key='PlanT::clearTasks does not empty the list')


def cycle_status_reset(run, F, E):
    """the per-cycle status accumulators do not survive the cycle: on every path through update()/react() both are reset
    after the plan step has read them, so a report from an earlier cycle can never warrant a plan outcome later"""
    M = effects.MustWrites(E)
    for m in ('update', 'react'):
        for fn in F.find('R_', m):
            # the plan step, looking through helper members of the root classes: at the level that contains the step, everything from
            # the step to that function's exit; at each level above, everything strictly after the call that leads to the step
            try:
                chain = anchors.chain_to(F, E, fn, lambda g: g.m == 'deepUpdatePlans' and g.tkey == 'ffsm2::detail::C_')
            except AnalysisBroken:
                chain = None
            ok = bool(chain)
            det = None
            if ok:
                f_k, c_k, n_k = chain[-1]
                mw = set(M.after(f_k, c_k, n_k))
                for (f_j, c_j, n_j) in reversed(chain[:-1]):
                    up = set()
                    for p in mw:
                        rr = E.reroot(p, n_j.e, f_j)
                        if len(rr) == 1:
                            up |= rr
                    tails = [set(M.after(f_j, c_j, s)) for s, _ in n_j.succ]
                    strictly_after = set.intersection(*tails) if tails else set()
                    mw = up | strictly_after
                need = {('core', 'planData', 'headStatus', 'result'), ('core', 'planData', 'subStatus', 'result')}
                ok = need <= mw
                det = sorted(need - mw)
            run.ob('C09.e', 'R_::%s resets the cycle status accumulators on every path after the plan step [%s]' % (m, F.label()), ok, where=fn.pat,
                   detail=det or None, key='R_::%s can carry a task status over into a later cycle' % m)
    for fn in F.find('PlanDataT', 'clearRegionStatuses'):
        ws = E.writes_star(fn)
        run.ob('C09.e', 'clearRegionStatuses resets both accumulators', ws == {('this', 'headStatus', 'result'), ('this', 'subStatus', 'result')}, where=fn.pat,
               detail=sorted(ws), key='clearRegionStatuses does not reset both accumulators')
    for fn in F.find('TaskStatus', 'clear'):
        ws = [(ir.pp(ir.strip(e['l'])), ir.const_val(e['r'])) for e in ir.all_exprs(fn) if e['k'] == 'asg']
        run.ob('C09.e', 'TaskStatus::clear sets NONE', ws == [('result', 0)], where=fn.pat, detail=ws, key='TaskStatus::clear does not reset to NONE')


RESET_MEMBERS = ['tasks', 'taskLinks', 'tasksBounds', 'tasksSuccesses', 'tasksFailures', 'planExists', 'headStatus', 'subStatus']


def reset_completeness(run, F, E, rule='C09.f'):
    """the plan state does not survive what is supposed to end it: PlanDataT::clear() definitely resets every member that carries plan
    state (task pool, every task link, bounds, every success / failure bit, the plan-exists flag, both status accumulators), and
    deactivation (R_::finalExit) as well as load() definitely go through such a full reset -- must-write analysis (loops over a whole
    fixed array count as writing every element)."""
    M = effects.MustWrites(E)
    for fn in F.find('PlanDataT', 'clear'):
        mw = M.of_function(fn)
        rec = F.rec_by_name.get(fn.cls) or {}
        have = [f['n'] for f in rec.get('fields', [])]
        # (a helper taking the plan data by reference reports the same members under the type-canonical root)
        missing = [m for m in RESET_MEMBERS if m in have and not any(p[:2] == ('this', m) or p[:3] == ('core', 'planData', m) for p in mw)]
        # an array member counts only when every element is written (a whole-array loop), a partial walk does not
        run.ob(rule, 'PlanDataT::clear() definitely resets %s' % ', '.join(m for m in RESET_MEMBERS if m in have), not missing, where=fn.pat,
               detail=missing or None, key='PlanDataT::clear() leaves plan state behind')
    for m_ in ('finalExit', 'load'):
        for fn in F.find('R_', m_):
            if m_ == 'load' and not (fn.params and 'ReadStream' in fn.params[0]['ty'] or fn.params and 'BitReadStreamT' in fn.params[0]['ty']):
                continue
            mw = M.of_function(fn)
            pd = [r for r in F.records if r.get('_tkey') == 'ffsm2::detail::PlanDataT']
            have = [f['n'] for f in (pd[0].get('fields', []) if pd else [])]
            missing = [x for x in RESET_MEMBERS if x in have and not any(p[:3] == ('core', 'planData', x) for p in mw)]
            run.ob(rule, 'R_::%s definitely resets the whole plan state (no task, report or plan-exists flag survives %s)' % (m_, 'deactivation' if m_ == 'finalExit' else 'loading'),
                   not missing, where=fn.pat, detail=missing or None, key='R_::%s lets plan state survive' % m_)


def plan_exists(run, F, E):
    for fn in F.fns:
        direct = []
        for e in ir.all_exprs(fn):
            if e['k'] == 'asg' and any(p[-1] == 'planExists' for p in E.lv(e['l'], fn)):
                direct.append(ir.const_val(e['r']))
        if direct:
            t = tk_short(fn)
            ok = (t in {('PlanT', 'append'), ('PayloadPlanT', 'append')} and direct == [1]) or (t == ('PlanDataT', 'clear') and direct == [0])
            if not ok and (anchors.is_internal_helper(F, fn) or (fn.cls is None and (fn.qn or '').startswith('ffsm2::detail::'))):
                # a helper (non-public member, or a free function of namespace detail) that sets the flag on behalf of append, or
                # resets it on behalf of PlanDataT::clear: everything that can call it is that expected writer
                who = {('PlanT', 'append'), ('PayloadPlanT', 'append')} if direct == [1] else {('PlanDataT', 'clear')} if direct == [0] else set()
                ok = bool(who) and not anchors.reached_only_from(F, E, fn, who) and bool(E.callers().get(fn.id))
            run.ob('C09.b', '%s writes planExists := %s' % (fn.short, direct), ok, where=fn.pat, key='%s writes planExists unexpectedly' % fn.short)
    for rec in F.recs('PlanDataT'):
        f = [x for x in rec['fields'] if x['n'] == 'planExists']
        ok = bool(f) and f[0].get('nsdmi') and ir.const_val(f[0].get('nsdmi_e')) == 0
        run.ob('C09.b', 'PlanDataT::planExists starts as false', ok, where=rec.get('l'), key='planExists does not start as false')


def run(run):
    pcfgs = [c for c in facts.configs(run.tier) if facts.cfg_has(c, 'P')]
    for c in pcfgs:
        for v in facts.variants(run.tier):
            F = facts.load('w_core', c, v)
            E = effects.Effects(F)
            run.count('fact units')
            run.guard('outcome rules', outcome_rules, run, F, E)
            run.guard('plan exists', plan_exists, run, F, E)
            run.guard('reset completeness', reset_completeness, run, F, E, 'C09.f')
            run.guard('status reports', c08.status_reports, run, F, E, 'C09.g')
            # a report does not outlive the activity of the state that made it: leaving a state clears both of its status bits, whether or
            # not a plan exists at that moment (shares C08.e)
            run.guard('exit clears', c08.exit_clears, run, F, E)
            run.relabel('C08.e', 'C09.h')
            run.guard('cycle status reset', cycle_status_reset, run, F, E)
            run.guard('status rules', c08.status_rules, run, F, E)
            run.guard('definite init', records.definite_init, run, 'C09.c', F)
            facts.drop(F)
            cfgmod.clear_cache()
    for o in run.obligations:
        if o['rule'] == 'C08.d':
            cc = run.rule_counts['C08.d']
            cc[0] -= 1
            cc[1] -= 1 if o['ok'] else 0
            o['rule'] = 'C09.d' if 'deepUpdatePlans' not in o['instance'] or 'C_::' not in o['instance'] else 'C09.b'
            c2 = run.rule_counts.setdefault(o['rule'], [0, 0])
            c2[0] += 1
            c2[1] += 1 if o['ok'] else 0
    run.rule_counts = {k: v for k, v in run.rule_counts.items() if v[0] > 0}
    run.floor('C09.a', 30)
    run.floor('C09.b', 20)
    run.floor('C09.c', 100)
    run.floor('C09.d', 20)
    run.floor('C09.e', 20)
    run.floor('C09.f', 4)
    run.explanation = (
        'Control-dependence rules on updatePlan (callbacks only on their branch edges, mutually exclusive, no firing in the failure '
        'branch, plan cleared afterwards), who-may-call rules for the outcome wrappers, the planExists gate and its writers, the '
        'definite-initialisation rule that makes "never on a machine to which no task has been added" independent of the memory the '
        'instance is constructed in, and the failure-priority table shared with C08.')
