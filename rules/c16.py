"""C16 -- logging is faithful and does not perturb the machine.

C16.a  [order] every S_ wrapper: on the logger-present edge exactly one method record (state id and Method enumerator of that
       wrapper) that precedes all user code of the delivery; non-verbose: for a state whose class defines the callback the
       selected log() overload records; verbose: the record is unconditional.
C16.b  [sib] request writers log the (origin, destination) they put into the request; cancelPendingTransition logs the
       origin; succeed/fail log the id and the matching status event; once per call.
C16.c  [effect] the logger slot is written only by constructors and attachLogger; every read of it is the condition of an `if`
       whose only content is one logger call with side-effect-free arguments (or the callee object of that call).
C16.d  [differential] after erasing the statements classified in C16.c, every library function has the same body with logging
       off, with the log interface, and with verbose logging.
"""
import re

from lint import facts, ir, effects, anchors, cfg as cfgmod
from lint.common import AnalysisBroken

LEVEL = 'other'

RECORDERS = {'recordMethod', 'recordTransition', 'recordTaskStatus', 'recordPlanStatus', 'recordCancelledPending'}


def is_logger_read(E, fn, e):
    if not ir.is_expr(e):
        return False
    x = ir.strip(e)
    if x['k'] == 'mem' and x['f'] == 'logger':
        return E.lv(x, fn) == {('core', 'logger')}
    return False


def logging_if(E, fn, s):
    """is statement s an `if (logger) <one logger call>;` (with or without a condition variable)?  -> (ok, problem)"""
    if s.get('s') != 'if':
        return None
    cond_reads = False
    lvar = None
    if s.get('cv') and is_logger_read(E, fn, s['cv'].get('init')):
        cond_reads = True
        lvar = s['cv']['id']
    elif is_logger_read(E, fn, s.get('c')):
        cond_reads = True
    if not cond_reads:
        return None
    if s.get('e'):
        return (False, 'logging test has an else branch')
    t = s['t']
    if t.get('s') == 'block' and len(t['b']) == 1:
        t = t['b'][0]
    if t.get('s') != 'expr':
        return (False, 'logging branch is not a single call')
    call = ir.strip(t['e'])
    if call['k'] != 'call' or not (call.get('m') in RECORDERS or call.get('m') == 'log'):
        return (False, 'logging branch calls ' + str(call.get('m')))
    # arguments: no calls except context accessors, no writes
    for a in call.get('args', []):
        for x in ir.walk(a):
            if x['k'] in ('asg', 'new', 'delete') or (x['k'] == 'un' and x['op'] in ('++', '--')):
                return (False, 'logging argument has a side effect')
            if x['k'] == 'call' and x.get('m') not in ('context', '_', 'operator*'):
                return (False, 'logging argument calls ' + str(x.get('m')))
    return (True, call)


def logger_discipline(run, F, E):
    n_sites = 0
    for fn in F.fns:
        if fn.tkey in ('ffsm2::LoggerInterfaceT',):
            continue
        reads = [x for x in ir.all_exprs(fn) if x['k'] == 'mem' and x['f'] == 'logger' and E.lv(x, fn) == {('core', 'logger')}]
        if not reads:
            continue
        accounted = 0
        problems = []
        for s in ir.walk_stmts(fn.body):
            r = logging_if(E, fn, s)
            if r is None:
                continue
            ok, info = r
            if not ok:
                problems.append(info)
                continue
            n_sites += 1
            # reads inside this statement: the condition (1) and possibly the callee object (1)
            for e0 in ir.stmt_exprs(s):
                accounted += sum(1 for x in ir.walk(e0) if x['k'] == 'mem' and x['f'] == 'logger' and E.lv(x, fn) == {('core', 'logger')})
            t = s['t']
            for ss in ir.walk_stmts(t):
                for e0 in ir.stmt_exprs(ss):
                    accounted += sum(1 for x in ir.walk(e0) if x['k'] == 'mem' and x['f'] == 'logger' and E.lv(x, fn) == {('core', 'logger')})
        writes = [x for x in ir.all_exprs(fn) if x['k'] == 'asg' and E.lv(x['l'], fn) == {('core', 'logger')}]
        init_reads = sum(1 for i in fn.inits for x in ir.walk(i.get('e')) if x['k'] == 'mem' and x['f'] == 'logger')
        if fn.kind == 'ctor' and fn.tkey == 'ffsm2::detail::CoreT':
            continue
        if writes:
            ok = fn.m == 'attachLogger'
            run.ob('C16.c', '%s is an expected writer of the logger slot' % fn.short, ok, where=fn.pat, key='%s writes the logger slot' % fn.short)
            accounted += len(writes)
        ok = not problems and accounted >= len(reads)
        run.ob('C16.c', '%s uses the logger only as `if (logger) logger->record(...)` (%d read(s))' % (fn.short, len(reads)), ok, where=fn.pat,
               detail=problems or ({'reads': len(reads), 'accounted': accounted} if not ok else None),
               key='%s lets the logger influence something other than a record call' % fn.short)
    return n_sites


def reached_records(F, g, argvals, depth=0):
    """[(argument values of a recordMethod call, call node, unconditional)] reached from function g when called with the constant
    argument values `argvals` (None = not a constant), following calls to member functions of the same state wrapper"""
    if g is None or g.body is None or depth > 4:
        return []
    cg = cfgmod.cfg_of(g)
    pv = {p['id']: (argvals[i] if i < len(argvals) else None) for i, p in enumerate(g.params)}

    def val(x):
        c0 = ir.const_val(x)
        if c0 is not None:
            return c0
        x = ir.strip(x)
        if x['k'] == 'var' and x.get('id') in pv:
            return pv[x['id']]
        return None
    out = []
    for n in cg.events(('call',)):
        uncond = cg.postdominates(n, cg.entry) and not cg.in_loop(n)
        if n.e.get('m') == 'recordMethod':
            out.append(([val(x) for x in n.e.get('args', [])], n, uncond))
        else:
            h = F.fn(n.e['fn']) if n.e.get('fn') is not None else None
            if h is not None and h.tkey == 'ffsm2::detail::S_' and h.id != g.id:
                for (vals, n2, u2) in reached_records(F, h, [val(x) for x in n.e.get('args', [])], depth + 1):
                    out.append((vals, n2, uncond and u2))
    return out


def method_records(run, F, E, verbose):
    for fn in F.find('S_'):
        if fn.m not in anchors.WRAPPERS:
            continue
        user_m, enum_name, _ = anchors.WRAPPERS[fn.m]
        want_enum = anchors.METHOD_ENUM.index(enum_name)
        sid = anchors.state_id_of(F, fn)
        c = cfgmod.cfg_of(fn)
        logs = c.events(('call',), lambda n: n.e.get('m') in ('log', 'recordMethod'))
        user = []
        defines = False
        for n in c.events(('call',)):
            g, u = anchors.call_target(F, E, fn, n)
            if u is not None:
                user.append(n)
                if u.get('m') == user_m:
                    defines = True
            elif g is not None and g.tkey == 'ffsm2::detail::A_':
                user.append(n)
        ok = len(logs) == 1
        det = None
        if ok:
            ln = logs[0]
            e = ln.e
            deps = c.control_deps(ln)
            conds = {
                'guarded only by the logger test': len(deps) == 1 and deps[0].e is not None and 'logger' in ir.pp(deps[0].e),
                'precedes all user code': all(c.dominates(deps[0], u) for u in user) if deps else False,
                'not in a loop': not c.in_loop(ln),
            }
            if e.get('m') == 'recordMethod':
                a = e.get('args', [])
                conds['names this state (%s)' % sid] = len(a) == 3 and ir.const_val(a[1]) == sid
                conds['names this method (%s)' % enum_name] = len(a) == 3 and ir.const_val(a[2]) == want_enum
                conds['verbose: unconditional record'] = verbose
            else:
                a = e.get('args', [])
                conds['names this method (%s)' % enum_name] = len(a) == 4 and ir.const_val(a[3]) == want_enum
                g = F.fn(e['fn']) if e.get('fn') is not None else None
                if defines:
                    # the records reached from the selected log() overload, looking through helper members of the state wrapper, with the
                    # arguments propagated: exactly one, unconditional at every level, naming this state and the method passed in
                    recs = reached_records(F, g, [ir.const_val(x) for x in a]) if g is not None else []
                    okr = len(recs) == 1 and recs[0][2] and len(recs[0][0]) == 3 and recs[0][0][1] == sid and recs[0][0][2] == want_enum
                    conds['the state defines %s, so the selected log() overload records (state %s)' % (user_m, sid)] = okr
            bad = [k for k, v in conds.items() if not v]
            if bad:
                ok = False
                det = bad
        else:
            det = {'log calls': len(logs)}
        run.ob('C16.a', 'S_<%s>::%s emits one %s record before its user code [%s]' % (sid, fn.m, enum_name, F.label()), ok, where=fn.pat,
               detail=det, key='S_::%s does not emit exactly one faithful method record' % fn.m)


def find_record(fn, name):
    return [x for x in ir.all_exprs(fn) if x['k'] == 'call' and x.get('m') == name]


def action_records(run, F, E):
    # request writers
    for tk, m in (('R_', 'changeTo'), ('RP_', 'changeWith'), ('FullControlBaseT', 'changeTo'), ('FullControlT', 'changeWith')):
        for fn in F.find(tk, m):
            if not fn.params or fn.params[0]['n'] != 'stateId_':
                continue
            fn = anchors.through_forwarders(F, fn)       # a public wrapper that only forwards to a non-public implementation
            recs = find_record(fn, 'recordTransition')
            ctors = [x for x in ir.all_exprs(fn) if x['k'] == 'ctor' and (x.get('cls') or '').startswith('ffsm2::detail::TransitionT<') and not (x.get('copy') or x.get('move'))]
            ok = len(recs) == 1 and len(ctors) == 1
            det = None
            if ok:
                g = F.fn(ctors[0]['fn'])
                pn = [p['n'] for p in g.params] if g is not None else []
                if g is not None and g.d.get('inherits') is not None and not all(pn):
                    h = F.fn(g.d['inherits'])
                    pn = [p['n'] for p in h.params] if h is not None else pn
                amap = dict(zip(pn, [ir.pp(ir.strip(a)) for a in ctors[0].get('args', [])]))
                origin = amap.get('origin_', '255')       # default member initialiser of TransitionBase::origin
                dest = amap.get('destination_')
                ra = [ir.pp(ir.strip(a)) for a in recs[0].get('args', [])]
                lo = ra[1] if len(ra) == 3 else None
                if lo is not None and lo.endswith('(255)'):
                    lo = '255'
                ok = len(ra) == 3 and lo == origin and ra[2] == dest
                det = {'request': amap, 'record': ra}
                c = cfgmod.cfg_of(fn)
                rn = c.events(('call',), lambda n: n.e.get('m') == 'recordTransition')
                ok = ok and len(rn) == 1 and not c.in_loop(rn[0])
                if ok:
                    # one record per call: nothing but the logger test (and the control lock, which also suppresses the request) gates it
                    gates = [ir.pp(ir.strip(b.e)) for b in c.control_deps_closure(rn[0]) if b.e is not None]
                    extra = [g for g in gates if 'logger' not in g and '_locked' not in g]
                    if extra:
                        ok = False
                        det = {'the record is conditional on': extra}
            run.ob('C16.b', '%s::%s logs the origin and destination it requests [%s]' % (tk, m, F.label()), ok, where=fn.pat, detail=None if ok else det,
                   key='%s::%s logs something other than its request' % (tk, m))
    for fn in F.find('GuardControlT', 'cancelPendingTransition'):
        recs = find_record(fn, 'recordCancelledPending')
        ok = len(recs) == 1 and ir.strip(recs[0]['args'][1]).get('f') == '_originId'
        if ok:
            c = cfgmod.cfg_of(fn)
            rn = c.events(('call',), lambda n: n.e.get('m') == 'recordCancelledPending')
            ok = len(rn) == 1 and all('logger' in ir.pp(ir.strip(b.e)) for b in c.control_deps_closure(rn[0]) if b.e is not None)
        run.ob('C16.b', 'cancelPendingTransition logs one cancellation with the caller as origin [%s]' % F.label(), ok, where=fn.pat,
               key='cancelPendingTransition does not log its cancellation faithfully')
    for tk in ('FullControlBaseT', 'R_'):
        for m, bits, ev in (('succeed', 'tasksSuccesses', 0), ('fail', 'tasksFailures', 1)):
            for fn in F.find(tk, m):
                if len(fn.params) != 1:
                    continue
                fn = anchors.through_forwarders(F, fn)
                recs = find_record(fn, 'recordTaskStatus')
                sets = [x for x in ir.all_exprs(fn) if x['k'] == 'call' and x.get('m') == 'set' and ir.is_expr(x.get('obj'))]
                ok = len(recs) == 1 and len(sets) == 1
                if ok:
                    ra = recs[0]['args']
                    ok = ir.strip(ra[1]).get('pi') == 0 and ir.const_val(ra[2]) == ev and ir.pp(ir.strip(sets[0]['obj'])).endswith(bits) and \
                        ir.strip(sets[0]['args'][0]).get('pi') == 0
                    c = cfgmod.cfg_of(fn)
                    rn = c.events(('call',), lambda n: n.e.get('m') == 'recordTaskStatus')
                    ok = ok and len(rn) == 1 and all('logger' in ir.pp(ir.strip(b.e)) for b in c.control_deps_closure(rn[0]) if b.e is not None)
                run.ob('C16.b', '%s::%s(id) sets %s[id] and logs (id, %s) once [%s]' % (tk, m, bits, 'SUCCEEDED' if ev == 0 else 'FAILED', F.label()), ok,
                       where=fn.pat, key='%s::%s does not log its status report faithfully' % (tk, m))


# ---------------------------------------------------------------------------------------------- differential
TAG = re.compile(r"G_<\d+, ")
TAG2 = re.compile(r"LoggerInterfaceT<\d+, ")


def norm_name(s):
    return TAG2.sub('LoggerInterfaceT<#, ', TAG.sub('G_<#, ', s or ''))


def body_text(E, fn):
    def erase(s):
        r = logging_if(E, fn, s)
        return r is not None and r[0]
    txt = ir.pp_stmt(fn.body, erase) if fn.body is not None else ''
    inits = []
    for i in fn.inits:
        if i.get('name') in ('logger', 'TYPE'):
            continue      # feature-owned members
        e = i.get('e')
        t = ir.pp(e)
        inits.append('%s:%s' % (i.get('name'), t))
    t = '\n'.join(inits) + '\n' + txt
    t = re.sub(r',\s*(?:move\()?(?:other\.)?logger_?\)?(?=[,}\)])', '', t)
    return norm_name(t)


LOG_OWNED = lambda fn: fn.tkey == 'ffsm2::LoggerInterfaceT' or fn.m in ('log', 'attachLogger')


def differential(run, base_cfg, log_cfg, variant):
    A = facts.load('w_core', base_cfg, variant)
    B = facts.load('w_core', log_cfg, variant)
    EA, EB = effects.Effects(A), effects.Effects(B)

    def index(F, E):
        d = {}
        for fn in F.fns:
            if fn.d.get('implicit'):
                continue      # compiler-generated members have no library source; which ones exist depends on the witness' usage
            key = (fn.pat, norm_name(fn.cls or ''), fn.m if fn.kind not in ('ctor', 'dtor') else fn.kind + ':' + str(fn.d.get('ctorkind')), len(fn.params) if fn.kind != 'ctor' else 0,
                   norm_name(','.join(fn.d.get('ftargs') or [])))
            d.setdefault(key, []).append(fn)
        return d
    ia, ib = index(A, EA), index(B, EB)
    same = diff = only_b = 0
    first = None
    for key, fb in ib.items():
        fa = ia.get(key)
        if fa is None:
            # instantiated only with logging (e.g. default callbacks whose address the log macro takes): what matters is who
            # calls them, and the callers' bodies are compared below
            only_b += len(fb)
            continue
        ta = sorted(body_text(EA, f) for f in fa)
        tb = sorted(body_text(EB, f) for f in fb)
        if ta == tb:
            same += 1
        else:
            diff += 1
            if first is None:
                first = (fb[0], ta[0][:300], tb[0][:300])
            run.ob('C16.d', '%s has the same body with and without logging [%s vs %s]' % (fb[0].short, base_cfg or 'none', log_cfg), False, where=fb[0].pat,
                   detail={'without': ta[0][:400], 'with': tb[0][:400]}, key='%s behaves differently when logging is enabled' % fb[0].short)
    run.ob('C16.d', '%d function groups are identical modulo logging statements [%s vs %s, %s]; %d exist only with logging' % (same, base_cfg or 'none', log_cfg, variant, only_b),
           diff == 0 and same > 200, key='library code differs between %s and %s beyond logging statements' % (base_cfg or 'none', log_cfg))
    run.count('function groups compared', same + diff)
    facts.drop(A)
    facts.drop(B)


def run(run):
    lcfgs = [c for c in facts.configs(run.tier) if facts.cfg_has(c, 'L')]
    for c in lcfgs:
        for v in facts.variants(run.tier):
            F = facts.load('w_core', c, v)
            E = effects.Effects(F)
            run.count('fact units')
            sites = logger_discipline(run, F, E)
            run.count('logging sites', sites)
            run.guard('method records', method_records, run, F, E, 'V' in c)
            run.guard('action records', action_records, run, F, E)
            facts.drop(F)
            cfgmod.clear_cache()
    pairs = [('', 'L'), ('P', 'PL') if run.tier == 'thorough' else ('PSH', 'PSHL'), ('', 'V') if run.tier == 'thorough' else ('PH', 'PHV')]
    # configurations needed for the pairs may be outside the tier's standard list: they are extracted on demand
    for a, b in pairs:
        for v in facts.variants(run.tier):
            run.guard('differential', differential, run, a, b, v)
    run.floor('C16.a', 200)
    run.floor('C16.b', 30)
    run.floor('C16.c', 100)
    run.floor('C16.d', 3)
    run.explanation = (
        'Order rules on every S_ wrapper (one record of the right kind and state on the logger edge, before any user code; '
        'overload selection for states that define the callback), argument agreement between what request writers / '
        'cancellations / status reports do and what they log, an effect rule that the logger slot only ever guards a single '
        'record call with side-effect-free arguments, and a differential comparison of all function bodies with logging off / '
        'on / verbose after erasing exactly those statements.')
