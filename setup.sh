#!/bin/sh
# Builds the fact extractor (engine E1) from /verif/tool against the pre-installed LLVM 14. Offline; ~20 s.
set -e
cd "$(dirname "$0")"
mkdir -p .build .cache/facts evidence reports
SRC=tool/ffsm2_facts.cc
OUT=.build/ffsm2-facts
if [ ! -x "$OUT" ] || [ "$SRC" -nt "$OUT" ]; then
  clang++ $(llvm-config-14 --cxxflags) -fno-rtti -O1 "$SRC" -o "$OUT" \
    /usr/lib/llvm-14/lib/libclang-cpp.so.14 /usr/lib/llvm-14/lib/libLLVM-14.so
fi
echo "setup ok: $OUT"
