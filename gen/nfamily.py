"""E3: generated type-level witnesses for machines with N = 1..255 states (C12.b, C13.a, C14.a).

Every fact asserted here is a compile-time constant of the library itself (state ids, prong bounds of the
library's own CS_ tree reached from R_::Apex, WIDTH_BITS, SERIAL_BITS, buffer extents). The compiler's type
checker discharges them; nothing is executed and no runtime function is evaluated through constexpr.
"""
import os
import re
import subprocess
import concurrent.futures as cf

from lint import common, facts
from lint.common import AnalysisBroken

QUICK_N = list(range(1, 18)) + [31, 32, 33, 63, 64, 65, 127, 128, 129, 254, 255]
THOROUGH_N = list(range(1, 256))

PRELUDE = r'''
#include <type_traits>
#include "w_common.hpp"

namespace vn {
using namespace ffsm2;
using namespace ffsm2::detail;

template <typename TCS, long LO, long HI>
struct Walk;

// split node
template <StateID NN, typename TA, Short NP, typename T1, typename T2, typename... TS, long LO, long HI>
struct Walk<CS_<NN, TA, NP, TL_<T1, T2, TS...>>, LO, HI> {
	using Node = CS_<NN, TA, NP, TL_<T1, T2, TS...>>;
	using L = typename Node::LHalf;
	using R = typename Node::RHalf;
	static constexpr long MID = Node::R_PRONG;

	static_assert(Node::INITIAL_ID  == LO, "VERIF C14.a split.initial_id");
	static_assert(Node::PRONG_INDEX == LO, "VERIF C14.a split.prong_index");
	static_assert(Node::L_PRONG     == LO, "VERIF C14.a split.l_prong");
	static_assert(2 + sizeof...(TS) == HI - LO, "VERIF C14.a split.size");
	static_assert(LO < MID && MID < HI,     "VERIF C14.a split.r_prong_strictly_inside");
	static_assert(std::is_base_of<L, Node>::value && std::is_base_of<R, Node>::value, "VERIF C14.a split.halves_are_bases");

	static constexpr bool OK = Walk<L, LO, MID>::OK && Walk<R, MID, HI>::OK;
};

// leaf
template <StateID NN, typename TA, Short NP, typename T, long LO, long HI>
struct Walk<CS_<NN, TA, NP, TL_<T>>, LO, HI> {
	using Node = CS_<NN, TA, NP, TL_<T>>;
	using Single = typename Node::Single;

	static_assert(HI == LO + 1,               "VERIF C14.a leaf.range");
	static_assert(NN == LO,                   "VERIF C14.a leaf.state_id_param");
	static_assert(Node::PRONG_INDEX == LO,    "VERIF C14.a leaf.prong_index");
	static_assert(Single::STATE_ID == LO,     "VERIF C14.a leaf.single_state_id");
	static_assert(std::is_same<typename Single::Head, T>::value, "VERIF C14.a leaf.head_is_state");
	static_assert(index<typename TA::StateList, T>() == LO,     "VERIF C14.a leaf.index_is_position");
	static_assert(std::is_base_of<T, Node>::value,               "VERIF C14.a leaf.state_is_base");

	static constexpr bool OK = true;
};

template <typename TFSM>
struct Probe : R_<typename TFSM::Config, typename TFSM::Apex> {
	using Root  = R_<typename TFSM::Config, typename TFSM::Apex>;
	using ApexT = typename Root::Apex;
	using ArgsT_ = typename Root::Args;
};

}
'''


def gen_tu(n, headed):
    names = ['S%d' % i for i in range(n)]
    L = [PRELUDE]
    L.append('namespace m {')
    L.append('using M = ffsm2::Machine;')
    if headed:
        L.append('struct H;')
    for s in names:
        L.append('struct %s;' % s)
    roots = ', '.join((['H'] if headed else []) + names)
    L.append('using FSM = M::%s<%s>;' % ('Root' if headed else 'PeerRoot', roots))
    if headed:
        L.append('struct H : FSM::State {};')
    for s in names:
        L.append('struct %s : FSM::State {};' % s)
    L.append('using P = vn::Probe<FSM>;')
    L.append('using Apex = P::ApexT;')
    L.append('using Args = P::ArgsT_;')
    L.append('static_assert(std::is_base_of<P::Root, FSM::Instance>::value, "VERIF C14.a root.is_instance_base");')
    L.append('static_assert(std::is_same<Args::StateList, ffsm2::detail::TL_<%s>>::value, "VERIF C14.a root.state_list_is_declaration");' % ', '.join(names))
    L.append('static_assert(Args::STATE_COUNT == %d, "VERIF C14.a root.state_count");' % n)
    for i, s in enumerate(names):
        L.append('static_assert(FSM::stateId<%s>() == %d, "VERIF C14.a id.position");' % (s, i))
    L.append('static_assert(Apex::HeadState::STATE_ID == ffsm2::INVALID_STATE_ID, "VERIF C14.a head.invalid_id");')
    if headed:
        L.append('static_assert(FSM::stateId<H>() == ffsm2::INVALID_STATE_ID, "VERIF C14.a head.not_in_list");')
        L.append('static_assert(std::is_same<Apex::HeadState::Head, H>::value, "VERIF C14.a head.is_declared_head");')
    L.append('static_assert(Apex::WIDTH == %d, "VERIF C14.a root.width");' % n)
    L.append('static_assert(vn::Walk<Apex::SubStates, 0, %d>::OK, "VERIF C14.a root.walk");' % n)
    L.append('static_assert(std::is_base_of<Apex::SubStates, Apex>::value, "VERIF C14.a root.substates_are_base");')
    # C12.b / C13.a
    L.append('#ifdef FFSM2_ENABLE_SERIALIZATION')
    L.append('static_assert((1ul << Apex::WIDTH_BITS) >= %dul, "VERIF C12.b width_bits_injective");' % n)
    L.append('static_assert(Apex::WIDTH_BITS <= 8, "VERIF C12.b width_bits_fit_prong");')
    L.append('static_assert(Apex::WIDTH_BITS == ffsm2::bitWidth(Apex::WIDTH), "VERIF C12.b width_bits_is_bitwidth");')
    L.append('static_assert(FSM::SERIAL_BITS == 1 + Apex::WIDTH_BITS, "VERIF C12.b serial_bits");')
    L.append('static_assert(Args::SERIAL_BITS == FSM::SERIAL_BITS, "VERIF C12.b args_serial_bits");')
    L.append('static_assert(FSM::Instance::SerialBuffer::BIT_CAPACITY == FSM::SERIAL_BITS, "VERIF C12.b buffer_bit_capacity");')
    L.append('static_assert(FSM::Instance::SerialBuffer::BYTE_COUNT * 8 >= FSM::SERIAL_BITS, "VERIF C12.b buffer_bytes_suffice");')
    L.append('static_assert(sizeof(FSM::Instance::SerialBuffer) == FSM::Instance::SerialBuffer::BYTE_COUNT, "VERIF C12.b buffer_is_exactly_the_bytes");')
    L.append('static_assert(std::is_same<Args::WriteStream, ffsm2::detail::BitWriteStreamT<FSM::SERIAL_BITS>>::value, "VERIF C12.b write_stream_capacity");')
    L.append('static_assert(std::is_same<Args::ReadStream, ffsm2::detail::BitReadStreamT<FSM::SERIAL_BITS>>::value, "VERIF C12.b read_stream_capacity");')
    L.append('#endif')
    L.append('}')
    return '\n'.join(L) + '\n'


def obligations_count(n, headed):
    """static_assert instances the TU discharges: {rule prefix: {assertion name: instance count}}."""
    c14 = {'root.is_instance_base': 1, 'root.state_list_is_declaration': 1, 'root.state_count': 1,
           'id.position': n, 'head.invalid_id': 1, 'root.width': 1, 'root.walk': 1, 'root.substates_are_base': 1}
    if headed:
        c14['head.not_in_list'] = 1
        c14['head.is_declared_head'] = 1
    for k in ('leaf.range', 'leaf.state_id_param', 'leaf.prong_index', 'leaf.single_state_id', 'leaf.head_is_state',
              'leaf.index_is_position', 'leaf.state_is_base'):
        c14[k] = n
    if n > 1:
        # a binary tree with n leaves has n-1 inner nodes
        for k in ('split.initial_id', 'split.prong_index', 'split.l_prong', 'split.size',
                  'split.r_prong_strictly_inside', 'split.halves_are_bases'):
            c14[k] = n - 1
    c12 = {k: 1 for k in ('width_bits_injective', 'width_bits_fit_prong', 'width_bits_is_bitwidth', 'serial_bits',
                          'args_serial_bits', 'buffer_bit_capacity', 'buffer_bytes_suffice',
                          'buffer_is_exactly_the_bytes', 'write_stream_capacity', 'read_stream_capacity')}
    return {'C14.a': c14, 'C12.b': c12}


ERR = re.compile(r'error: static_assert failed[^"]*"(VERIF [^"]*)"|error: static assertion failed: (VERIF [^\n]*)')


def compile_tu(job):
    n, headed, cxx, std, variant = job
    src_dir = os.path.join(common.BUILD_DIR, 'nfam')
    os.makedirs(src_dir, exist_ok=True)
    # one file per job and process: concurrent jobs / concurrent checks must not truncate a unit another compiler is reading
    name = 'n%d_%s-%s-%s-%s-%d' % (n, 'h' if headed else 'p', cxx.replace('+', 'x'), std.replace('+', 'x'), variant, os.getpid())
    src = os.path.join(src_dir, name + '.cpp')
    text = gen_tu(n, headed)
    with open(src, 'w') as f:
        f.write(text)
    cmd = [cxx, '-std=' + std, '-fsyntax-only'] + (['-fno-crash-diagnostics'] if cxx.startswith('clang') else []) + ['-I' + facts.WITNESS_DIR, '-DFFSM2_ENABLE_SERIALIZATION=',
           '-ftemplate-depth=2048'] + facts.variant_flags(variant) + [src]
    cmd.insert(1, '-ferror-limit=0' if cxx.startswith('clang') else '-fmax-errors=0')
    p = subprocess.run(cmd, stdout=subprocess.PIPE, stderr=subprocess.STDOUT, universal_newlines=True)
    try:
        return _compile_tu_rest(job, cmd, p)
    finally:
        try:
            os.unlink(src)
        except OSError:
            pass


def _compile_tu_rest(job, cmd, p):
    for attempt in range(2):
        # a compiler that dies on a signal / internal error says nothing about the code: retry, then give up as broken
        if p.returncode in (0, 1) and 'frontend command failed' not in p.stdout and 'internal compiler error' not in p.stdout:
            break
        p = subprocess.run(cmd, stdout=subprocess.PIPE, stderr=subprocess.STDOUT, universal_newlines=True)
    if p.returncode not in (0, 1) or 'frontend command failed' in p.stdout or 'internal compiler error' in p.stdout:
        return job, -99, [], ['compiler crashed: ' + p.stdout.strip().splitlines()[-1][:200] if p.stdout.strip() else 'compiler crashed']
    failed = []
    other_errors = []
    for line in p.stdout.splitlines():
        m = ERR.search(line)
        if m:
            failed.append((m.group(1) or m.group(2)).strip())
        elif ' error: ' in line:
            other_errors.append(line.strip()[:300])
    return job, p.returncode, failed, other_errors


_cache = {}


def results(tier):
    """{(n, headed, cxx, std, variant): (rc, failed_msgs, other_errors)} -- computed once per process,
    cached on disk keyed by the header contents."""
    if tier in _cache:
        return _cache[tier]
    import json
    ns = THOROUGH_N if tier == 'thorough' else QUICK_N
    if tier == 'thorough':
        combos = [('clang++', 'c++11', 'inc'), ('g++', 'c++11', 'inc'), ('clang++', 'c++17', 'dev')]
    else:
        combos = [('clang++', 'c++11', 'inc')]
    jobs = [(n, h, cxx, std, v) for n in ns for h in (False, True) for (cxx, std, v) in combos]
    # extra: the other compiler on the extreme sizes in the quick tier
    if tier != 'thorough':
        for n in (1, 2, 3, 255):
            for h in (False, True):
                jobs.append((n, h, 'g++', 'c++11', 'inc'))
    key = common.sha(facts.repo_hash(), facts.witness_hash(), PRELUDE, gen_tu(3, True), repr(jobs))
    cache_dir = common.CACHE_DIR if os.path.realpath(common.REPO) == os.path.realpath('/repo') else os.path.join(common.REPO, '.verif-facts')
    os.makedirs(cache_dir, exist_ok=True)
    if cache_dir == common.CACHE_DIR:
        for f in os.listdir(cache_dir):
            if f.startswith('nfam-%s-' % tier) and f != 'nfam-%s-%s.json' % (tier, key):
                os.unlink(os.path.join(cache_dir, f))
    cache_file = os.path.join(cache_dir, 'nfam-%s-%s.json' % (tier, key))
    if os.path.exists(cache_file):
        with open(cache_file) as f:
            raw = json.load(f)
        res = {tuple(k): tuple(v) for k, v in raw}
        _cache[tier] = res
        return res
    res = {}
    # biggest first for better packing
    jobs.sort(key=lambda j: -j[0])
    with cf.ThreadPoolExecutor(max_workers=int(os.environ.get('VERIF_JOBS', '12'))) as ex:
        for job, rc, failed, other in ex.map(compile_tu, jobs):
            res[job] = (rc, failed, other)
    # a unit on which the compiler died (bus error / out of memory while a dozen large units were in flight) is compiled again on its
    # own, with nothing else running, before the crash is taken as final
    import time
    for job in [j for j, v in res.items() if v[0] == -99]:
        time.sleep(2)
        res[job] = compile_tu(job)[1:]
    os.makedirs(common.CACHE_DIR, exist_ok=True)
    if any(v[0] == -99 for v in res.values()):
        _cache[tier] = res
        return res
    tmp = '%s.%d.tmp' % (cache_file, os.getpid())
    with open(tmp, 'w') as f:
        json.dump([[list(k), list(v)] for k, v in res.items()], f)
    os.replace(tmp, cache_file)        # atomically: another check may be reading the cache
    _cache[tier] = res
    return res


def report(run, tier, rule_prefix):
    """Turn the N-family results into obligations for one rule prefix ('C14.a' or 'C12.b')."""
    res = results(tier)
    total = 0
    for (n, headed, cxx, std, variant), (rc, failed, other) in sorted(res.items()):
        inst = 'N=%d %s %s -std=%s %s' % (n, 'Root' if headed else 'PeerRoot', cxx, std, variant)
        mine = [m for m in failed if m.startswith('VERIF ' + rule_prefix)]
        foreign = [m for m in failed if not m.startswith('VERIF ' + rule_prefix)]
        kinds = obligations_count(n, headed)[rule_prefix]
        total += sum(kinds.values())
        if rc == -99:
            raise AnalysisBroken('the compiler crashed on an N-family unit (%s): %s' % (inst, (other or ['?'])[0]))
        if rc != 0 and not failed:
            # the unit does not compile for a reason that is none of the type-level obligations: no verdict on the property (the feature
            # matrix C19.a is what reports a library that no longer compiles)
            raise AnalysisBroken('N-family unit does not compile (%s): %s' % (inst, re.sub(r"'[^']{30,}'", "'...'", (other or ['?'])[0].split('error:')[-1])[:160]))
        by_msg = {}
        for m in mine:
            by_msg[m] = by_msg.get(m, 0) + 1
        for kind, cnt in sorted(kinds.items()):
            bad = by_msg.get('VERIF %s %s' % (rule_prefix, kind), 0)
            run.ob(rule_prefix, '%s: %s x%d' % (inst, kind, cnt), bad == 0,
                   detail=None if not bad else '%d of %d static_assert instance(s) fail' % (bad, cnt),
                   key='%s fails' % kind)
        run.count(rule_prefix + ' static_assert instances', sum(kinds.values()))
    run.count('N-family units', len(res))
    sizes = sorted(set(k[0] for k in res))
    run.extra.setdefault('n_family', {})['sizes'] = '%d..%d (%d sizes)' % (sizes[0], sizes[-1], len(sizes))
    if tier == 'thorough':
        run.extra['exhaustive'] = True
    return total
