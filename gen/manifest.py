#!/usr/bin/env python3
"""Writes /verif/MANIFEST.json from the table below (kept in one place so it stays consistent)."""
import json
import os

HERE = os.path.dirname(os.path.dirname(os.path.abspath(__file__)))

BASELINE = "cmake --build /repo/_build && /repo/_build/ffsm2_test"

# property id -> dict(category, text, note, technique, design_ref) for claimed properties
CLAIMED = {}
# property id -> reason, for properties not claimed (yet)
NOT_CLAIMED = {}


def claim(pid, category, text, note, technique, design_ref):
    CLAIMED[pid] = dict(category=category, text=text, note=note, technique=technique, design_ref=design_ref)


claim('C19', 'other',
      "Decides all three clauses statically: every one of the 2^8 switch combinations (+FFSM2_ENABLE_ALL) type-checks "
      "with the repository's warning flags as errors (quick: clang++ c++11 shipped header, plus both compilers x 4 "
      "standards x both header variants on the corner combinations; thorough: 2 compilers x 4 standards x 2 variants x "
      "all combinations); the shipped single header is byte-identical to a fresh tools/join.py run and to an independent "
      "re-implementation of the merge; per-feature differential comparison of the extracted facts shows that switching a "
      "feature on only adds code that touches feature-owned state.",
      "Trusted: clang 14 / gcc 12 front ends; witness w_core as the set of API uses that must compile. 'Observable "
      "behaviour unchanged' is decided as 'the feature-neutral functions have identical event summaries', not by running.",
      "feature-matrix type checking + byte-level translation validation of the amalgamation + differential AST facts",
      "DESIGN.md section 4 C19")

ALL = ['C%02d' % i for i in range(1, 21)]
for p in ALL:
    if p not in CLAIMED:
        NOT_CLAIMED[p] = "check under construction in this round (see DESIGN.md section 4 %s for the planned rules); not claimed until its rules run" % p


def main():
    checks = []
    for pid in ALL:
        if pid not in CLAIMED:
            continue
        c = CLAIMED[pid]
        checks.append({
            'property_id': pid,
            'quick_cmd': './check %s --tier quick' % pid,
            'thorough_cmd': './check %s --tier thorough' % pid,
            'evidence_file': 'evidence/%s.json' % pid,
            'replay_cmd_template': './check %s --replay {path}' % pid,
            'engine': 'ffsm2lint',
            'level_claimed': {'category': c['category'], 'text': c['text'], 'design_ref': c['design_ref']},
            'level_note': c['note'],
            'technique': c['technique'],
        })
    man = {
        'version': 1,
        'setup_cmd': './setup.sh',
        'hooks': {
            'guard': 'FFSM2_VERIF',
            'enable': 'no hooks: the analyses read /repo through the compiler front end and add nothing to it',
            'baseline_off_cmd': BASELINE,
            'source_commits': [],
            'add_only': True,
        },
        'engines': [
            {'name': 'ffsm2-facts', 'path': 'tool/ffsm2_facts.cc', 'serves_properties': sorted(CLAIMED),
             'kind_free_text': 'libTooling fact extractor over instantiated FFSM2 code (type-checked AST, resolved callees, record layouts)'},
            {'name': 'ffsm2lint', 'path': 'lint/', 'serves_properties': sorted(CLAIMED),
             'kind_free_text': 'Python analyses over the facts: call graph / effect sets, CFG order rules, finite-domain abstract interpretation, comparison-domain evaluation, sibling agreement'},
            {'name': 'type-level witnesses', 'path': 'gen/', 'serves_properties': [p for p in ('C07', 'C12', 'C13', 'C14', 'C18') if p in CLAIMED],
             'kind_free_text': 'generated static_assert / must-not-compile units discharged by clang++ and g++ -fsyntax-only'},
        ],
        'checks': checks,
        'not_applicable': [{'property_id': p, 'reason': r} for p, r in sorted(NOT_CLAIMED.items())],
        'notes': 'Technique family: static analysis only. Exit 2 from a check means "analysis broken" (anchor vanished, '
                 'witness no longer compiles for an unrelated reason, unknown idiom) and is never a verdict.',
    }
    with open(os.path.join(HERE, 'MANIFEST.json'), 'w') as f:
        json.dump(man, f, indent=1)
    print('MANIFEST.json: %d claimed, %d not claimed' % (len(checks), len(NOT_CLAIMED)))


if __name__ == '__main__':
    main()
