#!/usr/bin/env python3
"""Writes /verif/MANIFEST.json from the table below (kept in one place so it stays consistent)."""
import json
import os

HERE = os.path.dirname(os.path.dirname(os.path.abspath(__file__)))

BASELINE = "cmake --build /repo/_build && /repo/_build/ffsm2_test"

# property id -> dict(category, text, note, technique, design_ref) for claimed properties
CLAIMED = {}
# property id -> reason, for properties not claimed (yet)
NOT_CLAIMED = {}


def claim(pid, category, text, note, technique, design_ref):
    CLAIMED[pid] = dict(category=category, text=text, note=note, technique=technique, design_ref=design_ref)


claim('C19', 'other',
      "Decides all three clauses statically: every one of the 2^8 switch combinations (+FFSM2_ENABLE_ALL) type-checks "
      "with the repository's warning flags as errors (quick: clang++ c++11 shipped header, plus both compilers x 4 "
      "standards x both header variants on the corner combinations; thorough: 2 compilers x 4 standards x 2 variants x "
      "all combinations); the shipped single header is byte-identical to a fresh tools/join.py run and to an independent "
      "re-implementation of the merge; per-feature differential comparison of the extracted facts shows that switching a "
      "feature on only adds code that touches feature-owned state; the logging differential of C16 (bodies identical after erasing exactly the log statements) is an obligation here too; the plan feature's code stays inside its own bit arrays for every id the library feeds into it (C19.d = C18.h); the configuration setters mean the same with and without the plan feature, in every order (C19.e); the per-feature differential includes pairs in which the plan feature is on on both sides, so plan code that is conditional on another feature's switch is seen (C19.b).",
      "Trusted: clang 14 / gcc 12 front ends; witness w_core as the set of API uses that must compile. 'Observable "
      "behaviour unchanged' is decided as 'the feature-neutral functions have identical event summaries', not by running.",
      "feature-matrix type checking + byte-level translation validation of the amalgamation + differential AST facts",
      "DESIGN.md section 4 C19")

claim('C07', 'other',
      "Decides the structural clauses: payload storage layout (size, offset, record alignment) is right for the payload "
      "type for 12 payload types in TransitionT and TaskT and in every record embedding them; payload constructors set "
      "payloadSet and placement-copy their payload parameter; no user-declared copy operations, so copies are memberwise; "
      "payload() returns the storage iff payloadSet; the whole-object copy chain request -> pending -> current -> previous "
      "as must-equalities (flow clause). Equality of payload bytes for every value is NOT decided (language-level "
      "memberwise copy is trusted). Every request writer replaces the whole request object, so no payload flag or bytes of an earlier request survive in the slot (C07.f). The payload type configured with Config::PayloadT survives every order of the configuration setters (C07.g, 120 permutations, type-level).",
      "Trusted: clang's record layout for the x86-64 target of this sandbox; witness w_pay as the family of payload types.",
      "type-level layout facts + evaluated constructors (delegation, placement-new) + must-equality dataflow + comparison-domain evaluation of the drop predicate",
      "DESIGN.md section 4 C07")

claim('C14', 'proof',
      "Type-level proof over the library's own compile-time structure: for N states (quick 31 sizes up to 255, thorough "
      "every N in 1..255, PeerRoot and Root, two compilers) stateId<S_k>() == k, the head has the invalid id, and a "
      "template walker over the CS_ tree reached from R_::Apex shows every leaf k wraps S_k with STATE_ID == PRONG_INDEX "
      "== k and every split node partitions its range at R_PRONG; a structural rule over every instantiated CS_ "
      "dispatcher (branch on prong < R_PRONG, true->left, false->right, same kind, arguments unchanged) closes the "
      "induction that wideX(control,k) reaches exactly leaf k; access<T>() is a derived-to-base conversion of the apex; library code never copy- or move-constructs a state object, so callbacks run on the object access<T>() names (C14.e); no entry point dispatches enter/exit/reenter with the invalid prong (C14.c, observer shared with C01.a); a moved-from / copied-from machine keeps its registry, so its destructor exits the state it entered (C14.f = C01.g).",
      "Trusted: clang 14 / gcc 12 template instantiation and constant evaluation; the walker templates in gen/nfamily.py.",
      "static_assert obligations discharged by two compiler front ends + AST shape rule on dispatchers + flow rule for initial/requested prong",
      "DESIGN.md section 4 C14")

claim('C15', 'other',
      "Order rule on the CFGs of the instantiated S_ wrappers and A_ dispatchers: for states with 0..3 injections (with and without own callbacks) the "
      "flattened sequence of resolved user callbacks is I1..Ik,state for set-up kinds and state,Ik..I1 for "
      "exit/postUpdate/postReact, each exactly once and unconditionally; the two A_ patterns and the S_ wrappers are "
      "checked as an induction step so every k is covered; every user callback is invoked through a qualified name, so no virtual override can reorder or replace a step (C15.c).",
      "Trusted: clang's overload resolution of Head::X / First::X; witness w_inj.",
      "CFG dominance-order rule over resolved callees + structural induction over template patterns",
      "DESIGN.md section 4 C15")

claim('C17', 'other',
      "Decides the statement through its only possible causes in code of this shape: every scalar member of every FFSM2 "
      "record is definitely initialised by every constructor; hand-written copy/move constructors copy every base and "
      "member from the same base/member; copy/move construction of an automatically activated machine cannot reach "
      "initialEnter; no mutable static state and no non-deterministic external call. No value depends on an address (no pointer<->integer casts, pointer ordering or identity tests other than null, C17.e); user bases of states are covered by the copy rule; hand-written copies of the bit array are decided bit by bit for every capacity (C20.e refinement); copy/move operations leave their source untouched (C17.f); a member copied in the constructor body counts only if it is definitely assigned from the same member on every path; save() clears the whole buffer before its first write, so the serialized form does not depend on what the buffer held (C17.g = C12.a). Equality of two executions as such "
      "is not decided.",
      "Trusted: clang's constructor-initialiser lists incl. implicit ones; witnesses w_core/w_pay instantiate every class.",
      "definite-initialisation and copy-coverage rules over record/constructor facts + call-graph reachability",
      "DESIGN.md section 4 C17")

claim('C01', 'other',
      "Typestate proof by induction over API calls: a forward abstract interpretation (must-equalities + constants + observer "
      "automaton) of every entry point that can reach a dispatcher (update, react, immediate*, replay*, load, enter/exit, "
      "constructors, destructor; both activation modes; all witness machines) shows enter/exit/reenter pairing, root before/"
      "after, dispatch only to the active state and the activity invariant at return; who-may-call and who-may-write rules "
      "close the induction; no control flavour can write the registry. The load rule's precondition (the index read was written by save()) is discharged by the save/load field-table and clear-before-write obligations (C01.f). Deactivation resets (final exit, destructor) are writers of the activity state and are part of the who-may-write table (C01.b). Copy/move construction and assignment write only the object they initialise: the machine copied or moved from keeps its registry (C01.g). The dispatch primitive is a correct binary search step in every dispatcher of every callback kind (C01.h = C14.b).",
      "Assumes A1-A3 (callbacks act only through their control, do not re-enter the API, preconditions respected). Machine "
      "size is abstracted by the dispatch primitive, whose correctness for every size is C14.",
      "finite-domain abstract interpretation (typestate) + call-graph / effect-set rules",
      "DESIGN.md section 4 C01")

claim('C02', 'other',
      "Effect rules: request writers only overwrite core.request and cannot reach processing; registry.requested is fed from a "
      "request only in the guarded loops. Order rules: processing last. Must-equality dataflow through processRequest / "
      "initialEnter: the state entered/re-entered is the destination of the transition shown to enter() as current, which is a "
      "whole copy of the pending transition of a round whose guards did not cancel; nothing survives => no callback, same active "
      "state; requested is invalid at return. Comparison-domain evaluation of the de-duplication test; the request comparison spans every payload byte for payload types of 1..300 bytes (memcmp size / counted byte loop whose counter cannot wrap). Only the four request writers and request processing write the request slot (C02.g); each writer replaces the whole request through the assignment operator of the request's own type. Processing continues up to the configured substitution limit and stops no earlier (C02.h, shares C04.a); after the substitution loop nothing on the way to the return writes the request slot, so a request left over by the limit is carried to the next processing point (C02.i); the guard wrappers report a cancellation made by any callback they run, injected guards included (C02.j = C03.e).",
      "Assumes A1-A3; guards are unknown booleans, callbacks havoc exactly the computed effect set of their control flavour.",
      "effect sets + CFG order rules + must-equality abstract interpretation + comparison-domain evaluation of the branch conditions that control a guard round (located by control dependence)",
      "DESIGN.md section 4 C02")

claim('C03', 'other',
      "Guard rounds interpreted with both outcomes at every guard: exit guard first on the active state, entry guard on the "
      "requested state, nothing consulted after a cancellation, fresh guard control per round bound to (current, pending), "
      "acceptance only on the not-cancelled edge; guard evaluation cannot reach enter/exit/reenter nor write the registry; "
      "replay/load never reach guards; the wrappers' return expression is decided on the enumeration (flag at entry) x (which user callback cancels), C03.e; cancelPendingTransition() sets the flag for every calling state, the root head (invalid id) included (comparison-domain evaluation); the pending transition guards are shown is a copy of a request that was written whole (C03.g = C02.a).",
      "Assumes A1-A3.",
      "abstract interpretation with observer automaton + call-graph reachability + statement-wise evaluation of the wrappers on the (flag before, flag after) truth table",
      "DESIGN.md section 4 C03")

claim('C04', 'other',
      "Counted-loop rule on both substitution loops (bound == the limit of the configuration type and of the witness declaration, for limits 1,2,3,4,255; single increment; one "
      "guard round per iteration; 8-bit counter cannot wrap), acyclic call graph, every other loop classified, end state at "
      "the limit covered by the C02.d/C01.a interpretation (loop exit edge with a request still outstanding), leftover request "
      "only consumable through the guarded loops. The configured substitution limit survives every order of the configuration setters (C04.e, type-level). A veto always takes, whoever casts it (C04.f). The leftover request is not written between the loop and the return (C04.d path rule). Every call processes requests exactly once: immediate changes are request + one processing, update()/react() end in one (C04.g).",
      "Termination of the plan-list walks rests on list integrity (C10 residue).",
      "spelling-independent bounded-loop analysis (local counter, +1 on every iterating path, constant bound) + call-graph acyclicity + abstract interpretation",
      "DESIGN.md section 4 C04")

claim('C05', 'other',
      "Order rules (dominance / post-dominance / exactly-once) on R_::update/react/query, every C_::deep<phase>, every CS_ "
      "dispatcher and S_ wrapper: phases once each in the prescribed order, head/sub-state order per phase, dispatch on "
      "registry.active read at phase start, processRequest last; effect rules: phases cannot reach guards/enter/exit nor write "
      "the registry, event handed on by reference at every level, query() const and effect-free; for states built from injected bases each phase callback and query() of every injection and of the state itself runs exactly once (C05.e, witness w_inj).",
      "Assumes A1-A3. All machine sizes through C14.",
      "CFG order rules over apex dispatches flattened through helper call chains + effect sets over resolved callees",
      "DESIGN.md section 4 C05")

claim('C06', 'other',
      "Scoped-origin rule on every S_ wrapper (constructed from (control, STATE_ID) before and destroyed after the user code), "
      "accessor return paths, constructor reference bindings of every control to the instance core (the bound member is a reference, not a snapshot), role tracking of the "
      "pending/current transition objects into _pendingTransition/_currentTransition, exhaustive comparison-domain evaluation of "
      "every isActive(id) against active == id for every id including the invalid one (C06.d), request writers record _originId.",
      "Assumes A2. The comparison-domain evaluation is exhaustive because the checker first verifies the predicates only compare.",
      "CFG order rules + reference-binding facts + finite comparison-domain evaluation + flow rules for the pending/current views",
      "DESIGN.md section 4 C06")

claim('C11', 'other',
      "Writers of previousTransition are the expected ones; at return of every processing entry point the history equals the "
      "accepted transition field by field and names the active state (must-equality dataflow); replayTransition/replayEnter "
      "enter exactly the replayed destination without guards and record it; replayTransition(invalid) returns false with no "
      "dispatch; copy/move constructors copy the history; a processing step in which nothing was accepted leaves an empty history (C11.b idle step); every request writer replaces the whole request, so the history inherits nothing from an earlier request (C11.f = C02.a).",
      "Assumes A1-A3.",
      "effect sets + must-equality abstract interpretation + call-graph reachability",
      "DESIGN.md section 4 C11")

claim('C20', 'other',
      "Decides named structural clauses: get/set/clear agree on unit = i div 8, mask = 1 << (i mod 8) and apply the right "
      "operator; the representation invariant 'bits >= CAPACITY are zero' is established by the constructor/clear() and "
      "preserved by every mutator (each storage write classified); whole-array operations cover the full extent; array "
      "accessor / iteration / emplace shapes. C20.e: for every capacity 1..255 and every index below it, bit-provenance abstract "
      "interpretation of set(i)/clear(i)/get(i)/set()/clear()/&= shows each operation refines the set-of-integers model bit by bit (hand-written copies included) "
      "and keeps the padding zero -- with the invariant, a simulation argument over every operation sequence. Element values of "
      "the fixed/growable arrays over sequences are NOT decided (accessor/iteration shapes only); per-operation effect summaries of the arrays and their iterators in the offset domain (C20.c) and type-level byte capacities for every N <= 255 (C20.f).",
      "A shape that is not recognised is analysis-broken (exit 2) unless the semantic rule C20.e decides that operation, in which case "
      "the shape rule steps aside.",
      "bit-provenance abstract interpretation (exhaustive over capacity x index) + invariant classification + loop-extent rules + sibling agreement",
      "DESIGN.md section 4 C20")

claim('C08', 'other',
      "Order rules on the CFG of both updatePlan specialisations: scan from begin() only while the iterator is valid and its origin "
      "is active, firing only under the success test of the same iterator and with the task origin as caller, remove after fire, "
      "exactly-once success consumption, deferred consumption after the scan; who-may-call and position of the plan step; the leaf "
      "status mapping on its truth table, maxima for the status operators; exhaustive comparison-domain evaluation of the scan's "
      "activity predicate (origin 0 included); sibling agreement of the two specialisations (also as call sequences, C08.f); on effect summaries succeed(id)/fail(id) set exactly the bit of id and the cycle result, the parameterless forms report for the calling state -- decided per decision path under the precondition 'valid state id', also on machines whose task capacity differs from the state count (C08.h); clearTaskStatus clears both bits of its id unconditionally (C08.e); the plan-exists gate is set by append and cleared by the full reset only (C08.g) and the per-cycle status is reset after the plan step on every path (C08.i); order across plan edits shares the link/unlink/iterator summaries of C10 (C08.j); a full reset forgets the task links too (C08.k = C09.f); a fired task's request replaces the whole request slot, payload included (C08.l = C02.a).",
      "The order in which tasks are visited relies on the plan list (C10 residue). Assumes A1-A3.",
      "CFG dominance / control-dependence rules + comparison-domain evaluation + sibling agreement",
      "DESIGN.md section 4 C08")

claim('C09', 'other',
      "Control-dependence rules: planFailed only on the FAILURE edge, planSucceeded only on (not FAILURE, SUCCESS, plan empty), no "
      "firing in the failure branch, plan cleared after each callback (all tasks, both status bits of every state); the plan step "
      "is gated by planExists whose only writers are append (true) and clear (false); definite initialisation of every scalar "
      "member makes the outcome independent of the memory the instance is built in; failure priority table; the per-cycle status "
      "accumulators are reset on every path after the plan step; PlanDataT::clear(), deactivation and load definitely reset the whole "
      "plan state (no task, report or plan-exists flag survives; PlanT::clear decided path-complete on effect summaries, C09.a); what a status report writes is decided on effect summaries (C09.g); leaving a state clears both of its status bits whether or not a plan exists (C09.h = C08.e).",
      "Assumes A1-A3.",
      "CFG control-dependence rules + who-may-call + definite-initialisation rule + must-write analysis (whole-array loops write every element)",
      "DESIGN.md section 4 C09")

claim('C10', 'other',
      "Decides per-operation specifications on effect summaries: the task pool's emplace is a vacant-list pop on every path (full: "
      "nothing written, INVALID returned; recycle / grow by one inside the array / last slot), remove a push; PlanT::linkTask "
      "appends at the tail, PlanT::remove unlinks exactly the given node in all four neighbour situations and releases its slot; "
      "the three plan iterators cache the successor before the current task can be removed, advance to it and agree; capacity "
      "tests in append; the configured task capacity survives every order of the configuration setters (C10.h, type-level) and is the capacity of the pool; side arrays are at least as long (C10.i); clearing a plan walks the whole list, reading each successor before the removal (C10.j = C09.a). Integrity of the intrusive lists over every history and capacity (the inductive invariant the per-operation "
      "facts would have to be composed with) is NOT decided.",
      "Residue: list shape invariant over histories (relational shape analysis or state enumeration = another family). The "
      "summaries assume a node is never its own neighbour (that invariant).",
      "effect summaries in an offset domain, one per combination of the entry-state comparisons the function consults "
      "(predicate abstraction, no solver) + CFG dominance rules + local interval analysis",
      "DESIGN.md section 4 C10")

claim('C12', 'other',
      "Writer/reader field tables extracted from the CFGs of save()/load() agree per activation mode; only the activity bit and "
      "registry.active are written, into a buffer cleared first; type-level capacity facts for every N in 1..255 (thorough) / 31 "
      "sizes (quick); save() const and effect-free on the machine; load() interpreted abstractly for active and inactive loaders: "
      "exactly the C01 transitions, entering the state read, no guards. Loading into an active machine is observable as exit+enter / reenter / initial enter and leaves no request of the loader outstanding; stream buffers own ceil(N/8) bytes for every N <= 255 (type-level); the stream kernels are exact at every serial-buffer size a machine can have, 1..9 bits, including a field that ends on the last bit of the buffer (C12.e = C13.d).",
      "Assumes the buffer passed to load() was produced by save() of the same machine type (A3).",
      "CFG path tables + static_assert obligations + abstract interpretation + effect sets",
      "DESIGN.md section 4 C12")

claim('C13', 'other',
      "bitWidth decided for all 2^32 arguments by evaluating the extracted expression (argument converted to the parameter's type first) on the end points of its own 33 threshold "
      "regions (after checking the argument is used in threshold tests only); cursor/width lock-step rule (cursor advances by "
      "exactly N, contiguous fields); writer/reader agreement on byte index, chunk start, chunk width, LSB-first, OR into a cleared "
      "buffer; type-level: the width derived for every state count 1..255 suffices. C13.d: bit-provenance abstract interpretation "
      "of write<N>/read<N> for every width 1..32 and every start cursor of the 255-bit stream and of streams of 1..9, 16 and 64 bits decides the value-level clauses for "
      "all values; writer and reader hold the caller's buffer by reference (C13.f); (own field placed LSB-first at [cursor, cursor+N), nothing else altered, bits past the cursor zero, read returns "
      "exactly the field, cursor += N), which composes to the round trip over every field sequence.",
      "The kernels are analysed at capacity 255; they mention the capacity in an assertion only. Where C13.d decides, the shape rules "
      "C13.b/c are diagnostics and step aside for loops spelled differently.",
      "threshold-partition evaluation + bit-provenance abstract interpretation (exhaustive over width x cursor) + structural rules + static_assert obligations",
      "DESIGN.md section 4 C13")

claim('C16', 'other',
      "Every S_ wrapper emits exactly one method record (right state id and Method enumerator) on the logger edge before any user "
      "code; for states that define the callback the selected log() overload records unconditionally; request writers, "
      "cancellations and status reports log exactly their own arguments once; the logger slot only ever guards a single record "
      "call with side-effect-free arguments; all function bodies are identical with logging off / interface / verbose after "
      "erasing exactly those statements; the set of records a wrapper can reach is computed through helper calls (reached_records), so extracted helpers do not change the verdict.",
      "Assumes the user's logger implementation does not call back into the machine (A2).",
      "CFG order rules + argument agreement + effect rule + differential comparison of extracted bodies",
      "DESIGN.md section 4 C16")

claim('C18', 'other',
      "Allocation-freedom from the AST (placement new only, no delete, allowed externals) cross-checked on the undefined symbols "
      "of compiled witness objects; payload/member alignment from the record layout; definite initialisation; constant or locally "
      "bounded shift amounts; positive extents; reinterpret_cast only on payload storage; interval reasoning on locally guarded "
      "subscripts. Absence of out-of-bounds accesses for all histories is NOT decided (unguarded subscripts are counted as 'no verdict'). The byte storage behind every bit container has ceil(N/8) bytes for every N <= 255 (exhaustive type-level unit, C18.e). The task pool's slot indices stay inside its array by the per-operation vacant-list summaries (C18.f = C10.a/c) and every bit-container operation addresses only storage the container owns, for every capacity 1..255 and index (C18.g = the C20.e refinement); the state ids the library itself feeds into single-index bit operations, the root head's invalid id included, are below the capacity (C18.h); every per-task side array of the plan data has an element for every index the task pool can hand out (C18.i, type-level on witness capacities 1, 2, 8, 254); the bits save()/load() move fit the serial buffer for every state count (C18.j = C12.b).",
      "Residue: value ranges of indices kept by data-structure invariants.",
      "AST effect rules + object symbol table + record layout + local interval analysis",
      "DESIGN.md section 4 C18")

ALL = ['C%02d' % i for i in range(1, 21)]
for p in ALL:
    if p not in CLAIMED:
        NOT_CLAIMED[p] = "check under construction in this round (see DESIGN.md section 4 %s for the planned rules); not claimed until its rules run" % p


def main():
    checks = []
    for pid in ALL:
        if pid not in CLAIMED:
            continue
        c = CLAIMED[pid]
        checks.append({
            'property_id': pid,
            'quick_cmd': './check %s --tier quick' % pid,
            'thorough_cmd': './check %s --tier thorough' % pid,
            'evidence_file': 'evidence/%s.json' % pid,
            'replay_cmd_template': './check %s --replay {path}' % pid,
            'engine': 'ffsm2lint',
            'level_claimed': {'category': c['category'], 'text': c['text'], 'design_ref': c['design_ref']},
            'level_note': c['note'],
            'technique': c['technique'],
        })
    man = {
        'version': 1,
        'setup_cmd': './setup.sh',
        'hooks': {
            'guard': 'FFSM2_VERIF',
            'enable': 'no hooks: the analyses read /repo through the compiler front end and add nothing to it',
            'baseline_off_cmd': BASELINE,
            'source_commits': [],
            'add_only': True,
        },
        'engines': [
            {'name': 'ffsm2-facts', 'path': 'tool/ffsm2_facts.cc', 'serves_properties': sorted(CLAIMED),
             'kind_free_text': 'libTooling fact extractor over instantiated FFSM2 code (type-checked AST, resolved callees, record layouts)'},
            {'name': 'ffsm2lint', 'path': 'lint/', 'serves_properties': sorted(CLAIMED),
             'kind_free_text': 'Python analyses over the facts: call graph / effect sets, CFG order rules, finite-domain abstract interpretation, comparison-domain evaluation, sibling agreement'},
            {'name': 'type-level witnesses', 'path': 'gen/', 'serves_properties': [p for p in ('C07', 'C12', 'C13', 'C14', 'C18') if p in CLAIMED],
             'kind_free_text': 'generated static_assert / must-not-compile units discharged by clang++ and g++ -fsyntax-only'},
        ],
        'checks': checks,
        'not_applicable': [{'property_id': p, 'reason': r} for p, r in sorted(NOT_CLAIMED.items())],
        'notes': 'Technique family: static analysis only. Exit 2 from a check means "analysis broken" (anchor vanished, '
                 'witness no longer compiles for an unrelated reason, unknown idiom) and is never a verdict.',
    }
    with open(os.path.join(HERE, 'MANIFEST.json'), 'w') as f:
        json.dump(man, f, indent=1)
    print('MANIFEST.json: %d claimed, %d not claimed' % (len(checks), len(NOT_CLAIMED)))


if __name__ == '__main__':
    main()
