#!/usr/bin/env python3
"""Writes /verif/MANIFEST.json from the table below (kept in one place so it stays consistent)."""
import json
import os

HERE = os.path.dirname(os.path.dirname(os.path.abspath(__file__)))

BASELINE = "cmake --build /repo/_build && /repo/_build/ffsm2_test"

# property id -> dict(category, text, note, technique, design_ref) for claimed properties
CLAIMED = {}
# property id -> reason, for properties not claimed (yet)
NOT_CLAIMED = {}


def claim(pid, category, text, note, technique, design_ref):
    CLAIMED[pid] = dict(category=category, text=text, note=note, technique=technique, design_ref=design_ref)


claim('C19', 'other',
      "Decides all three clauses statically: every one of the 2^8 switch combinations (+FFSM2_ENABLE_ALL) type-checks "
      "with the repository's warning flags as errors (quick: clang++ c++11 shipped header, plus both compilers x 4 "
      "standards x both header variants on the corner combinations; thorough: 2 compilers x 4 standards x 2 variants x "
      "all combinations); the shipped single header is byte-identical to a fresh tools/join.py run and to an independent "
      "re-implementation of the merge; per-feature differential comparison of the extracted facts shows that switching a "
      "feature on only adds code that touches feature-owned state.",
      "Trusted: clang 14 / gcc 12 front ends; witness w_core as the set of API uses that must compile. 'Observable "
      "behaviour unchanged' is decided as 'the feature-neutral functions have identical event summaries', not by running.",
      "feature-matrix type checking + byte-level translation validation of the amalgamation + differential AST facts",
      "DESIGN.md section 4 C19")

claim('C07', 'other',
      "Decides the structural clauses: payload storage layout (size, offset, record alignment) is right for the payload "
      "type for 12 payload types in TransitionT and TaskT and in every record embedding them; payload constructors set "
      "payloadSet and placement-copy their payload parameter; no user-declared copy operations, so copies are memberwise; "
      "payload() returns the storage iff payloadSet; the whole-object copy chain request -> pending -> current -> previous "
      "as must-equalities (flow clause). Equality of payload bytes for every value is NOT decided (language-level "
      "memberwise copy is trusted).",
      "Trusted: clang's record layout for the x86-64 target of this sandbox; witness w_pay as the family of payload types.",
      "type-level layout facts + structural constructor rules + must-equality dataflow",
      "DESIGN.md section 4 C07")

claim('C14', 'proof',
      "Type-level proof over the library's own compile-time structure: for N states (quick 31 sizes up to 255, thorough "
      "every N in 1..255, PeerRoot and Root, two compilers) stateId<S_k>() == k, the head has the invalid id, and a "
      "template walker over the CS_ tree reached from R_::Apex shows every leaf k wraps S_k with STATE_ID == PRONG_INDEX "
      "== k and every split node partitions its range at R_PRONG; a structural rule over every instantiated CS_ "
      "dispatcher (branch on prong < R_PRONG, true->left, false->right, same kind, arguments unchanged) closes the "
      "induction that wideX(control,k) reaches exactly leaf k; access<T>() is a derived-to-base conversion of the apex.",
      "Trusted: clang 14 / gcc 12 template instantiation and constant evaluation; the walker templates in gen/nfamily.py.",
      "static_assert obligations discharged by two compiler front ends + AST shape rule on dispatchers",
      "DESIGN.md section 4 C14")

claim('C15', 'other',
      "Order rule on the CFGs of the instantiated S_ wrappers and A_ dispatchers: for states with 0..3 injections the "
      "flattened sequence of resolved user callbacks is I1..Ik,state for set-up kinds and state,Ik..I1 for "
      "exit/postUpdate/postReact, each exactly once and unconditionally; the two A_ patterns and the S_ wrappers are "
      "checked as an induction step so every k is covered.",
      "Trusted: clang's overload resolution of Head::X / First::X; witness w_inj.",
      "CFG dominance-order rule over resolved callees + structural induction over template patterns",
      "DESIGN.md section 4 C15")

claim('C17', 'other',
      "Decides the statement through its only possible causes in code of this shape: every scalar member of every FFSM2 "
      "record is definitely initialised by every constructor; hand-written copy/move constructors copy every base and "
      "member from the same base/member; copy/move construction of an automatically activated machine cannot reach "
      "initialEnter; no mutable static state and no non-deterministic external call. Equality of two executions as such "
      "is not decided.",
      "Trusted: clang's constructor-initialiser lists incl. implicit ones; witnesses w_core/w_pay instantiate every class.",
      "definite-initialisation and copy-coverage rules over record/constructor facts + call-graph reachability",
      "DESIGN.md section 4 C17")

ALL = ['C%02d' % i for i in range(1, 21)]
for p in ALL:
    if p not in CLAIMED:
        NOT_CLAIMED[p] = "check under construction in this round (see DESIGN.md section 4 %s for the planned rules); not claimed until its rules run" % p


def main():
    checks = []
    for pid in ALL:
        if pid not in CLAIMED:
            continue
        c = CLAIMED[pid]
        checks.append({
            'property_id': pid,
            'quick_cmd': './check %s --tier quick' % pid,
            'thorough_cmd': './check %s --tier thorough' % pid,
            'evidence_file': 'evidence/%s.json' % pid,
            'replay_cmd_template': './check %s --replay {path}' % pid,
            'engine': 'ffsm2lint',
            'level_claimed': {'category': c['category'], 'text': c['text'], 'design_ref': c['design_ref']},
            'level_note': c['note'],
            'technique': c['technique'],
        })
    man = {
        'version': 1,
        'setup_cmd': './setup.sh',
        'hooks': {
            'guard': 'FFSM2_VERIF',
            'enable': 'no hooks: the analyses read /repo through the compiler front end and add nothing to it',
            'baseline_off_cmd': BASELINE,
            'source_commits': [],
            'add_only': True,
        },
        'engines': [
            {'name': 'ffsm2-facts', 'path': 'tool/ffsm2_facts.cc', 'serves_properties': sorted(CLAIMED),
             'kind_free_text': 'libTooling fact extractor over instantiated FFSM2 code (type-checked AST, resolved callees, record layouts)'},
            {'name': 'ffsm2lint', 'path': 'lint/', 'serves_properties': sorted(CLAIMED),
             'kind_free_text': 'Python analyses over the facts: call graph / effect sets, CFG order rules, finite-domain abstract interpretation, comparison-domain evaluation, sibling agreement'},
            {'name': 'type-level witnesses', 'path': 'gen/', 'serves_properties': [p for p in ('C07', 'C12', 'C13', 'C14', 'C18') if p in CLAIMED],
             'kind_free_text': 'generated static_assert / must-not-compile units discharged by clang++ and g++ -fsyntax-only'},
        ],
        'checks': checks,
        'not_applicable': [{'property_id': p, 'reason': r} for p, r in sorted(NOT_CLAIMED.items())],
        'notes': 'Technique family: static analysis only. Exit 2 from a check means "analysis broken" (anchor vanished, '
                 'witness no longer compiles for an unrelated reason, unknown idiom) and is never a verdict.',
    }
    with open(os.path.join(HERE, 'MANIFEST.json'), 'w') as f:
        json.dump(man, f, indent=1)
    print('MANIFEST.json: %d claimed, %d not claimed' % (len(checks), len(NOT_CLAIMED)))


if __name__ == '__main__':
    main()
