"""Small hand-written type-level units (E3) compiled with -fsyntax-only: every static_assert message starts with VERIF."""
import os
import re
import subprocess

from lint import common, facts
from lint.common import AnalysisBroken

UNITS = {
    'ubitwidth': ('''
#include "w_common.hpp"
template <unsigned N> struct Chk { static_assert(sizeof(ffsm2::UBitWidth<N>) * 8 >= N, "VERIF C13.a UBitWidth holds N bits"); static constexpr bool OK = true; };
#define C4(n) static_assert(Chk<n>::OK && Chk<n+1>::OK && Chk<n+2>::OK && Chk<n+3>::OK, "");
C4(1) C4(5) C4(9) C4(13) C4(17) C4(21) C4(25) C4(29)
static_assert(ffsm2::contain(9, 8) == 2 && ffsm2::contain(8, 8) == 1 && ffsm2::contain(1, 8) == 1 && ffsm2::contain(255, 8) == 32, "VERIF C13.a contain rounds up");
''', 32 + 1, ['-DFFSM2_ENABLE_SERIALIZATION=']),
    'taskstatus': ('''
#include "w_common.hpp"
using ffsm2::detail::TaskStatus;
static_assert(TaskStatus::NONE < TaskStatus::SUCCESS, "VERIF C08.d NONE < SUCCESS");
static_assert(TaskStatus::SUCCESS < TaskStatus::FAILURE, "VERIF C08.d SUCCESS < FAILURE");
''', 2, ['-DFFSM2_ENABLE_PLANS=']),
}

def config_unit(rule, plans=True):
    """type-level unit: the configuration builder's setters commute -- applied in any of the 120 orders, context, activation, substitution
    limit, task capacity and payload type all arrive in the resulting configuration (a setter that forgets to forward one of the others
    silently resets it to the default)"""
    import itertools
    name = 'config-' + rule + ('' if plans else '-noplans')
    if name not in UNITS:
        setters = {'C': 'ContextT<VCtx>', 'M': 'ManualActivation', 'S': 'SubstitutionLimitN<7>', 'T': 'TaskCapacityN<3>', 'P': 'PayloadT<VPay>'}
        keys = 'CMSTP' if plans else 'CMSP'        # the task-capacity setter exists only with plans; the others must mean the same without
        lines = ['#include "w_common.hpp"', '#include <type_traits>', 'struct VCtx { int x; }; struct VPay { double d; };',
                 'template <typename G> struct Chk {',
                 '\tstatic_assert(std::is_same<typename G::Context, VCtx>::value, "VERIF %s the context survives every order of the configuration setters");' % rule,
                 '\tstatic_assert(std::is_same<typename G::Activation, ffsm2::Manual>::value, "VERIF %s manual activation survives every order of the configuration setters");' % rule,
                 '\tstatic_assert(G::SUBSTITUTION_LIMIT == 7, "VERIF %s the substitution limit survives every order of the configuration setters");' % rule,
                 ('\tstatic_assert(G::TASK_CAPACITY == 3, "VERIF %s the task capacity survives every order of the configuration setters");' % rule) if plans else '',
                 '\tstatic_assert(std::is_same<typename G::Payload, VPay>::value, "VERIF %s the payload type survives every order of the configuration setters");' % rule,
                 '\tstatic constexpr bool OK = true; };']
        n = 0
        for perm in itertools.permutations(keys):
            chain = 'ffsm2::Config'
            for i, k in enumerate(perm):
                chain += '::' + ('template ' if False else '') + setters[k]
            lines.append('static_assert(Chk<%s>::OK, "");' % chain)
            n += 1
        UNITS[name] = ('\n'.join(lines) + '\n', n * (5 if plans else 4), ['-DFFSM2_ENABLE_PLANS='] if plans else [])
    return name


def capacity_unit(rule):
    """type-level unit: for every capacity N = 1..255 the bit stream buffer and the bit array really own ceil(N/8) bytes, and the
    round-up helper is exact in the (8-bit) operand type they use -- messages carry the rule id of the check that asks"""
    name = 'capacities-' + rule
    if name not in UNITS:
        UNITS[name] = ('''
#include "w_common.hpp"
template <unsigned N> struct Cap {
	static_assert(sizeof(typename ffsm2::detail::StreamBufferT<N>::Data) == (N + 7) / 8, "VERIF %(r)s StreamBufferT<N> owns ceil(N/8) bytes for every N up to 255");
	static_assert(sizeof(ffsm2::detail::BitArrayT<N>) == (N + 7) / 8, "VERIF %(r)s BitArrayT<N> owns ceil(N/8) units for every N up to 255");
	static_assert(ffsm2::contain(static_cast<ffsm2::Long>(N), 8u) == (N + 7) / 8, "VERIF %(r)s contain() rounds up exactly in the 8-bit operand type");
	static constexpr bool OK = Cap<N - 1>::OK;
};
template <> struct Cap<0> { static constexpr bool OK = true; };
static_assert(Cap<255>::OK, "");
''' % {'r': rule}, 255 * 3, ['-DFFSM2_ENABLE_SERIALIZATION=', '-DFFSM2_ENABLE_PLANS=', '-ftemplate-depth=1024'])
    return name


ERR = re.compile(r'static_assert failed[^"]*"(VERIF [^"]*)"|static assertion failed: (VERIF [^\\n]*)')

_cache = {}


def compile_unit(name, cxx='clang++', std='c++11', variant='inc'):
    key = (name, cxx, std, variant, common.REPO)
    if key in _cache:
        return _cache[key]
    text, count, flags = UNITS[name]
    d = os.path.join(common.BUILD_DIR, 'static')
    os.makedirs(d, exist_ok=True)
    src = os.path.join(d, '%s-%d.cpp' % (name, os.getpid()))
    with open(src, 'w') as f:
        f.write(text)
    cmd = [cxx, '-std=' + std, '-fsyntax-only', '-I' + facts.WITNESS_DIR] + (['-fno-crash-diagnostics'] if cxx.startswith('clang') else []) + facts.variant_flags(variant) + flags + [src]
    cmd.insert(1, '-ferror-limit=0' if cxx.startswith('clang') else '-fmax-errors=0')
    p = subprocess.run(cmd, stdout=subprocess.PIPE, stderr=subprocess.STDOUT, universal_newlines=True)
    os.unlink(src)
    failed = []
    for line in p.stdout.splitlines():
        m = ERR.search(line)
        if m:
            failed.append((m.group(1) or m.group(2)).strip())
    other = [l for l in p.stdout.splitlines() if ' error: ' in l and not ERR.search(l)]
    _cache[key] = (p.returncode, failed, other, count)
    return _cache[key]


def report(run, rule, name):
    combos = [('clang++', 'c++11', 'inc')] if run.tier == 'quick' else [('clang++', 'c++11', 'inc'), ('g++', 'c++17', 'inc'), ('clang++', 'c++20', 'dev')]
    for cxx, std, v in combos:
        rc, failed, other, count = compile_unit(name, cxx, std, v)
        if rc != 0 and not failed:
            raise AnalysisBroken('static unit %s does not compile: %s' % (name, (other or ['?'])[0][:300]))
        msgs = sorted(set(failed))
        for m in msgs:
            run.ob(rule, '%s [%s %s %s]' % (m[6:], cxx, std, v), False, key=m[6:])
        run.ob(rule, 'type-level unit %s: %d static_assert instance(s) hold [%s %s %s]' % (name, count - len(failed), cxx, std, v), True)


NEG_ERR = re.compile(r'w_neg\.cpp:(\d+):\d+: (?:fatal )?error: (.*)')


def must_not_compile(run, rule):
    """witness/w_neg.cpp: every line marked EXPECT-ERROR produces a diagnostic, no unmarked line does (type-level clause:
    the operations the properties rely on being impossible really are rejected by the compiler)."""
    src = os.path.join(facts.WITNESS_DIR, 'w_neg.cpp')
    with open(src) as f:
        lines = f.read().splitlines()
    expected = {i + 1: l.split('EXPECT-ERROR', 1)[1].strip() for i, l in enumerate(lines) if '// EXPECT-ERROR ' in l}
    combos = [('clang++', 'c++11', 'inc')] if run.tier == 'quick' else [('clang++', 'c++11', 'inc'), ('g++', 'c++17', 'inc'), ('clang++', 'c++20', 'dev')]
    for cxx, std, v in combos:
        cmd = [cxx, '-std=' + std, '-fsyntax-only', '-I' + facts.WITNESS_DIR] + (['-fno-crash-diagnostics'] if cxx.startswith('clang') else []) + facts.variant_flags(v) + [src]
        cmd.insert(1, '-ferror-limit=0' if cxx.startswith('clang') else '-fmax-errors=0')
        p = subprocess.run(cmd, stdout=subprocess.PIPE, stderr=subprocess.STDOUT, universal_newlines=True)
        if p.returncode not in (0, 1):
            raise AnalysisBroken('compiler crashed on w_neg.cpp')
        got = {}
        for l in p.stdout.splitlines():
            m = NEG_ERR.search(l)
            if m:
                got.setdefault(int(m.group(1)), []).append(m.group(2)[:120])
        stray = sorted(set(got) - set(expected))
        if stray:
            raise AnalysisBroken('w_neg.cpp has diagnostics on unmarked lines %s: %s' % (stray, got[stray[0]][0]))
        for ln, why in sorted(expected.items()):
            run.ob(rule, 'must not compile [%s %s %s]: %s' % (cxx, std, v, why), ln in got, where='witness/w_neg.cpp:%d' % ln,
                   detail=None if ln in got else lines[ln - 1].strip()[:100], key='compiles although it must not: ' + why)
