// Witness w_streams: write<N> / read<N> for every field width N = 1..32 on the largest stream (255 bits) and on small streams (C13.d).
#include "w_common.hpp"

using namespace ffsm2;
using namespace ffsm2::detail;

template <Short N>
struct UseWidth {
	static void go() {
		StreamBufferT<255> buffer;
		BitWriteStreamT<255> w{buffer};
		w.template write<N>(0);
		BitReadStreamT<255> r{buffer};
		(void) r.template read<N>();
		UseWidth<N - 1>::go();
	}
};

template <>
struct UseWidth<0> {
	static void go() {}
};

// ... and on small streams, every width that fits: capacities 1..9 are the serial-buffer sizes machines of 1..255 states have; 8, 16, 64
// are exact numbers of bytes (a field may end on the very last bit of the buffer)
template <unsigned CAP, Short N>
struct UseCap {
	static void go() {
		StreamBufferT<CAP> buffer;
		BitWriteStreamT<CAP> w{buffer};
		w.template write<N>(0);
		BitReadStreamT<CAP> r{buffer};
		(void) r.template read<N>();
		UseCap<CAP, N - 1>::go();
	}
};

template <unsigned CAP>
struct UseCap<CAP, 0> {
	static void go() {}
};

void w_streams_use() {
	UseWidth<32>::go();
	UseCap<1, 1>::go(); UseCap<2, 2>::go(); UseCap<3, 3>::go(); UseCap<4, 4>::go(); UseCap<5, 5>::go(); UseCap<6, 6>::go(); UseCap<7, 7>::go();
	UseCap<8, 8>::go(); UseCap<9, 9>::go(); UseCap<16, 16>::go(); UseCap<64, 32>::go();
}
