// Witness w_streams: write<N> / read<N> for every field width N = 1..32 on the largest stream (255 bits) (C13.d).
#include "w_common.hpp"

using namespace ffsm2;
using namespace ffsm2::detail;

template <Short N>
struct UseWidth {
	static void go() {
		StreamBufferT<255> buffer;
		BitWriteStreamT<255> w{buffer};
		w.template write<N>(0);
		BitReadStreamT<255> r{buffer};
		(void) r.template read<N>();
		UseWidth<N - 1>::go();
	}
};

template <>
struct UseWidth<0> {
	static void go() {}
};

void w_streams_use() { UseWidth<32>::go(); }
