// Witness w_limit: substitution limits 1,2,3,(default 4),255 and task capacities 1,2,8,254,255 on three states (C04.a, C10, C18.i).
#include "w_common.hpp"

#define LIMIT_MACHINE(NS, CONFIG)                                                \
namespace NS {                                                                   \
	using M = ffsm2::MachineT<CONFIG>;                                           \
	struct A; struct B; struct C;                                                \
	using FSM = M::PeerRoot<A, B, C>;                                            \
	struct A : FSM::State { void entryGuard(GuardControl& c) { c.changeTo<B>(); } }; \
	struct B : FSM::State { void entryGuard(GuardControl& c) { c.changeTo<A>(); } }; \
	struct C : FSM::State { void update(FullControl& c) { LIMIT_PLAN } };        \
	inline void use() {                                                          \
		FSM::Instance machine;                                                   \
		machine.update();                                                        \
		machine.immediateChangeTo<B>();                                          \
	}                                                                            \
}

#ifdef FFSM2_ENABLE_PLANS
	#define LIMIT_PLAN c.plan().change<A, B>(); c.succeed();
#else
	#define LIMIT_PLAN c.changeTo<A>();
#endif

LIMIT_MACHINE(l1,   ffsm2::Config::SubstitutionLimitN<1>)
LIMIT_MACHINE(l2,   ffsm2::Config::SubstitutionLimitN<2>)
LIMIT_MACHINE(l3,   ffsm2::Config::SubstitutionLimitN<3>)
LIMIT_MACHINE(l4,   ffsm2::Config)
LIMIT_MACHINE(l255, ffsm2::Config::SubstitutionLimitN<255>)
#ifdef FFSM2_ENABLE_PLANS
LIMIT_MACHINE(t1,   ffsm2::Config::TaskCapacityN<1>)
LIMIT_MACHINE(t2,   ffsm2::Config::TaskCapacityN<2>)
LIMIT_MACHINE(t255, ffsm2::Config::TaskCapacityN<255>::ManualActivation)
LIMIT_MACHINE(t8,   ffsm2::Config::TaskCapacityN<8>)					// more tasks than states (3)
LIMIT_MACHINE(t254, ffsm2::Config::TaskCapacityN<254>::ManualActivation)	// the largest capacity that is not the "default" sentinel
#endif

void w_limit_use() {
	l1::use(); l2::use(); l3::use(); l4::use(); l255::use();
#ifdef FFSM2_ENABLE_PLANS
	t1::use(); t2::use(); t8::use(); t254::use();
#endif
}
