// Witness w_core: a covering family of machine configurations
// {Root, PeerRoot} x {Automatic, Manual} x {void, int payload} x {empty, value, reference, pointer context}.
#include "w_common.hpp"

#define W_NS m_ha_v_e
#define W_CONFIG ffsm2::Config
#define W_HEADED 1
#define W_MANUAL 0
#define W_PAYLOAD 0
#define W_CTXKIND 0
#include "w_machine.inc"

#define W_NS m_pa_i_v
#define W_CONFIG ffsm2::Config::ContextT<Ctx>::PayloadT<int>
#define W_HEADED 0
#define W_MANUAL 0
#define W_PAYLOAD 1
#define W_CTXKIND 1
#include "w_machine.inc"

#define W_NS m_hm_i_r
#define W_CONFIG ffsm2::Config::ContextT<Ctx&>::ManualActivation::PayloadT<int>
#define W_HEADED 1
#define W_MANUAL 1
#define W_PAYLOAD 1
#define W_CTXKIND 2
#include "w_machine.inc"

#define W_NS m_pm_v_p
#define W_CONFIG ffsm2::Config::ContextT<Ctx*>::ManualActivation
#define W_HEADED 0
#define W_MANUAL 1
#define W_PAYLOAD 0
#define W_CTXKIND 3
#include "w_machine.inc"

#define W_NS m_ha_i_p
#define W_CONFIG ffsm2::Config::ContextT<Ctx*>::PayloadT<int>
#define W_HEADED 1
#define W_MANUAL 0
#define W_PAYLOAD 1
#define W_CTXKIND 3
#include "w_machine.inc"

#define W_NS m_pm_v_e
#define W_CONFIG ffsm2::Config::ManualActivation
#define W_HEADED 0
#define W_MANUAL 1
#define W_PAYLOAD 0
#define W_CTXKIND 0
#include "w_machine.inc"

void w_core_use() {
	m_ha_v_e::use();
	m_pa_i_v::use();
	m_hm_i_r::use();
	m_pm_v_p::use();
	m_ha_i_p::use();
	m_pm_v_e::use();
}
