// Common prologue of every witness: selects the header variant.
//   -DW_DEV      analyse development/ffsm2/machine_dev.hpp (with -I<repo>/development)
//   default      analyse include/ffsm2/machine.hpp        (with -I<repo>/include)
#pragma once

#ifdef W_DEV
	#include <ffsm2/machine_dev.hpp>
#else
	#include <ffsm2/machine.hpp>
#endif

#ifdef FFSM2_ENABLE_LOG_INTERFACE
	#define W_LOG 1
#else
	#define W_LOG 0
#endif

struct Ctx { int v; };
struct Ev1 {};
struct Ev2 { int x; };
