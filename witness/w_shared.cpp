// Witness w_shared: the containers and bit streams, instantiated for a family of capacities
// (C10, C12, C13, C18, C20). Compiled with PLANS and SERIALIZATION enabled.
#include "w_common.hpp"

using namespace ffsm2;
using namespace ffsm2::detail;

template <unsigned N>
void useBitArray() {
	BitArrayT<N> a, b;
	a.set();
	a.clear();
	(void) a.empty();
	a.set(Long{0});
	a.clear(Long{0});
	(void) a.get(Long{0});
	a.set(0u);
	a.clear(0u);
	(void) a.get(0u);
	(void) (a & b);
	a &= b;
}

template <Long N>
void useArrays() {
	StaticArrayT<Short, N> s;
	StaticArrayT<Short, N> sf{Short{1}};
	s.fill(Short{2});
	s.clear();
	(void) s.empty();
	(void) s.count();
	s[Long{0}] = 1;
	const StaticArrayT<Short, N>& cs = s;
	(void) cs[0];
	// StaticArrayT::begin()/end() cannot be used: IteratorT befriends DynamicArrayT only

	StaticArrayT<TaskLink, N> links;
	links.clear();
	(void) links[0u].next;

	DynamicArrayT<int, N> d;
	const int one = 1;
	(void) d.emplace(one);
	(void) d.emplace(2);
	d += one;
	d += 3;
	DynamicArrayT<int, N> d2;
	d += d2;
	(void) d[0];
	const DynamicArrayT<int, N>& cd = d;
	(void) cd[0u];
	(void) d.count();
	(void) d.empty();
	d.clear();
	for (int& x : d) x = 0;
	for (const int& x : cd) (void) x;
	(void) d.cbegin();
	(void) d.cend();
}

template <typename TPayload, Long N>
void useTaskList() {
	TaskListT<TPayload, N> l;
	const Long i = l.emplace(StateID{0}, StateID{1});
	(void) l[i];
	const TaskListT<TPayload, N>& cl = l;
	(void) cl[i];
	l.remove(i);
	(void) l.count();
	(void) l.empty();
	l.clear();
}

template <Long N>
void usePayloadTaskList() {
	TaskListT<int, N> l;
	const Long i = l.emplace(StateID{0}, StateID{1}, 5);
	(void) l[i].payload();
	l.remove(i);
}

template <Long NBits>
void useStreams() {
	StreamBufferT<NBits> buffer, other;
	buffer.clear();
	(void) buffer.data();
	const StreamBufferT<NBits>& cb = buffer;
	(void) cb.data();
	(void) (buffer == other);
	(void) (buffer != other);
	BitWriteStreamT<NBits> w{buffer};
	w.template write<1>(1);
	(void) w.cursor();
	BitReadStreamT<NBits> r{buffer};
	(void) r.template read<1>();
	(void) r.cursor();
}

template <Long NBits, Short W>
void useStreamWidth() {
	StreamBufferT<NBits> buffer;
	BitWriteStreamT<NBits> w{buffer};
	w.template write<W>(0);
	BitReadStreamT<NBits> r{buffer};
	(void) r.template read<W>();
}

void w_shared_use() {
	useBitArray<1>(); useBitArray<7>(); useBitArray<8>(); useBitArray<9>(); useBitArray<12>();
	useBitArray<16>(); useBitArray<17>(); useBitArray<255>();
	BitArrayT<0> z; z.clear(); (void) z.empty();

	useArrays<1>(); useArrays<2>(); useArrays<7>(); useArrays<8>(); useArrays<255>();

	useTaskList<void, 1>(); useTaskList<void, 2>(); useTaskList<void, 3>(); useTaskList<void, 255>();
	useTaskList<int, 1>(); useTaskList<int, 2>(); useTaskList<int, 255>();
	usePayloadTaskList<1>(); usePayloadTaskList<4>();

	useStreams<1>(); useStreams<7>(); useStreams<8>(); useStreams<9>(); useStreams<16>(); useStreams<17>(); useStreams<255>();
	useStreamWidth<255, 1>(); useStreamWidth<255, 2>(); useStreamWidth<255, 7>(); useStreamWidth<255, 8>();
	useStreamWidth<255, 9>(); useStreamWidth<255, 16>(); useStreamWidth<255, 17>(); useStreamWidth<255, 31>(); useStreamWidth<255, 32>();

	(void) bitWidth(5);
	(void) contain(9, 8);
	(void) ffsm2::min(1, 2);
	(void) ffsm2::max(1, 2);
	TaskStatus a{TaskStatus::SUCCESS}, b;
	(void) (a | b);
	a |= b;
	(void) static_cast<bool>(a);
	a.clear();
	(void) methodName(Method::ENTER);
}
