// Witness w_inj: states with k = 0,1,2,3 injected bases; every callback kind is defined at every level (C15);
// N0, N1: states with k = 0,1 that define no callback of their own (what `Head::X` resolves to then must be a library no-op).
#include "w_common.hpp"

namespace inj {

using M = ffsm2::Machine;

struct Top; struct K0; struct K1; struct K2; struct K3; struct N0; struct N1;
using FSM = M::Root<Top, K0, K1, K2, K3, N0, N1>;

#define ALL_CALLBACKS                                                   \
	void entryGuard(GuardControl&) {}                                   \
	void enter(PlanControl&) {}                                         \
	void reenter(PlanControl&) {}                                       \
	void preUpdate(FullControl&) {}                                     \
	void update(FullControl&) {}                                        \
	void postUpdate(FullControl&) {}                                    \
	void preReact(const Ev1&, FullControl&) {}                          \
	void react(const Ev1&, FullControl&) {}                             \
	void postReact(const Ev1&, FullControl&) {}                         \
	void query(Ev1&, ConstControl&) const {}                            \
	void exitGuard(GuardControl&) {}                                    \
	void exit(PlanControl&) {}

struct I1 : FSM::State { ALL_CALLBACKS };
struct I2 : FSM::State { ALL_CALLBACKS };
struct I3 : FSM::State { ALL_CALLBACKS };

#ifdef FFSM2_ENABLE_PLANS
	#define PLAN_CALLBACKS void planSucceeded(FullControl&) {} void planFailed(FullControl&) {}
#else
	#define PLAN_CALLBACKS
#endif

struct Top : FSM::StateT<I1, I2> { ALL_CALLBACKS PLAN_CALLBACKS };	// a head with >= 2 injections must define the plan callbacks itself (ambiguous otherwise)
struct K0  : FSM::State          { ALL_CALLBACKS };
struct K1  : FSM::StateT<I1>     { ALL_CALLBACKS };
struct K2  : FSM::StateT<I1, I2> { ALL_CALLBACKS };
struct K3  : FSM::StateT<I1, I2, I3> { ALL_CALLBACKS };
struct N0  : FSM::State          { int own = 0; };
struct N1  : FSM::StateT<I1>     { int own = 0; };

inline void use() {
	FSM::Instance machine;
	machine.update();
	machine.react(Ev1{});
	Ev1 e;
	const FSM::Instance& cm = machine;
	cm.query(e);
	machine.immediateChangeTo<K3>();
}

}

void w_inj_use() { inj::use(); }
