// Witness w_bitarrays: BitArrayT<N> with every member instantiated, for every capacity N = 1..255 (C20.e).
#include "w_common.hpp"

using namespace ffsm2;
using namespace ffsm2::detail;

template <unsigned N>
struct UseBits {
	static void go() {
		BitArrayT<N> a, b;
		a.set();
		a.clear();
		(void) a.empty();
		a.set(Long{0});
		a.clear(Long{0});
		(void) a.get(Long{0});
		(void) (a & b);
		a &= b;
		BitArrayT<N> c{a};		// copies: implicit today; if they are ever hand-written, C20.e decides them for every capacity
		b = c;
		UseBits<N - 1>::go();
	}
};

template <>
struct UseBits<0> {
	static void go() {}
};

void w_bitarrays_use() { UseBits<255>::go(); }
