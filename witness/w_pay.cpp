// Witness w_pay: payload types of many sizes and alignments (C07.a, C18.b).
// Each machine requests a payload-carrying transition and appends a payload-carrying task.
#include "w_common.hpp"

struct P3   { char c[3]; };
struct alignas(16) A16 { int v; };
struct alignas(32) A32 { char c; };
struct alignas(64) A64 { double d; };
struct Mixed { char c; double d; short s; };
struct Big256 { char c[256]; };     // sizes at and beyond the range of the library's 8-bit integer types
struct Big300 { char c[300]; };
using LongLong = long long;
using LongDouble = long double;
using VoidPtr = void*;

#define PAY_MACHINE(NS, TYPE)                                                    \
namespace NS {                                                                   \
	using Config = ffsm2::Config::PayloadT<TYPE>;                                \
	using M = ffsm2::MachineT<Config>;                                           \
	struct A; struct B;                                                          \
	using FSM = M::PeerRoot<A, B>;                                               \
	struct A : FSM::State {                                                      \
		void update(FullControl& control) { control.changeWith<B>(TYPE{}); }     \
	};                                                                           \
	struct B : FSM::State {                                                      \
		void enter(PlanControl& control) {                                       \
			(void) control.currentTransition().payload();                        \
			PAY_PLAN(TYPE)                                                       \
		}                                                                        \
	};                                                                           \
	inline void use() {                                                          \
		FSM::Instance machine;                                                   \
		machine.changeWith<B>(TYPE{});                                           \
		machine.immediateChangeWith<A>(TYPE{});                                  \
		machine.update();                                                        \
		FSM::Instance copy{machine};                                             \
		copy.update();                                                           \
		static_assert(sizeof(FSM::Transition) > 0, "");                          \
	}                                                                            \
}

#ifdef FFSM2_ENABLE_PLANS
	#define PAY_PLAN(TYPE) control.plan().changeWith<A, B>(TYPE{});
#else
	#define PAY_PLAN(TYPE)
#endif

PAY_MACHINE(p_char,   char)
PAY_MACHINE(p_short,  short)
PAY_MACHINE(p_int,    int)
PAY_MACHINE(p_llong,  LongLong)
PAY_MACHINE(p_double, double)
PAY_MACHINE(p_ldbl,   LongDouble)
PAY_MACHINE(p_ptr,    VoidPtr)
PAY_MACHINE(p_p3,     P3)
PAY_MACHINE(p_a16,    A16)
PAY_MACHINE(p_a32,    A32)
PAY_MACHINE(p_a64,    A64)
PAY_MACHINE(p_mixed,  Mixed)
PAY_MACHINE(p_big256, Big256)
PAY_MACHINE(p_big300, Big300)

void w_pay_use() {
	p_char::use(); p_short::use(); p_int::use(); p_llong::use(); p_double::use(); p_ldbl::use();
	p_ptr::use(); p_p3::use(); p_a16::use(); p_a32::use(); p_a64::use(); p_mixed::use(); p_big256::use(); p_big300::use();
}
