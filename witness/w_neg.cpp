// Witness w_neg: lines that must NOT compile (C05.d, C12.c). Every line carrying the marker (see below) must produce at least
// diagnostic, and no unmarked line may produce one. Compiled with -fsyntax-only -ferror-limit=0; nothing is run.
#define FFSM2_ENABLE_PLANS
#define FFSM2_ENABLE_SERIALIZATION
#include "w_common.hpp"

namespace neg {

using M = ffsm2::Machine;
struct A; struct B;
using FSM = M::PeerRoot<A, B>;

struct A : FSM::State {
	using FSM::State::query;
	void query(Ev1&, ConstControl& control) const {
		(void) control.isActive<B>();						// allowed: read-only
		control.changeTo<B>();								// EXPECT-ERROR a const control cannot request a transition
		control.succeed();									// EXPECT-ERROR a const control cannot report task results
		control._core.registry.active = 0;					// EXPECT-ERROR the core is not accessible to user code
	}
	void update(FullControl& control) {
		control._core.registry.active = 0;					// EXPECT-ERROR the core is not accessible to user code
		control._originId = 0;								// EXPECT-ERROR the origin id is not writable by user code
	}
	void entryGuard(GuardControl& control) {
		control._cancelled = false;							// EXPECT-ERROR a cancellation cannot be revoked
	}
};
struct B : FSM::State {};

inline void use() {
	FSM::Instance machine;
	const FSM::Instance& cm = machine;
	Ev1 e;
	cm.query(e);											// allowed: query is const
	(void) cm.activeStateId();								// allowed
	cm.update();											// EXPECT-ERROR update() on a const machine
	cm.react(e);											// EXPECT-ERROR react() on a const machine
	cm.changeTo<B>();										// EXPECT-ERROR changeTo() on a const machine
	cm.immediateChangeTo<B>();								// EXPECT-ERROR immediateChangeTo() on a const machine
	FSM::Instance::SerialBuffer buffer;
	cm.save(buffer);										// allowed: save is const
	cm.load(buffer);										// EXPECT-ERROR load() on a const machine
	machine.initialEnter();									// EXPECT-ERROR activation internals are not public
	machine.processRequest();								// EXPECT-ERROR request processing is not public
	machine._core.registry.active = 0;						// EXPECT-ERROR the core is not public
	auto cplan = cm.plan();
	cplan.clear();											// EXPECT-ERROR a read-only plan cannot be cleared
	cplan.change<A, B>();									// EXPECT-ERROR a read-only plan cannot be edited
}

}
