// ffsm2-facts — fact extractor for the FFSM2 verification framework (engine E1).
//
// Usage: ffsm2-facts <out.json> <source.cpp> [clang args...]
//
// Parses one witness translation unit with clang's front end (nothing is run),
// walks every *instantiated* function definition whose source lives in an FFSM2
// file and writes the type-checked, callee-resolved body as a JSON tree, plus
// record layouts, constructor initialiser coverage, evaluated static constants
// and mutable globals. The analyses (Python, /verif/lint) consume that file.
//
// An AST node kind this tool does not know is emitted as {"k":"unknown"} /
// {"s":"unknown"}; the analyses treat any such node inside an analysed
// function as "analysis broken" (exit 2), never as a pass.

#include "clang/AST/ASTConsumer.h"
#include "clang/AST/ASTContext.h"
#include "clang/AST/DeclCXX.h"
#include "clang/AST/DeclTemplate.h"
#include "clang/AST/ExprCXX.h"
#include "clang/AST/RecordLayout.h"
#include "clang/AST/RecursiveASTVisitor.h"
#include "clang/AST/StmtCXX.h"
#include "clang/Frontend/CompilerInstance.h"
#include "clang/Frontend/FrontendAction.h"
#include "clang/Lex/Lexer.h"
#include "clang/Tooling/CompilationDatabase.h"
#include "clang/Tooling/Tooling.h"
#include "llvm/Support/JSON.h"
#include "llvm/Support/raw_ostream.h"

#include <map>
#include <set>
#include <string>
#include <vector>

using namespace clang;
namespace json = llvm::json;

static std::string OutPath;

namespace {

bool isFfsmPath(llvm::StringRef p) {
  return p.contains("ffsm2/machine.hpp") || p.contains("/development/ffsm2/");
}

class Extractor : public RecursiveASTVisitor<Extractor> {
public:
  ASTContext &Ctx;
  SourceManager &SM;
  PrintingPolicy PP;
  std::map<const FunctionDecl *, int> FnIds;
  std::vector<const FunctionDecl *> FnOrder;   // functions whose bodies we emit
  std::map<const Decl *, int> VarIds;
  std::set<const CXXRecordDecl *> Records;
  std::vector<const CXXRecordDecl *> RecordOrder;
  std::vector<const VarDecl *> Globals;
  int Unknown = 0;

  explicit Extractor(ASTContext &C)
      : Ctx(C), SM(C.getSourceManager()), PP(C.getLangOpts()) {
    PP.SuppressTagKeyword = true;
    PP.Bool = true;
    PP.FullyQualifiedName = true;
    PP.PrintCanonicalTypes = true;
  }

  bool shouldVisitTemplateInstantiations() const { return true; }
  bool shouldVisitImplicitCode() const { return true; }

  // ---------------------------------------------------------------- helpers
  std::string locStr(SourceLocation L) {
    if (L.isInvalid()) return "";
    SourceLocation E = SM.getExpansionLoc(L);
    PresumedLoc P = SM.getPresumedLoc(E);
    if (P.isInvalid()) return "";
    return (llvm::Twine(P.getFilename()) + ":" + llvm::Twine(P.getLine()) + ":" +
            llvm::Twine(P.getColumn())).str();
  }
  bool inFfsm(SourceLocation L) {
    if (L.isInvalid()) return false;
    SourceLocation E = SM.getExpansionLoc(L);
    PresumedLoc P = SM.getPresumedLoc(E);
    if (P.isInvalid()) return false;
    return isFfsmPath(P.getFilename());
  }
  std::string typeStr(QualType T) { return T.getAsString(PP); }

  std::string declName(const NamedDecl *D) {
    std::string S;
    llvm::raw_string_ostream OS(S);
    D->getNameForDiagnostic(OS, PP, /*Qualified=*/true);
    return OS.str();
  }
  std::string recordName(const CXXRecordDecl *R) {
    if (!R) return "";
    return typeStr(Ctx.getRecordType(R));
  }
  static const FunctionDecl *canonFn(const FunctionDecl *F) {
    return F ? F->getCanonicalDecl() : nullptr;
  }
  // the defining declaration (with body) if there is one
  const FunctionDecl *defOf(const FunctionDecl *F) {
    const FunctionDecl *D = nullptr;
    if (F && F->hasBody(D)) return D;
    return nullptr;
  }
  const FunctionDecl *patternOf(const FunctionDecl *F) {
    if (const FunctionDecl *P = F->getTemplateInstantiationPattern()) {
      const FunctionDecl *D = nullptr;
      if (P->hasBody(D)) return D;
      return P;
    }
    return F;
  }
  bool fnInFfsm(const FunctionDecl *F) {
    const FunctionDecl *P = patternOf(F);
    if (inFfsm(P->getLocation())) return true;
    // implicit members of FFSM2 classes
    if (F->isImplicit() || F->isDefaulted())
      if (auto *M = dyn_cast<CXXMethodDecl>(F))
        return recInFfsm(M->getParent());
    return false;
  }
  bool recInFfsm(const CXXRecordDecl *R) {
    if (!R) return false;
    const CXXRecordDecl *P = R;
    if (auto *S = dyn_cast<ClassTemplateSpecializationDecl>(R)) {
      auto U = S->getSpecializedTemplateOrPartial();
      if (auto *CT = U.dyn_cast<ClassTemplateDecl *>())
        P = CT->getTemplatedDecl();
      else if (auto *PS = U.dyn_cast<ClassTemplatePartialSpecializationDecl *>())
        P = PS;
    } else if (const CXXRecordDecl *MP = R->getTemplateInstantiationPattern()) {
      P = MP;
    }
    return inFfsm(P->getLocation());
  }
  int fnId(const FunctionDecl *F) {
    F = canonFn(F);
    auto It = FnIds.find(F);
    if (It != FnIds.end()) return It->second;
    int Id = (int)FnIds.size();
    FnIds[F] = Id;
    return Id;
  }
  int varId(const Decl *D) {
    D = D->getCanonicalDecl();
    auto It = VarIds.find(D);
    if (It != VarIds.end()) return It->second;
    int Id = (int)VarIds.size();
    VarIds[D] = Id;
    return Id;
  }
  void noteRecord(const CXXRecordDecl *R) {
    if (!R) return;
    R = R->getDefinition();
    if (!R || R->isDependentType() || R->isInvalidDecl()) return;
    if (!recInFfsm(R)) return;
    if (Records.insert(R).second) RecordOrder.push_back(R);
  }

  // ---------------------------------------------------------------- visiting
  bool VisitFunctionDecl(FunctionDecl *F) {
    if (!F->doesThisDeclarationHaveABody()) return true;
    if (F->isDependentContext()) return true;
    if (F->isInvalidDecl()) return true;
    if (!fnInFfsm(F)) return true;
    if (isa<CXXDeductionGuideDecl>(F)) return true;
    const FunctionDecl *C = canonFn(F);
    if (!Seen.insert(C).second) return true;
    fnId(F);
    FnOrder.push_back(F);
    if (auto *M = dyn_cast<CXXMethodDecl>(F)) noteRecord(M->getParent());
    return true;
  }
  bool VisitCXXRecordDecl(CXXRecordDecl *R) {
    if (R->isThisDeclarationADefinition() && !R->isDependentType()) noteRecord(R);
    return true;
  }
  bool VisitVarDecl(VarDecl *V) {
    if (isa<ParmVarDecl>(V)) return true;
    if (V->getDeclContext()->isDependentContext()) return true;
    if (!V->hasGlobalStorage()) return true;
    if (!inFfsm(V->getLocation())) return true;
    if (V->isThisDeclarationADefinition() || V->isStaticDataMember()) Globals.push_back(V);
    return true;
  }
  std::set<const FunctionDecl *> Seen;

  // ---------------------------------------------------------------- callee description
  void calleeInfo(json::Object &O, const FunctionDecl *F) {
    if (!F) { O["fn"] = nullptr; return; }
    O["fn"] = fnId(F);
    O["name"] = declName(F);
    if (auto *M = dyn_cast<CXXMethodDecl>(F)) {
      O["cls"] = recordName(M->getParent());
      if (M->isVirtual()) O["virt"] = true;
      if (M->isStatic()) O["static"] = true;
    }
    O["m"] = F->getDeclName().getAsString();
    bool Ext = !fnInFfsm(F);
    if (Ext) {
      O["ext"] = true;
      O["defloc"] = locStr(patternOf(F)->getLocation());
    }
  }

  // ---------------------------------------------------------------- expressions
  json::Value unknownExpr(const Stmt *S) {
    ++Unknown;
    json::Object O;
    O["k"] = "unknown";
    O["cls"] = S->getStmtClassName();
    O["l"] = locStr(S->getBeginLoc());
    return std::move(O);
  }

  bool tryConst(const Expr *E, json::Object &O) {
    if (E->isValueDependent() || E->isTypeDependent()) return false;
    QualType T = E->getType();
    if (!(T->isIntegralOrEnumerationType() || T->isBooleanType())) return false;
    if (E->HasSideEffects(Ctx)) return false;
    Expr::EvalResult R;
    if (!E->EvaluateAsInt(R, Ctx, Expr::SE_NoSideEffects)) return false;
    if (R.HasSideEffects) return false;
    O["k"] = "c";
    llvm::APSInt V = R.Val.getInt();
    O["v"] = V.isSigned() ? (int64_t)V.getSExtValue() : (int64_t)V.getZExtValue();
    O["ty"] = typeStr(T);
    const Expr *I = E->IgnoreParenImpCasts();
    if (auto *D = dyn_cast<DeclRefExpr>(I)) O["n"] = D->getDecl()->getNameAsString();
    return true;
  }

  json::Value expr(const Expr *E) {
    if (!E) return nullptr;
    // transparent wrappers
    if (auto *X = dyn_cast<ParenExpr>(E)) return expr(X->getSubExpr());
    if (auto *X = dyn_cast<ConstantExpr>(E)) return expr(X->getSubExpr());
    if (auto *X = dyn_cast<ExprWithCleanups>(E)) return expr(X->getSubExpr());
    if (auto *X = dyn_cast<CXXBindTemporaryExpr>(E)) return expr(X->getSubExpr());
    if (auto *X = dyn_cast<SubstNonTypeTemplateParmExpr>(E)) return expr(X->getReplacement());
    if (auto *X = dyn_cast<CXXDefaultArgExpr>(E)) return expr(X->getExpr());
    if (auto *X = dyn_cast<CXXDefaultInitExpr>(E)) {
      json::Object O;
      O["k"] = "definit";
      O["e"] = expr(X->getExpr());
      return std::move(O);
    }
    if (auto *X = dyn_cast<MaterializeTemporaryExpr>(E)) {
      json::Object O;
      O["k"] = "tmp";
      O["ty"] = typeStr(X->getType());
      O["e"] = expr(X->getSubExpr());
      return std::move(O);
    }

    {
      json::Object C;
      if (tryConst(E, C)) return std::move(C);
    }

    if (auto *X = dyn_cast<ImplicitCastExpr>(E)) {
      switch (X->getCastKind()) {
      case CK_DerivedToBase:
      case CK_UncheckedDerivedToBase:
      case CK_BaseToDerived:
      case CK_DerivedToBaseMemberPointer:
      case CK_BaseToDerivedMemberPointer:
      case CK_ReinterpretMemberPointer:
      case CK_BitCast:
      case CK_LValueBitCast: {
        json::Object O;
        O["k"] = "cast";
        O["ck"] = "implicit";
        O["kind"] = X->getCastKindName();
        O["ty"] = typeStr(X->getType());
        O["e"] = expr(X->getSubExpr());
        return std::move(O);
      }
      default:
        return expr(X->getSubExpr());
      }
    }
    if (auto *X = dyn_cast<ExplicitCastExpr>(E)) {
      json::Object O;
      O["k"] = "cast";
      if (isa<CXXStaticCastExpr>(X)) O["ck"] = "static";
      else if (isa<CXXReinterpretCastExpr>(X)) O["ck"] = "reinterpret";
      else if (isa<CXXConstCastExpr>(X)) O["ck"] = "const";
      else if (isa<CXXDynamicCastExpr>(X)) O["ck"] = "dynamic";
      else if (isa<CXXFunctionalCastExpr>(X)) O["ck"] = "functional";
      else if (isa<CStyleCastExpr>(X)) O["ck"] = "cstyle";
      else O["ck"] = "other";
      O["kind"] = X->getCastKindName();
      O["ty"] = typeStr(X->getTypeAsWritten());
      O["e"] = expr(X->getSubExpr());
      return std::move(O);
    }
    if (isa<CXXThisExpr>(E)) {
      json::Object O;
      O["k"] = "this";
      return std::move(O);
    }
    if (auto *X = dyn_cast<DeclRefExpr>(E)) {
      const ValueDecl *D = X->getDecl();
      if (auto *F = dyn_cast<FunctionDecl>(D)) {
        json::Object O;
        O["k"] = "fnref";
        calleeInfo(O, F);
        return std::move(O);
      }
      if (auto *V = dyn_cast<VarDecl>(D)) {
        json::Object O;
        O["k"] = "var";
        O["n"] = V->getNameAsString();
        O["id"] = varId(V);
        O["ty"] = typeStr(V->getType());
        if (auto *P = dyn_cast<ParmVarDecl>(V)) {
          O["vk"] = "param";
          O["pi"] = (int)P->getFunctionScopeIndex();
        } else if (V->isLocalVarDecl()) {
          O["vk"] = V->isStaticLocal() ? "static_local" : "local";
        } else if (V->isStaticDataMember()) {
          O["vk"] = "static_member";
          O["qn"] = declName(V);
        } else {
          O["vk"] = "global";
          O["qn"] = declName(V);
        }
        if (V->getType()->isReferenceType()) O["ref"] = true;
        return std::move(O);
      }
      if (auto *EC = dyn_cast<EnumConstantDecl>(D)) {
        json::Object O;
        O["k"] = "c";
        O["v"] = (int64_t)EC->getInitVal().getExtValue();
        O["n"] = EC->getNameAsString();
        O["ty"] = typeStr(X->getType());
        return std::move(O);
      }
      if (auto *B = dyn_cast<BindingDecl>(D)) {
        (void)B;
        return unknownExpr(E);
      }
      if (isa<FieldDecl>(D) || isa<CXXMethodDecl>(D) || isa<IndirectFieldDecl>(D)) {
        // &Class::member
        json::Object O;
        O["k"] = "memptr";
        O["n"] = declName(cast<NamedDecl>(D));
        return std::move(O);
      }
      return unknownExpr(E);
    }
    if (auto *X = dyn_cast<MemberExpr>(E)) {
      const ValueDecl *D = X->getMemberDecl();
      if (auto *F = dyn_cast<FieldDecl>(D)) {
        json::Object O;
        O["k"] = "mem";
        O["b"] = expr(X->getBase());
        O["f"] = F->getNameAsString();
        O["rec"] = recordName(dyn_cast<CXXRecordDecl>(F->getParent()));
        O["ty"] = typeStr(F->getType());
        if (X->isArrow()) O["arrow"] = true;
        if (F->getType()->isReferenceType()) O["ref"] = true;
        return std::move(O);
      }
      if (auto *M = dyn_cast<CXXMethodDecl>(D)) {
        // bound member function outside a call (should not happen)
        json::Object O;
        O["k"] = "boundfn";
        O["b"] = expr(X->getBase());
        calleeInfo(O, M);
        return std::move(O);
      }
      if (auto *V = dyn_cast<VarDecl>(D)) {
        json::Object O;
        O["k"] = "var";
        O["n"] = V->getNameAsString();
        O["id"] = varId(V);
        O["vk"] = "static_member";
        O["qn"] = declName(V);
        O["ty"] = typeStr(V->getType());
        return std::move(O);
      }
      return unknownExpr(E);
    }
    if (auto *X = dyn_cast<UnaryOperator>(E)) {
      json::Object O;
      O["k"] = "un";
      O["op"] = UnaryOperator::getOpcodeStr(X->getOpcode()).str();
      if (X->isPostfix()) O["post"] = true;
      O["e"] = expr(X->getSubExpr());
      return std::move(O);
    }
    if (auto *X = dyn_cast<CompoundAssignOperator>(E)) {
      json::Object O;
      O["k"] = "asg";
      O["op"] = X->getOpcodeStr().str();
      O["l"] = expr(X->getLHS());
      O["r"] = expr(X->getRHS());
      O["loc"] = locStr(X->getOperatorLoc());
      return std::move(O);
    }
    if (auto *X = dyn_cast<BinaryOperator>(E)) {
      json::Object O;
      if (X->isAssignmentOp()) {
        O["k"] = "asg";
        O["loc"] = locStr(X->getOperatorLoc());
      } else
        O["k"] = "bin";
      O["op"] = X->getOpcodeStr().str();
      O["l"] = expr(X->getLHS());
      O["r"] = expr(X->getRHS());
      // address-dependent arithmetic / comparison (C17.e): an operand of pointer type
      if (X->getLHS()->getType()->isPointerType() || X->getRHS()->getType()->isPointerType()) O["ptr"] = true;
      return std::move(O);
    }
    if (auto *X = dyn_cast<ConditionalOperator>(E)) {
      json::Object O;
      O["k"] = "cond";
      O["c"] = expr(X->getCond());
      O["t"] = expr(X->getTrueExpr());
      O["f"] = expr(X->getFalseExpr());
      return std::move(O);
    }
    if (auto *X = dyn_cast<ArraySubscriptExpr>(E)) {
      json::Object O;
      O["k"] = "idx";
      O["b"] = expr(X->getBase());
      O["i"] = expr(X->getIdx());
      QualType BT = X->getBase()->IgnoreParenImpCasts()->getType();
      if (const auto *AT = Ctx.getAsConstantArrayType(BT))
        O["extent"] = (int64_t)AT->getSize().getZExtValue();
      return std::move(O);
    }
    if (auto *X = dyn_cast<CXXOperatorCallExpr>(E)) {
      json::Object O;
      O["k"] = "call";
      const FunctionDecl *F = X->getDirectCallee();
      calleeInfo(O, F);
      O["op"] = getOperatorSpelling(X->getOperator());
      O["l"] = locStr(X->getOperatorLoc());
      json::Array A;
      unsigned Start = 0;
      if (F && isa<CXXMethodDecl>(F) && !cast<CXXMethodDecl>(F)->isStatic()) {
        O["obj"] = expr(X->getArg(0));
        Start = 1;
      }
      for (unsigned I = Start; I < X->getNumArgs(); ++I) A.push_back(expr(X->getArg(I)));
      O["args"] = std::move(A);
      return std::move(O);
    }
    if (auto *X = dyn_cast<CXXMemberCallExpr>(E)) {
      json::Object O;
      O["k"] = "call";
      O["l"] = locStr(X->getExprLoc());
      const Expr *Callee = X->getCallee()->IgnoreParens();
      if (auto *ME = dyn_cast<MemberExpr>(Callee)) {
        const CXXMethodDecl *M = X->getMethodDecl();
        calleeInfo(O, M);
        O["obj"] = expr(ME->getBase());
        if (ME->isArrow()) O["arrow"] = true;
        if (ME->hasQualifier()) O["qualified"] = true;   // Head::enter(...) — non-virtual dispatch
      } else if (auto *BO = dyn_cast<BinaryOperator>(Callee)) {
        // (obj.*ptr)(...) / (obj->*ptr)(...)
        O["fn"] = nullptr;
        json::Object PM;
        PM["obj"] = expr(BO->getLHS());
        PM["ptr"] = expr(BO->getRHS());
        if (BO->getOpcode() == BO_PtrMemI) PM["arrow"] = true;
        O["pm"] = std::move(PM);
      } else if (auto *PD = dyn_cast<CXXPseudoDestructorExpr>(Callee)) {
        O["fn"] = nullptr;
        O["m"] = "~";
        O["obj"] = expr(PD->getBase());
      } else {
        return unknownExpr(E);
      }
      json::Array A;
      for (const Expr *Arg : X->arguments()) A.push_back(expr(Arg));
      O["args"] = std::move(A);
      return std::move(O);
    }
    if (auto *X = dyn_cast<CallExpr>(E)) {
      json::Object O;
      O["k"] = "call";
      O["l"] = locStr(X->getExprLoc());
      const FunctionDecl *F = X->getDirectCallee();
      if (F) {
        calleeInfo(O, F);
        if (F->getBuiltinID()) O["builtin"] = true;
      } else if (isa<CXXPseudoDestructorExpr>(X->getCallee()->IgnoreParens())) {
        auto *PD = cast<CXXPseudoDestructorExpr>(X->getCallee()->IgnoreParens());
        O["fn"] = nullptr;
        O["m"] = "~";
        O["obj"] = expr(PD->getBase());
      } else {
        O["fn"] = nullptr;
        O["indirect"] = expr(X->getCallee());
      }
      json::Array A;
      for (const Expr *Arg : X->arguments()) A.push_back(expr(Arg));
      O["args"] = std::move(A);
      return std::move(O);
    }
    if (auto *X = dyn_cast<CXXConstructExpr>(E)) {
      json::Object O;
      O["k"] = "ctor";
      const CXXConstructorDecl *CD = X->getConstructor();
      calleeInfo(O, CD);
      O["ty"] = typeStr(X->getType());
      O["l"] = locStr(X->getExprLoc());
      if (CD->isCopyConstructor()) O["copy"] = true;
      if (CD->isMoveConstructor()) O["move"] = true;
      if (CD->isDefaultConstructor()) O["default"] = true;
      if (CD->isTrivial()) O["trivial"] = true;
      if (X->isElidable()) O["elidable"] = true;
      if (X->isListInitialization()) O["list"] = true;
      if (X->requiresZeroInitialization()) O["zeroinit"] = true;
      json::Array A;
      for (const Expr *Arg : X->arguments()) A.push_back(expr(Arg));
      O["args"] = std::move(A);
      noteRecord(CD->getParent());
      return std::move(O);
    }
    if (auto *X = dyn_cast<CXXInheritedCtorInitExpr>(E)) {
      json::Object O;
      O["k"] = "inhctor";
      calleeInfo(O, X->getConstructor());
      return std::move(O);
    }
    if (auto *X = dyn_cast<CXXNewExpr>(E)) {
      json::Object O;
      O["k"] = "new";
      O["l"] = locStr(X->getExprLoc());
      O["ty"] = typeStr(X->getAllocatedType());
      if (X->isArray()) O["array"] = true;
      json::Array A;
      for (const Expr *Arg : X->placement_arguments()) A.push_back(expr(Arg));
      O["place"] = std::move(A);
      if (const FunctionDecl *ON = X->getOperatorNew()) {
        json::Object OO;
        calleeInfo(OO, ON);
        OO["reserved_placement"] = ON->isReservedGlobalPlacementOperator();
        O["opnew"] = std::move(OO);
      }
      O["init"] = X->getInitializer() ? expr(X->getInitializer()) : json::Value(nullptr);
      return std::move(O);
    }
    if (auto *X = dyn_cast<CXXDeleteExpr>(E)) {
      json::Object O;
      O["k"] = "delete";
      O["l"] = locStr(X->getExprLoc());
      O["e"] = expr(X->getArgument());
      return std::move(O);
    }
    if (auto *X = dyn_cast<InitListExpr>(E)) {
      if (X->isSemanticForm() == false && X->getSemanticForm()) X = X->getSemanticForm();
      json::Object O;
      O["k"] = "init";
      O["ty"] = typeStr(X->getType());
      json::Array A;
      for (const Expr *I : X->inits()) A.push_back(expr(I));
      O["es"] = std::move(A);
      if (X->hasArrayFiller()) O["filler"] = expr(X->getArrayFiller());
      return std::move(O);
    }
    if (auto *X = dyn_cast<CXXScalarValueInitExpr>(E)) {
      json::Object O;
      O["k"] = "zero";
      O["ty"] = typeStr(X->getType());
      return std::move(O);
    }
    if (auto *X = dyn_cast<ImplicitValueInitExpr>(E)) {
      json::Object O;
      O["k"] = "zero";
      O["ty"] = typeStr(X->getType());
      return std::move(O);
    }
    if (auto *X = dyn_cast<ArrayInitLoopExpr>(E)) {
      json::Object O;
      O["k"] = "arraycopy";
      O["src"] = expr(X->getCommonExpr()->getSourceExpr());
      return std::move(O);
    }
    if (auto *X = dyn_cast<OpaqueValueExpr>(E)) {
      if (X->getSourceExpr()) return expr(X->getSourceExpr());
      return unknownExpr(E);
    }
    if (isa<CXXNullPtrLiteralExpr>(E) || isa<GNUNullExpr>(E)) {
      json::Object O;
      O["k"] = "null";
      return std::move(O);
    }
    if (auto *X = dyn_cast<StringLiteral>(E)) {
      json::Object O;
      O["k"] = "str";
      O["v"] = X->getBytes().str();
      return std::move(O);
    }
    if (auto *X = dyn_cast<FloatingLiteral>(E)) {
      json::Object O;
      O["k"] = "float";
      O["v"] = X->getValueAsApproximateDouble();
      return std::move(O);
    }
    if (auto *X = dyn_cast<CXXTypeidExpr>(E)) {
      json::Object O;
      O["k"] = "typeid";
      O["ty"] = X->isTypeOperand() ? typeStr(X->getTypeOperand(Ctx)) : std::string("<expr>");
      return std::move(O);
    }
    if (auto *X = dyn_cast<UnaryExprOrTypeTraitExpr>(E)) {
      (void)X;
      return unknownExpr(E);   // non-constant sizeof/alignof cannot occur
    }
    if (auto *X = dyn_cast<CXXNoexceptExpr>(E)) {
      json::Object O;
      O["k"] = "c";
      O["v"] = (int64_t)X->getValue();
      O["ty"] = "bool";
      return std::move(O);
    }
    if (auto *X = dyn_cast<CXXStdInitializerListExpr>(E)) return expr(X->getSubExpr());
    return unknownExpr(E);
  }

  // ---------------------------------------------------------------- statements
  json::Value varDecl(const VarDecl *V) {
    json::Object O;
    O["n"] = V->getNameAsString();
    O["id"] = varId(V);
    O["ty"] = typeStr(V->getType());
    O["l"] = locStr(V->getLocation());
    if (V->getType()->isReferenceType()) O["ref"] = true;
    if (V->isStaticLocal()) O["static"] = true;
    if (V->getType().isConstQualified()) O["const"] = true;
    O["init"] = V->getInit() ? expr(V->getInit()) : json::Value(nullptr);
    QualType T = V->getType().getNonReferenceType();
    if (!V->getType()->isReferenceType())
      if (const CXXRecordDecl *R = T->getAsCXXRecordDecl()) {
        O["cls"] = recordName(R);
        noteRecord(R);
        if (R->hasDefinition() && !R->hasTrivialDestructor())
          if (const CXXDestructorDecl *D = R->getDestructor()) {
            json::Object DO;
            calleeInfo(DO, D);
            O["dtor"] = std::move(DO);
          }
      }
    if (!V->getInit() && !V->getType()->isReferenceType() && T->isScalarType())
      O["uninit"] = true;
    return std::move(O);
  }

  json::Value stmt(const Stmt *S) {
    if (!S) return nullptr;
    if (auto *X = dyn_cast<CompoundStmt>(S)) {
      json::Object O;
      O["s"] = "block";
      json::Array A;
      for (const Stmt *C : X->body()) A.push_back(stmt(C));
      O["b"] = std::move(A);
      return std::move(O);
    }
    if (auto *X = dyn_cast<DeclStmt>(S)) {
      json::Object O;
      O["s"] = "decl";
      O["l"] = locStr(X->getBeginLoc());
      json::Array A;
      for (const Decl *D : X->decls()) {
        if (auto *V = dyn_cast<VarDecl>(D)) A.push_back(varDecl(V));
        else if (isa<TypedefNameDecl>(D) || isa<StaticAssertDecl>(D) || isa<UsingDecl>(D) ||
                 isa<TagDecl>(D) || isa<EmptyDecl>(D) || isa<UsingShadowDecl>(D))
          continue;
        else {
          ++Unknown;
          json::Object U;
          U["unknown_decl"] = D->getDeclKindName();
          A.push_back(std::move(U));
        }
      }
      O["vars"] = std::move(A);
      return std::move(O);
    }
    if (auto *X = dyn_cast<IfStmt>(S)) {
      json::Object O;
      O["s"] = "if";
      O["l"] = locStr(X->getIfLoc());
      if (X->getInit()) O["init"] = stmt(X->getInit());
      if (const VarDecl *CV = X->getConditionVariable()) O["cv"] = varDecl(CV);
      O["c"] = expr(X->getCond());
      O["t"] = stmt(X->getThen());
      O["e"] = X->getElse() ? stmt(X->getElse()) : json::Value(nullptr);
      if (X->isConstexpr()) O["constexpr"] = true;
      return std::move(O);
    }
    if (auto *X = dyn_cast<ForStmt>(S)) {
      json::Object O;
      O["s"] = "for";
      O["l"] = locStr(X->getForLoc());
      O["init"] = X->getInit() ? stmt(X->getInit()) : json::Value(nullptr);
      if (const VarDecl *CV = X->getConditionVariable()) O["cv"] = varDecl(CV);
      O["c"] = X->getCond() ? expr(X->getCond()) : json::Value(nullptr);
      O["inc"] = X->getInc() ? expr(X->getInc()) : json::Value(nullptr);
      O["body"] = stmt(X->getBody());
      return std::move(O);
    }
    if (auto *X = dyn_cast<CXXForRangeStmt>(S)) {
      json::Object O;
      O["s"] = "rfor";
      O["l"] = locStr(X->getForLoc());
      const Expr *R = X->getRangeInit();
      O["range"] = expr(R);
      QualType RT = R->getType().getNonReferenceType();
      if (const auto *AT = Ctx.getAsConstantArrayType(RT))
        O["extent"] = (int64_t)AT->getSize().getZExtValue();
      else {
        // class range: record begin/end/!=/++/* callees
        json::Object H;
        if (X->getBeginStmt()) H["begin"] = stmt(X->getBeginStmt());
        if (X->getEndStmt()) H["end"] = stmt(X->getEndStmt());
        if (X->getCond()) H["cond"] = expr(X->getCond());
        if (X->getInc()) H["inc"] = expr(X->getInc());
        O["proto"] = std::move(H);
      }
      O["var"] = varDecl(X->getLoopVariable());
      O["body"] = stmt(X->getBody());
      return std::move(O);
    }
    if (auto *X = dyn_cast<WhileStmt>(S)) {
      json::Object O;
      O["s"] = "while";
      O["l"] = locStr(X->getWhileLoc());
      O["c"] = expr(X->getCond());
      O["body"] = stmt(X->getBody());
      return std::move(O);
    }
    if (auto *X = dyn_cast<DoStmt>(S)) {
      json::Object O;
      O["s"] = "do";
      O["l"] = locStr(X->getDoLoc());
      O["c"] = expr(X->getCond());
      O["body"] = stmt(X->getBody());
      return std::move(O);
    }
    if (auto *X = dyn_cast<ReturnStmt>(S)) {
      json::Object O;
      O["s"] = "ret";
      O["l"] = locStr(X->getReturnLoc());
      O["e"] = X->getRetValue() ? expr(X->getRetValue()) : json::Value(nullptr);
      return std::move(O);
    }
    if (isa<NullStmt>(S)) {
      json::Object O;
      O["s"] = "null";
      return std::move(O);
    }
    if (isa<BreakStmt>(S)) {
      json::Object O;
      O["s"] = "break";
      return std::move(O);
    }
    if (isa<ContinueStmt>(S)) {
      json::Object O;
      O["s"] = "cont";
      return std::move(O);
    }
    if (auto *X = dyn_cast<SwitchStmt>(S)) {
      json::Object O;
      O["s"] = "switch";
      O["l"] = locStr(X->getSwitchLoc());
      O["c"] = expr(X->getCond());
      O["body"] = stmt(X->getBody());
      return std::move(O);
    }
    if (auto *X = dyn_cast<CaseStmt>(S)) {
      json::Object O;
      O["s"] = "case";
      O["v"] = expr(X->getLHS());
      O["sub"] = stmt(X->getSubStmt());
      return std::move(O);
    }
    if (auto *X = dyn_cast<DefaultStmt>(S)) {
      json::Object O;
      O["s"] = "default";
      O["sub"] = stmt(X->getSubStmt());
      return std::move(O);
    }
    if (auto *X = dyn_cast<AttributedStmt>(S)) return stmt(X->getSubStmt());
    if (auto *X = dyn_cast<Expr>(S)) {
      json::Object O;
      O["s"] = "expr";
      O["l"] = locStr(X->getExprLoc());
      O["e"] = expr(X);
      return std::move(O);
    }
    ++Unknown;
    json::Object O;
    O["s"] = "unknown";
    O["cls"] = S->getStmtClassName();
    O["l"] = locStr(S->getBeginLoc());
    return std::move(O);
  }

  // ---------------------------------------------------------------- functions
  void templateInfo(json::Object &O, const CXXRecordDecl *R) {
    if (!R) return;
    O["cls"] = recordName(R);
    if (auto *S = dyn_cast<ClassTemplateSpecializationDecl>(R)) {
      O["tmpl"] = S->getSpecializedTemplate()->getQualifiedNameAsString();
      auto U = S->getSpecializedTemplateOrPartial();
      if (auto *PS = U.dyn_cast<ClassTemplatePartialSpecializationDecl *>())
        O["spec"] = locStr(PS->getLocation());
      else if (S->isExplicitSpecialization())
        O["spec"] = "explicit:" + locStr(S->getLocation());
      else
        O["spec"] = "primary";
      std::vector<TemplateArgument> Flat;
      for (const TemplateArgument &TA : S->getTemplateArgs().asArray()) {
        if (TA.getKind() == TemplateArgument::Pack)
          for (const TemplateArgument &PA : TA.pack_elements()) Flat.push_back(PA);
        else
          Flat.push_back(TA);
      }
      json::Array A;
      for (const TemplateArgument &TA : Flat) {
        std::string Str;
        llvm::raw_string_ostream OS(Str);
        TA.print(PP, OS, /*IncludeType=*/false);
        A.push_back(OS.str());
      }
      O["targs"] = std::move(A);
      json::Array TI;
      for (const TemplateArgument &TA : Flat) {
        json::Object T;
        if (TA.getKind() == TemplateArgument::Type) {
          QualType QT = TA.getAsType();
          T["ty"] = typeStr(QT);
          if (!QT->isDependentType() && !QT->isIncompleteType() && QT->isObjectType() && !QT->isReferenceType()) {
            T["size"] = (int64_t)Ctx.getTypeSizeInChars(QT).getQuantity();
            T["align"] = (int64_t)Ctx.getTypeAlignInChars(QT).getQuantity();
          }
        } else if (TA.getKind() == TemplateArgument::Integral) {
          llvm::APSInt I = TA.getAsIntegral();
          T["int"] = I.isSigned() ? (int64_t)I.getSExtValue() : (int64_t)I.getZExtValue();
        }
        TI.push_back(std::move(T));
      }
      O["targinfo"] = std::move(TI);
    } else {
      O["tmpl"] = R->getQualifiedNameAsString();
    }
    // enclosing class (for nested classes such as ControlT<...>::Origin)
    if (auto *Outer = dyn_cast<CXXRecordDecl>(R->getDeclContext())) {
      json::Object OO;
      templateInfo(OO, Outer);
      O["outer"] = std::move(OO);
    }
  }

  json::Value function(const FunctionDecl *F) {
    json::Object O;
    O["id"] = fnId(F);
    O["name"] = declName(F);
    O["m"] = F->getDeclName().getAsString();
    O["qn"] = F->getQualifiedNameAsString();
    const FunctionDecl *P = patternOf(F);
    O["pat"] = locStr(P->getLocation());
    O["ret"] = typeStr(F->getReturnType());
    if (F->isImplicit()) O["implicit"] = true;
    if (F->isDefaulted()) O["defaulted"] = true;
    if (F->isConstexpr()) O["constexpr"] = true;
    if (const auto *TA = F->getTemplateSpecializationArgs()) {
      json::Array A;
      for (const TemplateArgument &T : TA->asArray()) {
        std::string Str;
        llvm::raw_string_ostream OS(Str);
        T.print(PP, OS, false);
        A.push_back(OS.str());
      }
      O["ftargs"] = std::move(A);
      json::Array FI;
      for (const TemplateArgument &T : TA->asArray()) {
        if (T.getKind() == TemplateArgument::Integral) {
          llvm::APSInt I = T.getAsIntegral();
          FI.push_back(I.isSigned() ? (int64_t)I.getSExtValue() : (int64_t)I.getZExtValue());
        } else
          FI.push_back(nullptr);
      }
      O["ftints"] = std::move(FI);
    }
    json::Array Ps;
    for (const ParmVarDecl *PV : F->parameters()) {
      json::Object PO;
      PO["n"] = PV->getNameAsString();
      PO["id"] = varId(PV);
      PO["ty"] = typeStr(PV->getType());
      if (PV->getType()->isLValueReferenceType()) PO["ref"] = "&";
      else if (PV->getType()->isRValueReferenceType()) PO["ref"] = "&&";
      Ps.push_back(std::move(PO));
    }
    O["params"] = std::move(Ps);
    if (auto *M = dyn_cast<CXXMethodDecl>(F)) {
      templateInfo(O, M->getParent());
      if (M->isConst()) O["const"] = true;
      if (M->isStatic()) O["static"] = true;
      if (M->isVirtual()) O["virt"] = true;
      if (auto *CD = dyn_cast<CXXConstructorDecl>(M)) {
        O["kind"] = "ctor";
        if (CD->isCopyConstructor()) O["ctorkind"] = "copy";
        else if (CD->isMoveConstructor()) O["ctorkind"] = "move";
        else if (CD->isDefaultConstructor()) O["ctorkind"] = "default";
        else O["ctorkind"] = "other";
        if (CD->isInheritingConstructor())
          O["inherits"] = fnId(CD->getInheritedConstructor().getConstructor());
        json::Array Is;
        for (const CXXCtorInitializer *I : CD->inits()) {
          json::Object IO;
          if (I->isBaseInitializer()) {
            IO["t"] = "base";
            IO["name"] = typeStr(QualType(I->getBaseClass(), 0));
          } else if (I->isDelegatingInitializer()) {
            IO["t"] = "delegating";
          } else if (I->isMemberInitializer()) {
            IO["t"] = "member";
            IO["name"] = I->getMember()->getNameAsString();
          } else if (I->isIndirectMemberInitializer()) {
            IO["t"] = "indirect";
            IO["name"] = I->getIndirectMember()->getNameAsString();
            json::Array Ch;
            for (const NamedDecl *N : I->getIndirectMember()->chain()) Ch.push_back(N->getNameAsString());
            IO["chain"] = std::move(Ch);
          }
          if (I->isWritten()) IO["written"] = true;
          if (I->isInClassMemberInitializer()) IO["nsdmi"] = true;
          IO["l"] = locStr(I->getSourceLocation());
          IO["e"] = expr(I->getInit());
          Is.push_back(std::move(IO));
        }
        O["inits"] = std::move(Is);
      } else if (isa<CXXDestructorDecl>(M)) {
        O["kind"] = "dtor";
      } else if (isa<CXXConversionDecl>(M)) {
        O["kind"] = "conv";
      } else if (M->isCopyAssignmentOperator()) {
        O["kind"] = "copyassign";
      } else if (M->isMoveAssignmentOperator()) {
        O["kind"] = "moveassign";
      } else {
        O["kind"] = "method";
      }
    } else {
      O["kind"] = "func";
    }
    int Before = Unknown;
    O["body"] = stmt(F->getBody());
    if (Unknown != Before) O["has_unknown"] = true;
    return std::move(O);
  }

  // ---------------------------------------------------------------- records
  json::Value fieldInfo(const FieldDecl *F, const ASTRecordLayout *L, unsigned Idx) {
    json::Object O;
    O["n"] = F->getNameAsString();
    QualType T = F->getType();
    O["ty"] = typeStr(T);
    if (L) O["off_bits"] = (int64_t)L->getFieldOffset(Idx);
    if (!T->isDependentType() && !T->isIncompleteType() && !T->isReferenceType()) {
      O["size"] = (int64_t)Ctx.getTypeSizeInChars(T).getQuantity();
      O["type_align"] = (int64_t)Ctx.getTypeAlignInChars(T).getQuantity();
      O["decl_align"] = (int64_t)Ctx.getDeclAlign(F).getQuantity();
    }
    if (F->hasInClassInitializer()) {
      O["nsdmi"] = true;
      if (const Expr *I = F->getInClassInitializer()) O["nsdmi_e"] = expr(I);
    }
    if (T->isReferenceType()) O["ref"] = true;
    QualType ET = T;
    if (const auto *AT = Ctx.getAsConstantArrayType(T)) {
      O["extent"] = (int64_t)AT->getSize().getZExtValue();
      ET = Ctx.getBaseElementType(T);
      O["elem"] = typeStr(ET);
    }
    if (ET->isScalarType()) O["scalar"] = true;
    if (const CXXRecordDecl *R = ET->getAsCXXRecordDecl()) {
      O["cls"] = recordName(R);
      noteRecord(R);
      if (F->isAnonymousStructOrUnion()) {
        O["anon"] = R->isUnion() ? "union" : "struct";
        json::Array A;
        unsigned I = 0;
        const ASTRecordLayout *AL = R->isCompleteDefinition() && !R->isDependentType() ? &Ctx.getASTRecordLayout(R) : nullptr;
        for (const FieldDecl *AF : R->fields()) A.push_back(fieldInfo(AF, AL, I++));
        O["members"] = std::move(A);
      }
    }
    if (F->hasAttr<AlignedAttr>()) O["alignas"] = true;
    return std::move(O);
  }

  json::Value record(const CXXRecordDecl *R) {
    json::Object O;
    templateInfo(O, R);
    O["name"] = recordName(R);
    O["l"] = locStr(R->getLocation());
    if (R->isUnion()) O["union"] = true;
    const ASTRecordLayout *L = nullptr;
    if (R->isCompleteDefinition() && !R->isDependentType() && !R->isInvalidDecl()) {
      L = &Ctx.getASTRecordLayout(R);
      O["size"] = (int64_t)L->getSize().getQuantity();
      O["align"] = (int64_t)L->getAlignment().getQuantity();
    }
    if (const auto *MA = R->getAttr<MaxFieldAlignmentAttr>()) O["pack"] = (int64_t)MA->getAlignment() / 8;
    json::Array Bs;
    for (const CXXBaseSpecifier &B : R->bases()) {
      json::Object BO;
      BO["name"] = typeStr(B.getType());
      const CXXRecordDecl *BR = B.getType()->getAsCXXRecordDecl();
      if (BR && L && !B.isVirtual()) BO["off"] = (int64_t)L->getBaseClassOffset(BR).getQuantity();
      if (BR) {
        BO["ffsm"] = recInFfsm(BR);
        BO["empty"] = BR->hasDefinition() ? BR->isEmpty() : false;
        noteRecord(BR);
      }
      Bs.push_back(std::move(BO));
    }
    O["bases"] = std::move(Bs);
    json::Array Fs;
    unsigned Idx = 0;
    for (const FieldDecl *F : R->fields()) Fs.push_back(fieldInfo(F, L, Idx++));
    O["fields"] = std::move(Fs);
    // constructors and special members
    json::Array Cs;
    for (const CXXConstructorDecl *C : R->ctors()) {
      json::Object CO;
      CO["fn"] = fnId(C);
      CO["name"] = declName(C);
      if (C->isCopyConstructor()) CO["ctorkind"] = "copy";
      else if (C->isMoveConstructor()) CO["ctorkind"] = "move";
      else if (C->isDefaultConstructor()) CO["ctorkind"] = "default";
      else CO["ctorkind"] = "other";
      if (C->isImplicit()) CO["implicit"] = true;
      if (C->isDefaulted()) CO["defaulted"] = true;
      if (C->isDeleted()) CO["deleted"] = true;
      if (C->isUserProvided()) CO["user_provided"] = true;
      if (C->isTrivial()) CO["trivial"] = true;
      CO["has_body"] = C->doesThisDeclarationHaveABody() || defOf(C) != nullptr;
      CO["l"] = locStr(C->getLocation());
      Cs.push_back(std::move(CO));
    }
    O["ctors"] = std::move(Cs);
    O["has_user_copy_ctor"] = R->hasUserDeclaredCopyConstructor();
    O["has_user_copy_assign"] = R->hasUserDeclaredCopyAssignment();
    O["has_user_move_ctor"] = R->hasUserDeclaredMoveConstructor();
    O["has_user_dtor"] = R->hasUserDeclaredDestructor();
    O["trivially_copyable"] = R->isTriviallyCopyable();
    O["needs_implicit_default_ctor"] = R->needsImplicitDefaultConstructor();
    O["has_default_ctor"] = R->hasDefaultConstructor();
    O["aggregate"] = R->isAggregate();
    // static data members
    json::Object Consts;
    json::Array Mut;
    for (const Decl *D : R->decls()) {
      if (auto *V = dyn_cast<VarDecl>(D)) {
        if (!V->isStaticDataMember()) continue;
        QualType T = V->getType();
        bool IsConst = T.isConstQualified();
        if (!IsConst) { Mut.push_back(V->getNameAsString()); continue; }
        if (T->isIntegralOrEnumerationType()) {
          // C++17: static constexpr members are implicitly inline and their initialisers are instantiated lazily;
          // evaluateValue() must not be called on a declaration whose initialiser has not been instantiated
          const Expr *Init = V->getAnyInitializer();
          if (Init && !Init->isValueDependent() && !Init->isTypeDependent()) {
            Expr::EvalResult R;
            if (Init->EvaluateAsInt(R, Ctx)) {
              llvm::APSInt I = R.Val.getInt();
              Consts[V->getNameAsString()] = I.isSigned() ? (int64_t)I.getSExtValue() : (int64_t)I.getZExtValue();
            }
          }
        }
      }
    }
    O["consts"] = std::move(Consts);
    O["mutable_statics"] = std::move(Mut);
    // methods (declared), to know constness / access of the public API
    json::Array Ms;
    for (const Decl *D : R->decls()) {
      const CXXMethodDecl *M = dyn_cast<CXXMethodDecl>(D);
      if (!M)
        if (auto *FT = dyn_cast<FunctionTemplateDecl>(D)) M = dyn_cast<CXXMethodDecl>(FT->getTemplatedDecl());
      if (!M || isa<CXXConstructorDecl>(M) || isa<CXXDestructorDecl>(M)) continue;
      json::Object MO;
      MO["m"] = M->getDeclName().getAsString();
      MO["const"] = M->isConst();
      MO["static"] = M->isStatic();
      MO["access"] = (int)M->getAccess();   // 0 public, 1 protected, 2 private
      MO["ret"] = typeStr(M->getReturnType());
      MO["l"] = locStr(M->getLocation());
      Ms.push_back(std::move(MO));
    }
    O["methods"] = std::move(Ms);
    return std::move(O);
  }

  // ---------------------------------------------------------------- output
  void write() {
    std::error_code EC;
    llvm::raw_fd_ostream OS(OutPath, EC);
    if (EC) {
      llvm::errs() << "cannot open " << OutPath << ": " << EC.message() << "\n";
      exit(3);
    }
    json::OStream J(OS);
    J.objectBegin();
    J.attribute("version", 1);
    J.attributeBegin("functions");
    J.arrayBegin();
    // bodies may reference further FFSM2 functions; we only emit bodies that the
    // visitor found (instantiated definitions). FnOrder may grow? No: the visitor ran first.
    for (size_t I = 0; I < FnOrder.size(); ++I) J.value(function(FnOrder[I]));
    J.arrayEnd();
    J.attributeEnd();
    J.attributeBegin("records");
    J.arrayBegin();
    for (size_t I = 0; I < RecordOrder.size(); ++I) J.value(record(RecordOrder[I]));
    J.arrayEnd();
    J.attributeEnd();
    J.attributeBegin("globals");
    J.arrayBegin();
    for (const VarDecl *V : Globals) {
      json::Object O;
      O["name"] = declName(V);
      O["ty"] = typeStr(V->getType());
      O["const"] = V->getType().isConstQualified();
      O["constexpr"] = V->isConstexpr();
      O["static_member"] = V->isStaticDataMember();
      O["l"] = locStr(V->getLocation());
      J.value(std::move(O));
    }
    J.arrayEnd();
    J.attributeEnd();
    // functions referenced but without an emitted body
    J.attributeBegin("fnindex");
    J.objectBegin();
    std::set<const FunctionDecl *> Emitted;
    for (const FunctionDecl *F : FnOrder) Emitted.insert(canonFn(F));
    for (auto &KV : FnIds) {
      json::Object O;
      O["name"] = declName(KV.first);
      O["body"] = Emitted.count(KV.first) != 0;
      O["ffsm"] = fnInFfsm(KV.first);
      O["pat"] = locStr(patternOf(KV.first)->getLocation());
      if (auto *M = dyn_cast<CXXMethodDecl>(KV.first)) {
        O["cls"] = recordName(M->getParent());
        O["clsffsm"] = recInFfsm(M->getParent());
      }
      O["m"] = KV.first->getDeclName().getAsString();
      O["trivial"] = KV.first->isTrivial();
      O["deleted"] = KV.first->isDeleted();
      J.attribute(std::to_string(KV.second), std::move(O));
    }
    J.objectEnd();
    J.attributeEnd();
    J.attribute("unknown_nodes", Unknown);
    J.objectEnd();
    OS << "\n";
  }
};

class Consumer : public ASTConsumer {
public:
  void HandleTranslationUnit(ASTContext &Ctx) override {
    if (Ctx.getDiagnostics().hasErrorOccurred()) {
      llvm::errs() << "ffsm2-facts: translation unit has errors, no facts written\n";
      return;
    }
    Extractor X(Ctx);
    X.TraverseDecl(Ctx.getTranslationUnitDecl());
    X.write();
  }
};

class Action : public ASTFrontendAction {
public:
  std::unique_ptr<ASTConsumer> CreateASTConsumer(CompilerInstance &, llvm::StringRef) override {
    return std::make_unique<Consumer>();
  }
};

class Factory : public tooling::FrontendActionFactory {
public:
  std::unique_ptr<FrontendAction> create() override { return std::make_unique<Action>(); }
};

} // namespace

int main(int argc, const char **argv) {
  if (argc < 3) {
    llvm::errs() << "usage: ffsm2-facts <out.json> <source.cpp> [clang args...]\n";
    return 2;
  }
  OutPath = argv[1];
  std::string Src = argv[2];
  std::vector<std::string> Args;
  for (int I = 3; I < argc; ++I) Args.push_back(argv[I]);
  Args.push_back("-fsyntax-only");
  Args.push_back("-resource-dir=/usr/lib/llvm-14/lib/clang/14.0.6");
  tooling::FixedCompilationDatabase DB(".", Args);
  tooling::ClangTool Tool(DB, {Src});
  Factory F;
  int RC = Tool.run(&F);
  return RC;
}
