"""Driving the fact extractor (E1) and indexing its output."""
import json
import os
import subprocess
import sys
import concurrent.futures as cf

from . import common
from .common import AnalysisBroken, VERIF, CACHE_DIR, BUILD_DIR

TOOL = os.path.join(BUILD_DIR, 'ffsm2-facts')
WITNESS_DIR = os.path.join(VERIF, 'witness')

FEATURE_DEFINES = {
    'P': 'FFSM2_ENABLE_PLANS',
    'S': 'FFSM2_ENABLE_SERIALIZATION',
    'H': 'FFSM2_ENABLE_TRANSITION_HISTORY',
    'L': 'FFSM2_ENABLE_LOG_INTERFACE',
    'V': 'FFSM2_ENABLE_VERBOSE_DEBUG_LOG',
    'R': 'FFSM2_ENABLE_STRUCTURE_REPORT',
    'D': 'FFSM2_ENABLE_DEBUG_STATE_TYPE',
    'T': 'FFSM2_DISABLE_TYPEINDEX',
}
FEATURE_ORDER = 'PSHLVRDT'

QUICK_CONFIGS = ['', 'P', 'PSL', 'PHV', 'SH', 'PSHL', 'PSHVRDT', 'L']
# every combination of the behaviour-relevant switches: plans x serialization x history x {no log, log, verbose}
THOROUGH_CONFIGS = sorted(set(
    ''.join(c for c in FEATURE_ORDER if c in (p + s + h + l))
    for p in ('', 'P') for s in ('', 'S') for h in ('', 'H') for l in ('', 'L', 'V')
) | set(QUICK_CONFIGS), key=lambda c: (len(c), c))


def configs(tier):
    return THOROUGH_CONFIGS if tier == 'thorough' else QUICK_CONFIGS


def variants(tier):
    return ['inc', 'dev'] if tier == 'thorough' else ['inc']


def cfg_flags(cfg):
    return ['-D' + FEATURE_DEFINES[c] + '=' for c in cfg]


def cfg_has(cfg, letter):
    if letter == 'L':
        return 'L' in cfg or 'V' in cfg
    return letter in cfg


def variant_flags(variant, repo=None):
    repo = repo or common.REPO
    if variant == 'dev':
        return ['-DW_DEV', '-I' + os.path.join(repo, 'development')]
    return ['-I' + os.path.join(repo, 'include')]


_repo_hash = {}


def repo_hash(repo=None):
    repo = repo or common.REPO
    if repo in _repo_hash:
        return _repo_hash[repo]
    parts = []
    for sub in ('include/ffsm2', 'development/ffsm2'):
        root = os.path.join(repo, sub)
        for d, _, fs in sorted(os.walk(root)):
            for f in sorted(fs):
                p = os.path.join(d, f)
                with open(p, 'rb') as fh:
                    parts.append(p[len(repo):].encode())
                    parts.append(fh.read())
    h = common.sha(*parts)
    _repo_hash[repo] = h
    return h


_tool_hash = None


def tool_hash():
    global _tool_hash
    if _tool_hash is None:
        if not os.path.exists(TOOL):
            raise AnalysisBroken('fact extractor not built: run ./setup.sh')
        with open(TOOL, 'rb') as f:
            _tool_hash = common.sha(f.read())
    return _tool_hash


def witness_hash(extra_files=()):
    parts = []
    for f in sorted(os.listdir(WITNESS_DIR)):
        p = os.path.join(WITNESS_DIR, f)
        if os.path.isfile(p):
            with open(p, 'rb') as fh:
                parts.append(f.encode())
                parts.append(fh.read())
    for p in extra_files:
        with open(p, 'rb') as fh:
            parts.append(fh.read())
    return common.sha(*parts)


def facts_path(witness, cfg, variant, std='c++11', extra=(), repo=None, src=None):
    key = common.sha(repo_hash(repo), tool_hash(), witness_hash([src] if src else ()), witness, cfg, variant, std,
                     ' '.join(extra), repo or common.REPO)
    return os.path.join(cache_root(repo), '%s-%s-%s-%s.json' % (witness, cfg or 'none', variant, key))


_pruned = set()


def cache_root(repo=None):
    """facts cache directory for this tree state. Scratch copies of the repository (self-test) keep their cache inside the
    scratch directory, so it disappears with it; for /repo, caches of older tree states are pruned."""
    repo = repo or common.REPO
    if os.path.realpath(repo) != os.path.realpath('/repo'):
        d = os.path.join(repo, '.verif-facts')
        os.makedirs(d, exist_ok=True)
        return d
    base = os.path.join(CACHE_DIR, 'facts')
    d = os.path.join(base, repo_hash(repo) + '-' + tool_hash()[:8])
    if d not in _pruned:
        _pruned.add(d)
        if os.path.isdir(base):
            import shutil
            for other in os.listdir(base):
                p = os.path.join(base, other)
                if p != d:
                    shutil.rmtree(p, ignore_errors=True) if os.path.isdir(p) else os.unlink(p)
        os.makedirs(d, exist_ok=True)
    return d


def extract(witness, cfg, variant, std='c++11', extra=(), repo=None, src=None):
    """Run the extractor (if not cached). Returns (path, error-text-or-None)."""
    out = facts_path(witness, cfg, variant, std, extra, repo, src)
    if os.path.exists(out) and os.path.getsize(out) > 0:
        return out, None
    os.makedirs(os.path.dirname(out), exist_ok=True)
    source = src or os.path.join(WITNESS_DIR, witness + '.cpp')
    tmp = out + '.tmp.%d' % os.getpid()
    cmd = [TOOL, tmp, source, '-std=' + std, '-I' + WITNESS_DIR, '-UNDEBUG', '-ferror-limit=5'] + \
        variant_flags(variant, repo) + cfg_flags(cfg) + list(extra)
    p = subprocess.run(cmd, stdout=subprocess.PIPE, stderr=subprocess.PIPE, universal_newlines=True)
    if p.returncode != 0 or not os.path.exists(tmp) or os.path.getsize(tmp) == 0:
        if os.path.exists(tmp):
            os.unlink(tmp)
        return None, (p.stderr or p.stdout)[-3000:]
    os.replace(tmp, out)
    return out, None


def prefetch(jobs, repo=None):
    """jobs: iterable of (witness, cfg, variant[, std[, extra]]). Runs extractions in parallel."""
    jobs = [tuple(j) for j in jobs]
    res = {}
    with cf.ThreadPoolExecutor(max_workers=16) as ex:
        futs = {}
        for j in jobs:
            w, c, v = j[0], j[1], j[2]
            std = j[3] if len(j) > 3 else 'c++11'
            extra = j[4] if len(j) > 4 else ()
            futs[ex.submit(extract, w, c, v, std, extra, repo)] = j
        for fu in cf.as_completed(futs):
            res[futs[fu]] = fu.result()
    return res


# ---------------------------------------------------------------------------------------------
class Fn:
    __slots__ = ('d', 'id', 'name', 'm', 'qn', 'tmpl', 'cls', 'spec', 'targs', 'pat', 'kind', 'body', 'params',
                 'inits', 'facts', 'outer')

    def __init__(self, d, facts):
        self.d = d
        self.facts = facts
        self.id = d['id']
        self.name = d['name']
        self.m = d['m']
        self.qn = d.get('qn', '')
        self.cls = d.get('cls')
        self.tmpl = d.get('tmpl')
        self.outer = d.get('outer')
        self.spec = d.get('spec')
        self.targs = d.get('targs', [])
        self.pat = d.get('pat', '')
        self.kind = d.get('kind')
        self.body = d.get('body')
        self.params = d.get('params', [])
        self.inits = d.get('inits', [])

    @property
    def tkey(self):
        """template-level class name: 'ffsm2::detail::CS_', nested: 'ffsm2::detail::ControlT::Origin'"""
        return self.d['_tkey']

    @property
    def short(self):
        t = self.tkey or ''
        t = t.replace('ffsm2::detail::', '').replace('ffsm2::', '')
        return (t + '::' if t else '') + self.m

    def is_const(self):
        return bool(self.d.get('const'))

    def __repr__(self):
        return '<Fn %s @%s>' % (self.short, common.rel(self.pat))


def _tkey(info):
    if not info:
        return None
    t = info.get('tmpl')
    outer = info.get('outer')
    if outer and t:
        simple = t.split('::')[-1]
        # nested class of a template: the qualified name printed by clang includes the outer arguments
        ot = _tkey(outer)
        return ot + '::' + simple
    return t


class Facts:
    def __init__(self, path, witness=None, cfg=None, variant=None):
        with open(path) as f:
            d = json.load(f)
        self.path = path
        self.witness = witness
        self.cfg = cfg
        self.variant = variant
        self.raw = d
        if d.get('unknown_nodes', 0):
            self.unknown = d['unknown_nodes']
        else:
            self.unknown = 0
        self.fns = []
        self.by_id = {}
        for fd in d['functions']:
            fd['_tkey'] = _tkey(fd)
            fn = Fn(fd, self)
            self.fns.append(fn)
            self.by_id[fn.id] = fn
        self.fnindex = {int(k): v for k, v in d['fnindex'].items()}
        self.records = d['records']
        for r in self.records:
            r['_tkey'] = _tkey(r)
        self.rec_by_name = {r['name']: r for r in self.records}
        self.globals = d['globals']
        self._idx = {}
        for fn in self.fns:
            self._idx.setdefault((fn.tkey, fn.m), []).append(fn)

    def label(self):
        return '%s/%s/%s' % (self.witness, self.cfg or 'none', self.variant)

    def find(self, tkey, m=None, pred=None):
        """functions of class template `tkey` (short names accepted: 'R_' -> 'ffsm2::detail::R_') named m."""
        tk = norm_tkey(tkey)
        if m is not None:
            res = list(self._idx.get((tk, m), []))
        else:
            res = [f for f in self.fns if f.tkey == tk]
        if pred:
            res = [f for f in res if pred(f)]
        return res

    def recs(self, tkey, pred=None):
        tk = norm_tkey(tkey)
        res = [r for r in self.records if r.get('_tkey') == tk]
        if pred:
            res = [r for r in res if pred(r)]
        return res

    def fn(self, fid):
        return self.by_id.get(fid)

    def info(self, fid):
        return self.fnindex.get(fid)


_TOP = {'Registry', 'TransitionBase', 'TransitionT', 'TaskBase', 'TaskT', 'TaskStatus', 'TaskLink', 'Bounds'}


def norm_tkey(t):
    if t is None:
        return None
    if t.startswith('ffsm2::'):
        return t
    head = t.split('::')[0]
    if head in ('LoggerInterfaceT', 'EmptyContext', 'Request'):
        return 'ffsm2::' + t
    return 'ffsm2::detail::' + t


_loaded = {}


def load(witness, cfg, variant, std='c++11', extra=(), repo=None, src=None):
    key = (witness, cfg, variant, std, tuple(extra), repo, src)
    if key in _loaded:
        return _loaded[key]
    path, err = extract(witness, cfg, variant, std, extra, repo, src)
    if path is None:
        raise AnalysisBroken('witness %s does not compile in configuration %r / %s:\n%s' % (witness, cfg, variant, err))
    f = Facts(path, witness, cfg, variant)
    _loaded[key] = f
    return f


def drop(f):
    for k, v in list(_loaded.items()):
        if v is f:
            del _loaded[k]
