"""Tree-level inlining of non-public helper members, so that intra-procedural order / control-dependence rules give the same verdict
whether a few statements live in the function itself or were extracted into a private helper.

inlined(F, E, fn) returns a function object whose body is fn's body with every *statement-level* call `helper(args);` of a void
non-public member helper (called on the same object, arguments side-effect free) replaced by the helper's body, the helper's
parameters substituted by the argument expressions. A helper with a `return` that is not its last statement, a recursive helper, or
arguments with side effects are left alone (the rule then sees the call as before). Expression-level helpers are not touched.
"""
import copy

from . import ir, anchors
from .facts import Fn

_next_id = [-1000]
_cache = {}


def _simple(e):
    """side-effect free and cheap to duplicate: variables, members, this, constants, derefs and address-ofs of those"""
    x = ir.strip(e)
    k = x['k']
    if k in ('var', 'this', 'c', 'null'):
        return True
    if k == 'mem':
        return _simple(x['b'])
    if k == 'un' and x['op'] in ('*', '&'):
        return _simple(x['e'])
    if k == 'cast':
        return _simple(x['e'])
    return False


def _subst(node, mapping):
    """deep copy of a statement/expression tree with `var` nodes of the mapped ids replaced by (copies of) the mapped expressions"""
    if isinstance(node, dict):
        if node.get('k') == 'var' and node.get('id') in mapping:
            return copy.deepcopy(mapping[node['id']])
        return {k: _subst(v, mapping) for k, v in node.items()}
    if isinstance(node, list):
        return [_subst(v, mapping) for v in node]
    return node


def _void_straight(h):
    """helper body has no return with a value and no return except (optionally) as its very last statement"""
    rets = [s for s in ir.walk_stmts(h.body) if s.get('s') == 'ret']
    if any(r.get('e') is not None for r in rets):
        return False
    if not rets:
        return True
    last = h.body['b'][-1] if h.body and h.body.get('s') == 'block' and h.body.get('b') else None
    return len(rets) == 1 and last is rets[0]


def _same_object(e):
    o = e.get('obj')
    if not ir.is_expr(o):
        return True
    o = ir.strip(o)
    if o['k'] == 'this':
        return True
    if o['k'] == 'un' and o['op'] == '*' and ir.strip(o['e'])['k'] == 'this':
        return True
    if o['k'] == 'cast' and ir.strip(o['e'])['k'] in ('this',):
        return True
    return False


def _expand(F, s, depth, stack):
    if not isinstance(s, dict) or 's' not in s:
        return s
    k = s['s']
    if k == 'expr' and depth < 3:
        e = ir.strip(s['e']) if ir.is_expr(s.get('e')) else None
        if e is not None and e['k'] == 'call' and e.get('fn') is not None and not e.get('op'):
            h = F.fn(e['fn'])
            if h is not None and h.body is not None and h.id not in stack and anchors.is_internal_helper(F, h) and _void_straight(h) \
                    and _same_object(e) and all(_simple(a) for a in e.get('args', [])) and len(h.params) == len(e.get('args', [])):
                mapping = {p['id']: ir.strip(a) for p, a in zip(h.params, e['args'])}
                body = _subst(h.body, mapping)
                if body.get('s') == 'block' and body['b'] and body['b'][-1].get('s') == 'ret':
                    body = dict(body, b=body['b'][:-1])
                return _expand(F, body, depth + 1, stack | {h.id})
        return s
    out = dict(s)
    for key in ('t', 'e', 'body', 'init'):
        if isinstance(s.get(key), dict) and 's' in s[key]:
            out[key] = _expand(F, s[key], depth, stack)
    if k == 'block':
        out['b'] = [_expand(F, c, depth, stack) for c in s['b']]
    return out


def inlined(F, E, fn):
    key = (id(F), fn.id)
    r = _cache.get(key)
    if r is not None:
        return r
    body = _expand(F, fn.body, 0, frozenset([fn.id]))
    if body == fn.body:
        _cache[key] = fn
        return fn
    d = dict(fn.d)
    d['body'] = body
    d['id'] = _next_id[0]
    _next_id[0] -= 1
    g = Fn(d, F)
    _cache[key] = g
    return g
