"""Semantic roles resolved on the facts of one translation unit (never by text or line number)."""
from . import ir, cfg as cfgmod, effects
from .common import AnalysisBroken

PRE_KINDS = ['EntryGuard', 'Enter', 'Reenter', 'PreUpdate', 'Update', 'PreReact', 'React']
POST_KINDS = ['Exit', 'PostUpdate', 'PostReact']
OTHER_KINDS = ['ExitGuard', 'Query']
ALL_KINDS = PRE_KINDS + POST_KINDS + OTHER_KINDS

# S_::deepX / wrapX  ->  (user method name, Method enumerator, control flavour)
WRAPPERS = {
    'deepEntryGuard': ('entryGuard', 'ENTRY_GUARD', 'GuardControlT'),
    'deepEnter': ('enter', 'ENTER', 'PlanControlT'),
    'deepReenter': ('reenter', 'REENTER', 'PlanControlT'),
    'deepPreUpdate': ('preUpdate', 'PRE_UPDATE', 'FullControlT'),
    'deepUpdate': ('update', 'UPDATE', 'FullControlT'),
    'deepPostUpdate': ('postUpdate', 'POST_UPDATE', 'FullControlT'),
    'deepPreReact': ('preReact', 'PRE_REACT', 'FullControlT'),
    'deepReact': ('react', 'REACT', 'FullControlT'),
    'deepPostReact': ('postReact', 'POST_REACT', 'FullControlT'),
    'deepQuery': ('query', 'QUERY', 'ConstControlT'),
    'deepExitGuard': ('exitGuard', 'EXIT_GUARD', 'GuardControlT'),
    'deepExit': ('exit', 'EXIT', 'PlanControlT'),
    'wrapPlanSucceeded': ('planSucceeded', 'PLAN_SUCCEEDED', 'FullControlT'),
    'wrapPlanFailed': ('planFailed', 'PLAN_FAILED', 'FullControlT'),
}
POST_WRAPPERS = {'deepExit', 'deepPostUpdate', 'deepPostReact'}

METHOD_ENUM = ['NONE', 'ENTRY_GUARD', 'ENTER', 'REENTER', 'PRE_UPDATE', 'UPDATE', 'POST_UPDATE', 'PRE_REACT', 'REACT',
               'QUERY', 'POST_REACT', 'EXIT_GUARD', 'EXIT', 'PLAN_SUCCEEDED', 'PLAN_FAILED', 'COUNT']


def is_empty_state_spec(fn):
    """S_<id, Args, EmptyT<Args>> specialisation (state without a user class)"""
    return fn.tkey == 'ffsm2::detail::S_' and fn.spec not in (None, 'primary')


def cs_kind(F, E, fn):
    """'split' or 'leaf' for a CS_ member, decided by what it calls."""
    for g in E.callees(fn):
        if g.tkey == 'ffsm2::detail::CS_':
            return 'split'
    return 'leaf'


def state_id_of(F, fn):
    """STATE_ID of the S_ instantiation owning fn"""
    rec = F.rec_by_name.get(fn.cls)
    if rec is None:
        return None
    return rec.get('consts', {}).get('STATE_ID')


def ordered_events(c, pred):
    """events satisfying pred, with flags: returns (ordered list, all_unconditional, none_in_loop).
    Order is dominance order (a before b iff a dominates b); events not comparable are reported as unordered."""
    evs = c.events(pred=pred)
    uncond = all(c.postdominates(n, c.entry) for n in evs)
    noloop = all(not c.in_loop(n) for n in evs)
    # sort by dominance
    import functools

    def cmp(a, b):
        if a is b:
            return 0
        if c.dominates(a, b):
            return -1
        if c.dominates(b, a):
            return 1
        return 0
    evs = sorted(evs, key=functools.cmp_to_key(cmp))
    total = all(c.dominates(evs[i], evs[i + 1]) for i in range(len(evs) - 1))
    return evs, uncond, noloop and total


def call_target(F, E, fn, node):
    """(callee Fn or None, user-call descriptor or None) for a call node, resolving member pointers."""
    e = node.e
    if e.get('fn') is not None:
        g = F.fn(e['fn'])
        if g is not None:
            return g, None
        if effects.is_user(e):
            return None, e
        return None, None
    if e.get('pm'):
        r = E.resolve_pm(fn, e)
        if r is None:
            raise AnalysisBroken('unresolved member-pointer call in %s' % fn.short)
        if r.get('fn') is not None and F.fn(r['fn']) is not None:
            return F.fn(r['fn']), None
        if effects.is_user(r):
            return None, dict(r, l=e.get('l'))
        return None, None
    return None, None


def flatten_user_calls(F, E, fn, depth=0, follow=None):
    """sequence of (user class, method) reached from fn in program order, expanding FFSM2 callees selected by
    `follow(g)`; raises AnalysisBroken if a followed callee or a user call is conditional or inside a loop.
    Logging calls (callee class LoggerInterfaceT or S_::log) are ignored."""
    if depth > 12:
        raise AnalysisBroken('call depth while flattening ' + fn.short)
    c = cfgmod.cfg_of(fn)
    out = []

    def interesting(n):
        if n.kind != 'call':
            return False
        g, u = call_target(F, E, fn, n)
        if u is not None:
            return True
        if g is not None and follow(g):
            return True
        return False
    evs, uncond, ordered = ordered_events(c, interesting)
    flags = {'unconditional': uncond, 'ordered': ordered}
    for n in evs:
        g, u = call_target(F, E, fn, n)
        if u is not None:
            out.append((u.get('cls'), u.get('m'), n))
        else:
            sub, fl = flatten_user_calls(F, E, g, depth + 1, follow)
            flags['unconditional'] = flags['unconditional'] and fl['unconditional']
            flags['ordered'] = flags['ordered'] and fl['ordered']
            out.extend(sub)
    return out, flags


def is_logger_call(e):
    cls = e.get('cls') or ''
    return cls.startswith('ffsm2::LoggerInterfaceT<') or (e.get('m') == 'log' and 'ffsm2::detail::S_<' in cls)


def substitution_loops(F, E, root_fn):
    """[(function, loop statement)]: the loops reachable from root_fn (R_::processRequest / R_::initialEnter) whose iterations are guard
    rounds. The loop may live in the entry function itself or in a helper it calls."""
    out = []
    seen = set()
    for g in [root_fn] + list(E.calls_star(root_fn).values()):
        if g.id in seen or g.tkey != 'ffsm2::detail::R_':
            continue
        seen.add(g.id)
        for st in ir.walk_stmts(g.body):
            if st.get('s') in ('for', 'while', 'do'):
                # the loop whose iterations are guard rounds: its body constructs a GuardControl or calls a root-class function that does
                # (whether the request is applied through a helper named applyRequest or by statements written out in the loop)
                hit = False
                for t in ir.walk_stmts(st.get('body')):
                    for e in ir.stmt_exprs(t):
                        for x in ir.walk(e):
                            if x['k'] == 'ctor' and (x.get('cls') or '').startswith('ffsm2::detail::GuardControlT<') and not (x.get('cls') or '').endswith('::Lock'):
                                hit = True
                            elif x['k'] == 'call' and (x.get('fn') is not None or x.get('pm')):
                                cands = [F.fn(x['fn'])] if x.get('fn') is not None else []
                                if x.get('pm'):      # through a member-function pointer handed in by the callers
                                    cands += [F.fn(r['fn']) for r in E.resolve_pm_all(g, x) if r.get('fn') is not None]
                                for h in cands:
                                    if h is not None and h.tkey in ROOT_TKEYS and (constructs_guard_control(F, h) or any(constructs_guard_control(F, k) for k in E.calls_star(h).values())):
                                        hit = True
                if hit:
                    out.append((g, st))
    return out


def reached_only_from(F, E, fn, allowed, helper_tkeys=('ffsm2::detail::R_', 'ffsm2::detail::RV_', 'ffsm2::detail::RP_', 'ffsm2::detail::C_')):
    """callers of fn outside `allowed` (set of (class, method)), looking *through* helper member functions of the root
    classes: a helper is fine if everything that calls it is allowed (transitively). Returns the offending callers."""
    from rules.c01 import tk_short
    callers = E.callers()
    bad = []
    seen = set()

    def visit(g, depth):
        for cid in callers.get(g.id, ()):
            c = F.fn(cid)
            key = tk_short(c)
            if key in allowed:
                continue
            if cid in seen:
                continue
            seen.add(cid)
            # a non-public helper of the root classes: look at *its* callers
            if c.tkey in helper_tkeys and depth < 4 and is_internal_helper(F, c) and callers.get(cid):
                visit(c, depth + 1)
            else:
                bad.append(key)
    visit(fn, 0)
    return sorted(set(bad))


def is_internal_helper(F, fn):
    rec = F.rec_by_name.get(fn.cls) or {}
    for m in rec.get('methods', []):
        if m['m'] == fn.m:
            return m.get('access') != 0
    return False


ROOT_TKEYS = ('ffsm2::detail::R_', 'ffsm2::detail::RV_', 'ffsm2::detail::RP_')


def chain_to(F, E, fn, is_target, depth=0):
    """the call chain from fn down to the call of a function satisfying is_target(g), looking through member functions of the root
    classes: [(function, CFG, call node)] from fn's own call site to the one whose callee is the target. Every level must have exactly
    one such call site; returns None when there is none, raises when it is ambiguous."""
    from . import cfg as cfgmod
    if depth > 6:
        return None
    c = cfgmod.cfg_of(fn)
    direct, via = [], []
    for n in c.events(('call',)):
        g, _ = call_target(F, E, fn, n)
        if g is None:
            continue
        if is_target(g):
            direct.append(n)
        elif g.tkey in ROOT_TKEYS and g.id != fn.id and any(is_target(h) for h in E.calls_star(g).values()):
            via.append((n, g))
    if len(direct) + len(via) == 0:
        return None
    if len(direct) + len(via) > 1:
        raise AnalysisBroken('%s reaches the anchored call through %d call sites' % (fn.short, len(direct) + len(via)))
    if direct:
        return [(fn, c, direct[0])]
    n, g = via[0]
    rest = chain_to(F, E, g, is_target, depth + 1)
    if rest is None:
        return None
    return [(fn, c, n)] + rest


def flatten_apex_calls(F, E, fn, depth=0):
    """`_apex.X(...)` call events reached from fn in program order, looking through member functions of the root classes:
    [(name, node, unconditional, in_loop)] -- `unconditional`/`in_loop` are accumulated along the chain of call sites."""
    from . import cfg as cfgmod
    if depth > 8:
        raise AnalysisBroken('call depth while flattening ' + fn.short)
    c = cfgmod.cfg_of(fn)

    def targets(n):
        """resolved callees of a call node: the one callee of a direct call; for a call through a member-function pointer every function
        the pointer can hold (the callers' arguments)"""
        if n.e.get('fn') is not None:
            g = F.fn(n.e['fn'])
            return [g] if g is not None else []
        if n.e.get('pm'):
            return [F.fn(r['fn']) for r in E.resolve_pm_all(fn, n.e) if r.get('fn') is not None and F.fn(r['fn']) is not None]
        return []

    def is_apex(n):
        # a dispatch into the region: the resolved callee is a member of the composite (the machine has exactly one, its apex),
        # whether it is reached through `_apex` directly or through a reference the function cached
        ts = targets(n) if n.e.get('fn') is not None else []
        return bool(ts) and ts[0].tkey == 'ffsm2::detail::C_'

    def interesting(n):
        if n.kind != 'call':
            return False
        if is_apex(n):
            return True
        return any(g.tkey in ROOT_TKEYS and g.id != fn.id for g in targets(n))
    evs, _, ordered = ordered_events(c, interesting)
    out = []
    for n in evs:
        uncond = c.postdominates(n, c.entry)
        loop = c.in_loop(n)
        if is_apex(n):
            out.append((n.e.get('m'), n, uncond, loop, ordered))
        else:
            ts = [g for g in targets(n) if g.tkey in ROOT_TKEYS and g.id != fn.id]
            for g in ts:
                for (m, n2, u2, l2, o2) in flatten_apex_calls(F, E, g, depth + 1):
                    out.append((m, n2, uncond and u2 and len(ts) == 1, loop or l2, ordered and o2))
    return out


def constructs_guard_control(F, g):
    return any(x['k'] == 'ctor' and (x.get('cls') or '').startswith('ffsm2::detail::GuardControlT<') and not (x.get('cls') or '').endswith('::Lock')
               for x in ir.all_exprs(g))


def guard_round_sites(F, E, fn, c):
    """the places in fn where one guard round is performed: a GuardControl is constructed here, or a callee (transitively) constructs one.
    Independent of whether the round's helper is inlined into the loop or not."""
    out = []
    for n in c.nodes:
        if n.kind == 'ctor' and ir.is_expr(n.e) and (n.e.get('cls') or '').startswith('ffsm2::detail::GuardControlT<'):
            out.append(n)
        elif n.kind == 'call':
            g = F.fn(n.e['fn']) if n.e.get('fn') is not None else None
            cands = [g] if g is not None else []
            if n.e.get('pm'):
                for r in E.resolve_pm_all(fn, n.e):
                    h = F.fn(r['fn']) if r.get('fn') is not None else None
                    if h is not None:
                        cands.append(h)
            for h in cands:
                if h.tkey in ROOT_TKEYS and (constructs_guard_control(F, h) or any(constructs_guard_control(F, k) for k in E.calls_star(h).values())):
                    out.append(n)
                    break
    return out


def through_forwarders(F, fn, depth=0):
    """the function that carries the body: if fn is a pure forwarding wrapper -- its body is a single `return g(p0, p1, ...);` or
    `g(p0, p1, ...);` handing its own parameters on in order to a non-public member of the same class -- the callee (recursively)"""
    if depth > 3 or fn.body is None:
        return fn
    stmts = [s for s in (fn.body.get('b') or []) if s.get('s') != 'null'] if fn.body.get('s') == 'block' else [fn.body]
    if len(stmts) != 1 or stmts[0].get('s') not in ('ret', 'expr') or not ir.is_expr(stmts[0].get('e')):
        return fn
    e = ir.strip(stmts[0]['e'])
    if e['k'] != 'call' or e.get('fn') is None or e.get('op'):
        return fn
    g = F.fn(e['fn'])
    if g is None or g.body is None or g.tkey != fn.tkey or not is_internal_helper(F, g) or len(g.params) != len(fn.params):
        return fn
    if ir.is_expr(e.get('obj')) and ir.strip(e['obj'])['k'] not in ('this',) and not (ir.strip(e['obj'])['k'] == 'un' and ir.strip(e['obj'])['op'] == '*'):
        return fn
    for i, a in enumerate(e.get('args', [])):
        x = ir.strip(a)
        if not (x['k'] == 'var' and x.get('vk') == 'param' and x.get('pi') == i):
            return fn
    return through_forwarders(F, g, depth + 1)
