"""Symbolic straight-line evaluation in an *offset* domain, for the small container accessors (array emplace / operator[] / count).

A value is an int, `Sym(name, off)` (the unknown entry value of a member or parameter plus a known offset), or `Opaque(tag)` (a value
with identity only: an argument, an element). There are no path conditions: a branch condition must be decided by constants or by
two offsets of the same symbol, otherwise the evaluation refuses (the caller then falls back / reports analysis-broken). The result
is the list of stores into arrays (index value, stored value), the exit values of the scalar members and the returned value or
element reference -- i.e. the *effect summary* of the function as a function of its entry state, independent of how the body is
spelled (named temporaries, `x++` vs `x = x + 1`, early returns ...).
"""
from . import ir
from .common import AnalysisBroken


class Refuse(AnalysisBroken):
    pass


class Sym(object):
    __slots__ = ('name', 'off')

    def __init__(self, name, off=0):
        self.name = name
        self.off = off

    def __eq__(self, o):
        return isinstance(o, Sym) and (self.name, self.off) == (o.name, o.off)

    def __hash__(self):
        return hash((self.name, self.off))

    def __repr__(self):
        return self.name if not self.off else '%s%+d' % (self.name, self.off)


class Opaque(object):
    __slots__ = ('tag',)

    def __init__(self, tag):
        self.tag = tag

    def __eq__(self, o):
        return isinstance(o, Opaque) and self.tag == o.tag

    def __hash__(self):
        return hash(('opaque', self.tag))

    def __repr__(self):
        return '<%s>' % (self.tag,)


class Elem(object):
    """reference to array element"""
    __slots__ = ('array', 'index')

    def __init__(self, array, index):
        self.array = array
        self.index = index

    def __eq__(self, o):
        return isinstance(o, Elem) and (self.array, self.index) == (o.array, o.index)

    def __hash__(self):
        return hash((self.array, self.index))

    def __repr__(self):
        return '%s[%r]' % (self.array, self.index)


class ObjRef(object):
    """another object reachable through a reference member (an iterator's container): its own scalar members and arrays"""
    def __init__(self, fields, arrays, name=''):
        self.fields = fields
        self.arrays = set(arrays)
        self.name = name          # prefix of the array names of this object in the store list ("taskLinks._items")


class _Break(Exception):
    pass


class _Continue(Exception):
    pass


class _Ret(Exception):
    def __init__(self, v):
        self.v = v


def add(a, b):
    if isinstance(a, int) and isinstance(b, int):
        return a + b
    if isinstance(a, Sym) and isinstance(b, int):
        return Sym(a.name, a.off + b)
    if isinstance(b, Sym) and isinstance(a, int):
        return Sym(b.name, b.off + a)
    raise Refuse('sum of %r and %r' % (a, b))


def compare(op, a, b):
    if isinstance(a, Sym) and isinstance(b, Sym) and a.name == b.name:
        a, b = a.off, b.off
    if isinstance(a, int) and isinstance(b, int):
        return {'==': a == b, '!=': a != b, '<': a < b, '<=': a <= b, '>': a > b, '>=': a >= b}[op]
    if op in ('==', '!=') and a == b and not isinstance(a, Opaque):
        return op == '=='
    raise Refuse('comparison %r %s %r is not decided by offsets' % (a, op, b))


class Summary(object):
    def __init__(self):
        self.stores = []      # (array name, index value, stored value)
        self.fields = {}      # scalar member -> exit value
        self.ret = None
        self.returned = False
        self.events = []


class Eval(object):
    def __init__(self, F, fields, arrays, assume=None):
        """fields: scalar member name -> entry value; arrays: names of array members; assume: callable(op, a, b) -> bool/None giving
        facts about entry values that offsets alone do not decide (preconditions such as `_count < CAPACITY`)."""
        self.F = F
        self.fields = dict(fields)
        self.arrays = set(arrays)
        self.stores = []
        self.assume = assume
        self.depth = 0
        self.prefix = ''
        # when set, two syntactically different index values denote different cells (used for linked-list nodes: a node is never its
        # own predecessor / successor -- the structural invariant whose preservation over histories is the stated residue of C10)
        self.distinct_indices = False
        # optional: primitive(callee Fn, object expression text, argument values) -> True to record the call as an event instead of
        # interpreting it (bit-array operations, whole sub-procedures checked elsewhere)
        self.primitive = None
        self.events = []

    def run(self, fn, args):
        env = {}
        for p, a in zip(fn.params, args):
            env[p['id']] = a
        s = Summary()
        try:
            self.stmt(fn.body, fn, env)
        except _Ret as r:
            s.ret = r.v
            s.returned = True
        s.stores = self.stores
        s.fields = self.fields
        s.events = self.events
        return s

    def run_ctor(self, fn, args):
        """constructor: written member initialisers in declaration order, then the body"""
        env = {}
        for p, a in zip(fn.params, args):
            env[p['id']] = a
        for i in fn.inits:
            if i['t'] in ('member', 'indirect') and i.get('e') is not None:
                try:
                    self.fields[i['name']] = self.ev_or_lv(i['e'], fn, env) if False else self.ev(i['e'], fn, env)
                except Refuse:
                    if i.get('written'):
                        raise
        s = Summary()
        try:
            self.stmt(fn.body, fn, env)
        except _Ret:
            pass
        s.stores = self.stores
        s.fields = self.fields
        return s

    # ---- statements
    def stmt(self, st, fn, env):
        if st is None:
            return
        k = st.get('s')
        if k == 'block':
            for c in st['b']:
                self.stmt(c, fn, env)
        elif k == 'decl':
            for v in st['vars']:
                if 'unknown_decl' in v:
                    raise Refuse('unknown declaration')
                if v.get('ref'):
                    env[v['id']] = self.lv(v['init'], fn, env)
                else:
                    env[v['id']] = self.ev(v['init'], fn, env) if v.get('init') is not None else Opaque(('uninit', v['n']))
        elif k == 'expr':
            e = ir.strip(st['e'])
            if e['k'] == 'c':
                return
            self.ev(st['e'], fn, env)
        elif k == 'null':
            return
        elif k == 'ret':
            raise _Ret(self.ev_or_lv(st['e'], fn, env) if st.get('e') is not None else None)
        elif k == 'if':
            if st.get('cv'):      # condition variable
                self.stmt({'s': 'decl', 'vars': [st['cv']]}, fn, env)
            c = self.truth(st['c'], fn, env)
            if c:
                self.stmt(st['t'], fn, env)
            elif st.get('e'):
                self.stmt(st['e'], fn, env)
        elif k == 'rfor':
            rng = self.lv(st['range'], fn, env)
            ext = st.get('extent')
            if not (isinstance(rng, tuple) and rng[0] == 'array') or ext is None:
                raise Refuse('range-for over something that is not a member array')
            v = st['var']
            for i in range(ext):
                env[v['id']] = Elem(rng[1], i) if v.get('ref') else self.load(Elem(rng[1], i), env)
                try:
                    self.stmt(st.get('body'), fn, env)
                except _Break:
                    break
                except _Continue:
                    pass
        elif k in ('for', 'while', 'do'):
            if k == 'for' and st.get('init'):
                self.stmt(st['init'], fn, env)
            n = 0
            first = True
            while True:
                if st.get('c') is not None and not (k == 'do' and first):
                    if not self.truth(st['c'], fn, env):
                        break
                first = False
                try:
                    self.stmt(st.get('body'), fn, env)
                except _Break:
                    break
                except _Continue:
                    pass
                if k == 'for' and st.get('inc') is not None:
                    self.ev(st['inc'], fn, env)
                n += 1
                if n > 600:
                    raise Refuse('loop does not terminate within 600 iterations')
        elif k == 'break':
            raise _Break()
        elif k == 'cont':
            raise _Continue()
        else:
            raise Refuse('statement kind %s' % k)

    def truth(self, e, fn, env):
        e = ir.strip(e)
        if e['k'] == 'bin' and e['op'] in ('==', '!=', '<', '<=', '>', '>='):
            a = self.ev(e['l'], fn, env)
            b = self.ev(e['r'], fn, env)
            try:
                return compare(e['op'], a, b)
            except Refuse:
                if self.assume is not None:
                    r = self.assume(e['op'], a, b)
                    if r is not None:
                        return r
                raise
        if e['k'] == 'bin' and e['op'] == '&&':
            return self.truth(e['l'], fn, env) and self.truth(e['r'], fn, env)
        if e['k'] == 'bin' and e['op'] == '||':
            return self.truth(e['l'], fn, env) or self.truth(e['r'], fn, env)
        if e['k'] == 'un' and e['op'] == '!':
            return not self.truth(e['e'], fn, env)
        v = self.ev(e, fn, env)
        if isinstance(v, (int, bool)):
            return bool(v)
        raise Refuse('condition %s is not decided' % ir.pp(e))

    # ---- lvalues
    def lv(self, e, fn, env):
        e = ir.strip(e)
        k = e['k']
        if k == 'var':
            v = env.get(e['id'])
            if isinstance(v, (Elem, tuple)):
                return v
            return ('var', e['id'])
        if k == 'mem' and ir.strip(e['b'])['k'] == 'this':
            if e['f'] in self.arrays:
                return ('array', self.prefix + e['f'])
            return ('field', e['f'])
        if k == 'mem':
            # a member of an array element (through a subscript or a local reference bound to the element): its own cell;
            # a member of another object reached through reference members (iterator -> plan -> plan data): that object's field/array
            try:
                b = self.lv(e['b'], fn, env)
            except Refuse:
                b = None
            if isinstance(b, Elem):
                return Elem(b.array + '.' + e['f'], b.index)
            if b is not None and not isinstance(b, Elem):
                try:
                    o = self.load(b, env) if not (isinstance(b, tuple) and b[0] == 'array') else None
                except Refuse:
                    o = None
                if isinstance(o, ObjRef):
                    if e['f'] in o.arrays:
                        return ('array', (o.name + '.' if o.name else '') + e['f'])
                    return ('ofield', o, e['f'])
        if k == 'idx':
            b = self.lv(e['b'], fn, env)
            if not (isinstance(b, tuple) and b[0] == 'array'):
                raise Refuse('subscript of something that is not a member array: ' + ir.pp(e))
            return Elem(b[1], self.ev(e['i'], fn, env))
        if k == 'un' and e['op'] == '*':
            v = self.ev_or_lv(e['e'], fn, env)
            if isinstance(v, Elem):
                return v
        if k == 'un' and e['op'] == '&':
            return self.lv(e['e'], fn, env)
        if k == 'call':
            v = self.ev(e, fn, env)       # an accessor returning a reference to an element
            if isinstance(v, Elem):
                return v
        raise Refuse('lvalue ' + ir.pp(e))

    def load(self, lv, env):
        if isinstance(lv, Elem):
            for a, i, v in reversed(self.stores):
                if a == lv.array:
                    if i == lv.index:
                        return v
                    if isinstance(i, int) and isinstance(lv.index, int):
                        continue
                    if isinstance(i, Sym) and isinstance(lv.index, Sym) and i.name == lv.index.name:
                        continue
                    if self.distinct_indices:
                        continue
                    raise Refuse('load of %r after a store to a possibly different element' % lv)
            return Opaque(('entry', lv.array, lv.index))
        if lv[0] == 'var':
            return env[lv[1]]
        if lv[0] == 'field':
            if lv[1] not in self.fields:
                raise Refuse('member %s' % lv[1])
            return self.fields[lv[1]]
        if lv[0] == 'ofield':
            if lv[2] not in lv[1].fields:
                raise Refuse('member %s of a referenced object' % lv[2])
            return lv[1].fields[lv[2]]
        raise Refuse('load of %r' % (lv,))

    def store(self, lv, v, env):
        if isinstance(lv, Elem):
            self.stores.append((lv.array, lv.index, v))
        elif lv[0] == 'var':
            env[lv[1]] = v
        elif lv[0] == 'field':
            self.fields[lv[1]] = v
        elif lv[0] == 'ofield':
            lv[1].fields[lv[2]] = v
        else:
            raise Refuse('store to %r' % (lv,))

    def ev_or_lv(self, e, fn, env):
        """value of e; for expressions that denote an array element (returned by reference) the Elem itself"""
        s = ir.strip(e)
        if s['k'] in ('idx',) or (s['k'] == 'var' and isinstance(env.get(s['id']), Elem)):
            return self.lv(s, fn, env)
        if s['k'] == 'mem':
            try:
                l = self.lv(s, fn, env)
                if isinstance(l, Elem):
                    return l if False else self.load(l, env)
            except Refuse:
                pass
        if s['k'] == 'un' and s['op'] == '&':
            return self.lv(s['e'], fn, env)
        return self.ev(e, fn, env)

    # ---- expressions
    def ev(self, e, fn, env):
        e0 = e
        e = ir.strip(e)
        k = e['k']
        if k == 'c':
            return e['v']
        if k in ('var', 'mem', 'idx'):
            lv = self.lv(e, fn, env)
            if isinstance(lv, tuple) and lv[0] == 'array':
                return lv
            return self.load(lv, env)
        if k == 'cast':
            return self.ev(e['e'], fn, env)
        if k == 'un':
            if e['op'] in ('++', '--'):
                lv = self.lv(e['e'], fn, env)
                old = self.load(lv, env)
                new = add(old, 1 if e['op'] == '++' else -1)
                self.store(lv, new, env)
                return old if e.get('post') else new
            if e['op'] == '&':
                return self.lv(e['e'], fn, env)
            if e['op'] == '*':
                v = self.ev_or_lv(e['e'], fn, env)
                return self.load(v, env) if isinstance(v, Elem) else v
            if e['op'] == '!':
                return 0 if self.truth(e['e'], fn, env) else 1
            raise Refuse('unary ' + e['op'])
        if k == 'bin':
            op = e['op']
            if op in ('==', '!=', '<', '<=', '>', '>='):
                a = self.ev(e['l'], fn, env)
                b = self.ev(e['r'], fn, env)
                try:
                    return 1 if compare(op, a, b) else 0
                except Refuse:
                    return Opaque(('cmp', op, a, b))     # a value, not a decision: fine as long as nobody branches on it
            if op in ('&&', '||'):
                return 1 if self.truth(e, fn, env) else 0
            a = self.ev(e['l'], fn, env)
            b = self.ev(e['r'], fn, env)
            if op == '+':
                return add(a, b)
            if op == '-' and isinstance(b, int):
                return add(a, -b)
            if op == '-' and isinstance(a, Sym) and isinstance(b, Sym) and a.name == b.name:
                return a.off - b.off
            raise Refuse('operator %s on %r, %r' % (op, a, b))
        if k == 'cond':
            return self.ev(e['t'] if self.truth(e['c'], fn, env) else e['f'], fn, env)
        if k == 'asg':
            lv = self.lv(e['l'], fn, env)
            r = self.ev(e['r'], fn, env)
            if e['op'] == '+=':
                r = add(self.load(lv, env), r)
            elif e['op'] == '-=':
                if not isinstance(r, int):
                    raise Refuse('-= of a non-constant')
                r = add(self.load(lv, env), -r)
            elif e['op'] != '=':
                raise Refuse('operator ' + e['op'])
            self.store(lv, r, env)
            return r
        if k == 'new':
            place = e.get('place') or []
            if len(place) != 1:
                raise Refuse('non-placement new')
            tgt = self.lv(place[0], fn, env)
            if not isinstance(tgt, Elem):
                raise Refuse('placement new into something that is not an element: ' + ir.pp(e))
            init = e.get('init')
            args = []
            if ir.is_expr(init):
                i = ir.strip(init)
                args = [self.ev(a, fn, env) for a in (i.get('args') or i.get('es') or [])] if i['k'] in ('ctor', 'init') else [self.ev(init, fn, env)]
            self.store(tgt, Opaque(('constructed',) + tuple(args)), env)
            return tgt
        if k in ('tmp', 'definit'):
            return self.ev(e['e'], fn, env)
        if k == 'init' and len(e.get('es', [])) == 1:
            return self.ev(e['es'][0], fn, env)
        if k == 'init':
            # aggregate initialisation of a small value object: a value with identity determined by its parts
            return Opaque(('constructed',) + tuple(self.ev(x, fn, env) for x in e.get('es', [])))
        if k == 'ctor':
            args = [self.ev(a, fn, env) for a in e.get('args', [])]
            if (e.get('copy') or e.get('move')) and len(args) == 1:
                return args[0]
            return Opaque(('constructed',) + tuple(args))
        if k == 'call':
            g = self.F.fn(e['fn']) if e.get('fn') is not None else None
            if e.get('op') == '=' and ir.is_expr(e.get('obj')) and len(e.get('args', [])) == 1 and (g is None or g.d.get('implicit') or g.d.get('defaulted')):
                lv = self.lv(e['obj'], fn, env)
                v = self.ev(e['args'][0], fn, env)
                self.store(lv, v, env)
                return v
            if g is not None and g.qn in ('ffsm2::move', 'ffsm2::forward') and e.get('args'):
                return self.ev(e['args'][0], fn, env)
            if g is not None and self.primitive is not None:
                try:
                    pargs = [self.ev(a, fn, env) for a in e.get('args', [])]
                except Refuse:
                    pargs = None
                if pargs is not None and self.primitive(g, ir.pp(ir.strip(e['obj'])) if ir.is_expr(e.get('obj')) else '', pargs):
                    self.events.append((g.short, ir.pp(ir.strip(e['obj'])) if ir.is_expr(e.get('obj')) else '', tuple(pargs)))
                    return Opaque(('result', g.short, tuple(pargs)))
            if g is None or g.body is None or self.depth > 6:
                raise Refuse('call to %s' % (e.get('name') or e.get('m')))
            sub = self
            if ir.is_expr(e.get('obj')) and ir.strip(e['obj'])['k'] != 'this':
                o = ir.strip(e['obj'])
                if o['k'] == 'un' and o['op'] == '*' and ir.strip(o['e'])['k'] == 'this':
                    pass
                else:
                    target = None
                    try:
                        tl = self.lv(o, fn, env)
                        target = self.load(tl, env) if not isinstance(tl, Elem) else None
                    except Refuse:
                        target = None
                    if not isinstance(target, ObjRef):
                        raise Refuse('call on another object: ' + ir.pp(e))
                    sub = Eval(self.F, target.fields, target.arrays, self.assume)
                    sub.stores = self.stores
                    sub.depth = self.depth
                    sub.owner = target
                    sub.prefix = (target.name + '.') if target.name else ''
                    sub.distinct_indices = self.distinct_indices
            cenv = {}
            for p, a in zip(g.params, e.get('args', [])):
                cenv[p['id']] = self.ev_or_lv(a, fn, env) if '&' in (p.get('ty') or '') else self.ev(a, fn, env)
            sub.depth += 1
            try:
                sub.stmt(g.body, g, cenv)
            except _Ret as r:
                return r.v
            finally:
                sub.depth -= 1
                if sub is not self:
                    sub.owner.fields = sub.fields
            return None
        if k == 'this':
            return ('this',)
        if k == 'un' and False:
            pass
        raise Refuse('expression %s: %s' % (k, ir.pp(e0)))


def explore(make_eval, fn, args, limit=4096):
    """run fn once per combination of the undecided comparisons it actually branches on (depth-first). make_eval(assume) -> Eval.
    returns [(decisions {(op, a, b): bool}, Summary)] -- predicate abstraction over exactly those comparisons, no solver."""
    out = []
    pending = [[]]
    while pending:
        prefix = pending.pop()
        taken = []
        decisions = {}

        def assume(op, a, b):
            key = (op, a, b)
            if key in decisions:
                return decisions[key]
            neg = {'==': '!=', '!=': '==', '<': '>=', '>=': '<', '>': '<=', '<=': '>'}[op]
            if (neg, a, b) in decisions:
                return not decisions[(neg, a, b)]
            i = len(taken)
            if i < len(prefix):
                d = prefix[i]
            else:
                d = False
                pending.append(taken[:] + [True])
            taken.append(d)
            decisions[key] = d
            return d
        ev = make_eval(assume)
        sm = ev.run(fn, list(args))
        out.append((decisions, sm))
        if len(out) > limit:
            raise Refuse('more than %d decision paths' % limit)
    return out
