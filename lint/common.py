"""Bookkeeping shared by every check: obligations, evidence, known findings, exit codes.

Exit codes (DESIGN.md section 3):
  0  every obligation discharged (after printing KNOWN-FINDING lines)
  1  at least one obligation violated and not listed as known
     (prints `VIOLATION property=<id> replay=<path>`)
  2  analysis broken (anchor vanished, witness does not compile, unknown idiom,
     instance count below its floor) -- never a pass, never a violation
"""
import json
import os
import sys
import time
import hashlib

VERIF = os.path.dirname(os.path.dirname(os.path.abspath(__file__)))
REPO = os.environ.get('FFSM2_REPO', '/repo')
# scratch-copy runs (self-tests, seeded changes) redirect their evidence and reports so that /verif/evidence only ever holds runs against /repo
EVIDENCE_DIR = os.environ.get('VERIF_EVIDENCE_DIR') or os.path.join(VERIF, 'evidence')
REPORT_DIR = os.environ.get('VERIF_REPORT_DIR') or os.path.join(VERIF, 'reports')
BUILD_DIR = os.path.join(VERIF, '.build')
CACHE_DIR = os.path.join(VERIF, '.cache')
KNOWN_FILE = os.path.join(VERIF, 'known_findings.json')

ASSUMPTIONS = [
    "A1: user callbacks act on the machine only through the control object they are handed; "
    "what each control flavour can write is computed by the effect analysis and modelled as a havoc of exactly that set",
    "A2: callbacks do not call the public API of the instance that is calling them",
    "A3: API calls respect the preconditions the library asserts (FFSM2_ASSERT expands to ((void)0) on this platform); "
    "update/react/query/changeTo/save/replayTransition on an active machine, enter()/replayEnter() on an inactive one, "
    "indices passed to bit arrays / plans are in range",
    "clang 14's front end (parser, template instantiation, overload resolution, constant evaluation, record layout) is trusted",
]


class AnalysisBroken(Exception):
    pass


def rel(path):
    """file:line:col with the repo prefix shortened, for reports."""
    if not path:
        return path
    for pre in (REPO + '/', ):
        if path.startswith(pre):
            return path[len(pre):]
    i = path.find('/include/ffsm2/')
    if i >= 0:
        return path[i + 1:]
    i = path.find('/development/ffsm2/')
    if i >= 0:
        return path[i + 1:]
    return path


class Run:
    def __init__(self, pid, tier, level='other'):
        self.pid = pid
        self.tier = tier
        self.level = level
        self.t0 = time.time()
        self.obligations = []      # dicts: rule, instance, ok, where, detail
        self.rule_counts = {}
        self.floors = {}
        self.notes = []
        self.extra = {}
        self.explanation = ''
        self.assumptions = list(ASSUMPTIONS)
        self.seed = int(os.environ.get('VERIF_SEED', '0') or 0)
        self.cross_reference = []
        self.analysed = {}
        self.incomplete = []       # sub-rules that could not be evaluated (label, reason)

    # ------------------------------------------------------------------ obligations
    def ob(self, rule, instance, ok, where=None, detail=None, key=None):
        """Record one obligation. `key` identifies the finding for known_findings (stable: no line numbers)."""
        o = {'rule': rule, 'instance': instance, 'ok': bool(ok)}
        if where:
            o['where'] = rel(where)
        if detail is not None:
            o['detail'] = detail
        o['key'] = key or instance
        self.obligations.append(o)
        c = self.rule_counts.setdefault(rule, [0, 0])
        c[0] += 1
        if ok:
            c[1] += 1
        return bool(ok)

    def relabel(self, old, new):
        """re-file the obligations recorded under rule id `old` as `new` (a shared sub-rule reported under the id of the
        property that is being checked)."""
        for o in self.obligations:
            if o['rule'] == old:
                o['rule'] = new
        c = self.rule_counts.pop(old, None)
        if c:
            c2 = self.rule_counts.setdefault(new, [0, 0])
            c2[0] += c[0]
            c2[1] += c[1]

    def floor(self, rule, n):
        """Require at least n instances of `rule` (checked in finish)."""
        self.floors[rule] = max(self.floors.get(rule, 0), n)

    def broken(self, msg):
        raise AnalysisBroken(msg)

    def require(self, cond, msg):
        if not cond:
            raise AnalysisBroken(msg)

    def note(self, msg):
        self.notes.append(msg)

    def guard(self, label, fn, *args, **kw):
        """run one sub-rule; if it cannot be evaluated (AnalysisBroken) remember that and carry on with the other sub-rules, so that a
        part of the analysis that lost its anchor never hides what the remaining rules can still establish. finish() turns a remembered
        failure into exit 2 unless a violation was found (then exit 1 with an ANALYSIS-INCOMPLETE line)."""
        try:
            return fn(*args, **kw)
        except AnalysisBroken as e:
            self.incomplete.append((label, str(e)))
            return None

    def count(self, what, n=1):
        self.analysed[what] = self.analysed.get(what, 0) + n

    # ------------------------------------------------------------------ finish
    def finish(self):
        if self.incomplete:
            for label, why in self.incomplete:
                self.note('analysis incomplete (%s): %s' % (label, why))
            if not any(not o['ok'] for o in self.obligations):
                raise AnalysisBroken('%s: %s' % self.incomplete[0])
            print('ANALYSIS-INCOMPLETE property=%s (violations found by the rules that did run are reported): %s: %s' % ((self.pid,) + self.incomplete[0]))
            self.floors = {}
        for rule, n in self.floors.items():
            got = self.rule_counts.get(rule, [0, 0])[0]
            if got < n:
                raise AnalysisBroken('rule %s matched %d instance(s), floor is %d' % (rule, got, n))
        if not self.obligations:
            raise AnalysisBroken('no obligation was generated')
        known = load_known()
        viol = [o for o in self.obligations if not o['ok']]
        # de-duplicate findings by (rule,key)
        groups = {}
        for o in viol:
            groups.setdefault((o['rule'], o['key']), []).append(o)
        unknown_groups = {}
        known_lines = []
        for (rule, key), os_ in groups.items():
            kf = match_known(known, self.pid, rule, key)
            if kf is not None:
                known_lines.append('KNOWN-FINDING: property=%s rule=%s %s -- %s' % (self.pid, rule, key, kf.get('what', '')))
            else:
                unknown_groups[(rule, key)] = os_
        for l in sorted(set(known_lines)):
            print(l)
        replay = None
        if unknown_groups:
            os.makedirs(REPORT_DIR, exist_ok=True)
            replay = os.path.join(REPORT_DIR, '%s-%s.json' % (self.pid, self.tier))
            rep = {'property': self.pid, 'tier': self.tier, 'violations': []}
            for (rule, key), os_ in sorted(unknown_groups.items()):
                rep['violations'].append({'rule': rule, 'key': key, 'count': len(os_), 'instances': os_[:12]})
            with open(replay, 'w') as f:
                json.dump(rep, f, indent=1)
        self.write_evidence(len(unknown_groups), len(known_lines))
        n_ob = len(self.obligations)
        n_ok = sum(1 for o in self.obligations if o['ok'])
        print('%s [%s] obligations=%d discharged=%d rules=%d wall=%.1fs' % (
            self.pid, self.tier, n_ob, n_ok, len(self.rule_counts), time.time() - self.t0))
        if unknown_groups:
            for (rule, key), os_ in sorted(unknown_groups.items()):
                o = os_[0]
                print('  violated %s: %s  @ %s' % (rule, key, o.get('where', '?')))
                if o.get('detail') is not None:
                    d = o['detail'] if isinstance(o['detail'], str) else json.dumps(o['detail'])
                    print('    ' + d[:600])
            print('VIOLATION property=%s replay=%s' % (self.pid, replay))
            return 1
        return 0

    def write_evidence(self, n_viol, n_known):
        os.makedirs(EVIDENCE_DIR, exist_ok=True)
        n_ob = len(self.obligations)
        n_ok = sum(1 for o in self.obligations if o['ok'])
        samples = []
        seen_rules = set()
        for o in self.obligations:
            if o['rule'] not in seen_rules and o['ok']:
                seen_rules.add(o['rule'])
                samples.append({k: o[k] for k in ('rule', 'instance', 'where', 'detail') if k in o})
        for o in self.obligations:
            if not o['ok'] and len(samples) < 80:
                s = {k: o[k] for k in ('rule', 'instance', 'where', 'detail') if k in o}
                s['violated'] = True
                samples.append(s)
        distinct = len(set((o['rule'], o['instance'], o.get('where')) for o in self.obligations))
        cov = {
            'obligations': n_ob,
            'discharged': n_ok,
            'evaluations': n_ob,
            'distinct_nontrivial': distinct,
            'rule': 'one obligation = one rule instance on one source function / record / type-level fact in one '
                    'configuration and header variant; distinct = distinct (rule, instance, source location)',
            'rules': {r: {'instances': c[0], 'discharged': c[1], 'floor': self.floors.get(r, 0)}
                      for r, c in sorted(self.rule_counts.items())},
            'analysed': self.analysed,
            'samples': samples[:120],
            'explanation': self.explanation,
            'known_findings_reported': n_known,
        }
        if self.notes:
            cov['notes'] = self.notes
        if self.cross_reference:
            cov['cross_reference'] = self.cross_reference
        cov.update(self.extra)
        ev = {
            'property_id': self.pid,
            'tier': self.tier,
            'seed': self.seed,
            'level': self.level,
            'coverage': cov,
            'assumptions': self.assumptions,
            'wall_s': round(time.time() - self.t0, 2),
            'violations': n_viol,
        }
        with open(os.path.join(EVIDENCE_DIR, self.pid + '.json'), 'w') as f:
            json.dump(ev, f, indent=1, sort_keys=False)


def load_known():
    if not os.path.exists(KNOWN_FILE):
        return {'findings': [], 'fixed': []}
    with open(KNOWN_FILE) as f:
        return json.load(f)


def match_known(known, pid, rule, key):
    for k in known.get('findings', []):
        if k.get('property') == pid and k.get('rule') == rule and k.get('key') == key:
            return k
    return None


def sha(*parts):
    h = hashlib.sha256()
    for p in parts:
        if isinstance(p, str):
            p = p.encode()
        h.update(p)
        h.update(b'\0')
    return h.hexdigest()[:24]
