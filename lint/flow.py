"""API-level abstract interpretation (DESIGN 2.2-3).

Forward analysis over the extracted statement trees with library-internal callees interpreted at their call sites.
Abstract state = must-equalities between scalar slots (a partition into value classes) + a constant or a set of
excluded constants per class + reference bindings + a few finite observer variables. States are joined at control
flow merges (partition intersection); a bounded disjunction is kept, keyed by the observer variables and by the
constant-ness of designated splitter slots. Expressions are evaluated path-sensitively inside a full expression
(short-circuit operators, ?: and the outcomes of interpreted callees are kept apart until the next statement-level
merge). Loops are iterated to a fixpoint; all domains are finite. There is no path enumeration handed to a solver
and no symbolic arithmetic: conditions are folded by constants / equalities or recorded as equalities.

Calls that are *primitives* (the CS_ dispatchers, the head state's S_ wrappers, anything the client declares) are not
interpreted; the client turns them into events and outcomes.
"""
import itertools

from . import ir, effects
from .common import AnalysisBroken

MAX_STATES = 24
MAX_ITER = 40


class Infeasible(Exception):
    pass


class State:
    __slots__ = ('cls', 'const', 'neq', 'refs', 'obs', 'nid', 'kcls', 'trace')

    def __init__(self):
        self.cls = {}        # loc -> class id
        self.const = {}      # class id -> int
        self.neq = {}        # class id -> frozenset(int)
        self.refs = {}       # loc -> loc
        self.obs = {}        # observer variables (hashable values)
        self.nid = 0
        self.kcls = {}       # int constant -> class id
        self.trace = ()      # short event trace (for reports only; not part of equality)

    def copy(self):
        s = State()
        s.cls = dict(self.cls)
        s.const = dict(self.const)
        s.neq = dict(self.neq)
        s.refs = dict(self.refs)
        s.obs = dict(self.obs)
        s.nid = self.nid
        s.kcls = dict(self.kcls)
        s.trace = self.trace
        return s

    # -- classes
    def fresh(self):
        self.nid += 1
        return self.nid

    def kclass(self, k):
        c = self.kcls.get(k)
        if c is None:
            c = self.fresh()
            self.kcls[k] = c
            self.const[c] = k
        return c

    def get(self, loc):
        c = self.cls.get(loc)
        if c is None:
            c = self.fresh()
            self.cls[loc] = c
        return c

    def set(self, loc, c):
        self.cls[loc] = c

    def set_const(self, loc, k):
        self.cls[loc] = self.kclass(k)

    def set_unknown(self, loc):
        self.cls[loc] = self.fresh()

    def const_of(self, loc):
        return self.const.get(self.get(loc))

    def cconst(self, c):
        return self.const.get(c)

    def excluded(self, c, k):
        kc = self.const.get(c)
        if kc is not None:
            return kc != k
        return k in self.neq.get(c, ())

    def same(self, l1, l2):
        return self.get(l1) == self.get(l2)

    def merge_classes(self, a, b):
        """refine: a == b"""
        if a == b:
            return
        ka, kb = self.const.get(a), self.const.get(b)
        if ka is not None and kb is not None and ka != kb:
            raise Infeasible()
        if ka is not None and kb is None and ka in self.neq.get(b, ()):
            raise Infeasible()
        if kb is not None and ka is None and kb in self.neq.get(a, ()):
            raise Infeasible()
        # keep the one that is a constant class
        keep, drop = (a, b) if (ka is not None or kb is None) else (b, a)
        for l, c in self.cls.items():
            if c == drop:
                self.cls[l] = keep
        n = self.neq.pop(drop, frozenset()) | self.neq.get(keep, frozenset())
        if n and self.const.get(keep) is None:
            self.neq[keep] = frozenset(n)
        if drop in self.const:
            k = self.const.pop(drop)
            self.const[keep] = k
            self.kcls[k] = keep
        for k2, v in list(self.obs.items()):
            if isinstance(v, tuple) and len(v) == 2 and v[0] == 'cls' and v[1] == drop:
                self.obs[k2] = ('cls', keep)

    def exclude(self, c, k):
        """refine: class c != constant k"""
        kc = self.const.get(c)
        if kc is not None:
            if kc == k:
                raise Infeasible()
            return
        self.neq[c] = frozenset(self.neq.get(c, frozenset()) | {k})

    def assume_const(self, c, k):
        self.merge_classes(self.kclass(k), c)

    def havoc_prefix(self, prefix):
        n = len(prefix)
        for l in list(self.cls):
            if l[:n] == prefix:
                self.cls[l] = self.fresh()

    def drop_prefix(self, prefix):
        n = len(prefix)
        for l in list(self.cls):
            if l[:n] == prefix:
                del self.cls[l]
        for l in list(self.refs):
            if l[:n] == prefix:
                del self.refs[l]

    def locs_under(self, prefix):
        n = len(prefix)
        return [l for l in self.cls if l[:n] == prefix]

    def copy_obj(self, dst, src):
        """whole-object copy: every tracked slot below src is copied to the same relative path below dst;
        slots below dst that src does not have become unknown."""
        n = len(src)
        items = [(l[n:], c) for l, c in self.cls.items() if l[:n] == src]
        m = len(dst)
        for l in list(self.cls):
            if l[:m] == dst:
                self.cls[l] = self.fresh()
        for rel, c in items:
            self.cls[dst + rel] = c

    def note(self, ev):
        t = self.trace + (ev,)
        if len(t) > 40:
            t = t[-40:]
        self.trace = t

    # -- canonical form for equality / fixpoint detection
    def canon(self):
        ren = {}
        out = []
        for l in sorted(self.cls):
            c = self.cls[l]
            if c not in ren:
                ren[c] = len(ren)
            k = self.const.get(c)
            out.append((l, ren[c], k, tuple(sorted(self.neq.get(c, ()))) if k is None else ()))
        obs = []
        for k2 in sorted(self.obs, key=repr):
            v = self.obs[k2]
            if isinstance(v, tuple) and len(v) == 2 and v[0] == 'cls':
                v = ('cls', ren.get(v[1], -1))
            obs.append((repr(k2), repr(v)))
        return (tuple(out), tuple(sorted(self.refs.items())), tuple(obs))


def join(a, b):
    """least upper bound: partition intersection; constants kept when equal; exclusions intersected."""
    s = State()
    s.refs = {l: r for l, r in a.refs.items() if b.refs.get(l) == r}
    for l, r in a.refs.items():
        if l not in b.refs:
            s.refs[l] = r
    for l, r in b.refs.items():
        if l not in a.refs:
            s.refs[l] = r
    pair = {}
    locs = set(a.cls) | set(b.cls)
    for l in sorted(locs):
        ca = a.cls.get(l)
        cb = b.cls.get(l)
        if ca is None or cb is None:
            s.cls[l] = s.fresh()
            continue
        key = (ca, cb)
        c = pair.get(key)
        if c is None:
            ka, kb = a.const.get(ca), b.const.get(cb)
            if ka is not None and ka == kb:
                c = s.kclass(ka)
            else:
                c = s.fresh()
                na = frozenset(a.neq.get(ca, ())) if ka is None else None
                nb = frozenset(b.neq.get(cb, ())) if kb is None else None
                if ka is None and kb is None:
                    n = na & nb
                elif ka is None:
                    n = frozenset(x for x in na if x != kb)
                elif kb is None:
                    n = frozenset(x for x in nb if x != ka)
                else:
                    n = frozenset()
                if n:
                    s.neq[c] = n
            pair[key] = c
        s.cls[l] = c
    for k2 in set(a.obs) | set(b.obs):
        va, vb = a.obs.get(k2), b.obs.get(k2)
        if isinstance(va, tuple) and len(va) == 2 and va[0] == 'cls' and isinstance(vb, tuple) and len(vb) == 2 and vb[0] == 'cls':
            c = pair.get((va[1], vb[1]))
            s.obs[k2] = ('cls', c) if c is not None else 'TOP'
        elif va == vb:
            s.obs[k2] = va
        else:
            s.obs[k2] = 'TOP'
    s.trace = a.trace if len(a.trace) >= len(b.trace) else b.trace
    return s


class Flow:
    __slots__ = ('normal', 'ret', 'brk', 'cont')

    def __init__(self, normal=None, ret=None, brk=None, cont=None):
        self.normal = normal or []
        self.ret = ret or []        # (state, value)
        self.brk = brk or []
        self.cont = cont or []


class Frame:
    __slots__ = ('fn', 'fid', 'this', 'vars', 'parent')

    def __init__(self, fn, fid, this, parent=None):
        self.fn = fn
        self.fid = fid
        self.this = this
        self.vars = {}     # var id -> ('loc', loc) | ('ref', loc)
        self.parent = parent


# values
def V_s(c):
    return ('s', c)


def V_o(loc):
    return ('o', loc)


def V_b(t, pred=None):
    return ('b', t, pred)


V_U = ('u',)


class Interp:
    """Client subclasses override is_primitive/on_primitive/on_write/key_of/untracked."""

    def __init__(self, F, E=None):
        self.F = F
        self.E = E or effects.Effects(F)
        self.violations = []       # (rule, key, where, detail)
        self.events_seen = 0
        self.calls_interpreted = 0
        self.max_states = 0
        self.tmp_counter = 0
        self._fields_cache = {}

    # ---------------------------------------------------------------- client hooks
    def is_primitive(self, fn, call, frame):
        return None

    def on_primitive(self, tag, fn, call, frame, st, args, this_loc):
        return [(st, V_U)]

    def on_write(self, st, loc, frame, node):
        pass

    def on_obj_copy(self, st, dst, src, frame, node):
        pass

    def key_of(self, st):
        return tuple(sorted(((repr(k), repr(v) if not (isinstance(v, tuple) and v and v[0] == 'cls') else 'cls') for k, v in st.obs.items())))

    def untracked(self, loc):
        return False

    def skip_call(self, fn, call, frame):
        """calls that only touch untracked state and reach neither user code nor primitives"""
        return False

    def report(self, rule, key, where, detail=None, st=None):
        d = detail
        if st is not None:
            d = {'detail': detail, 'trace': list(st.trace[-14:])}
        self.violations.append((rule, key, where, d))

    # ---------------------------------------------------------------- records
    def fields_of(self, tyname):
        """flattened scalar field names of a record type (through bases, anonymous unions, nested records as prefixes)"""
        t = tyname.replace('const ', '').rstrip('&').strip()
        r = self._fields_cache.get(t)
        if r is not None:
            return r
        out = []
        rec = self.F.rec_by_name.get(t)
        if rec is not None:
            for b in rec.get('bases', []):
                out.extend(self.fields_of(b['name']))
            for f in rec['fields']:
                if f.get('anon'):
                    for m in f.get('members', [])[:1]:
                        out.append((m['n'],))
                elif f.get('cls') and not f.get('extent') and not f.get('ref'):
                    for sub in self.fields_of(f['cls']):
                        out.append((f['n'],) + sub)
                elif f.get('ref'):
                    continue
                else:
                    out.append((f['n'],))
        self._fields_cache[t] = out
        return out

    # ---------------------------------------------------------------- state sets
    def merge(self, states):
        """keyed join of a list of states; drops duplicates"""
        groups = {}
        order = []
        for s in states:
            k = self.key_of(s)
            if k in groups:
                groups[k] = join(groups[k], s)
            else:
                groups[k] = s
                order.append(k)
        out = [groups[k] for k in order]
        if len(out) > MAX_STATES:
            acc = out[0]
            for s in out[1:]:
                acc = join(acc, s)
            out = [acc]
        self.max_states = max(self.max_states, len(out))
        return out

    def same_sets(self, a, b):
        return sorted(repr(s.canon()) for s in a) == sorted(repr(s.canon()) for s in b)

    # ---------------------------------------------------------------- lvalues
    def tmp_loc(self, frame, node):
        return ('T', frame.fid, str(node.get('l') or id(node) % 100000), node.get('k', ''))

    def lv(self, e, frame, st):
        """list of (state, loc) for an lvalue / object expression"""
        k = e['k']
        if k in ('tmp', 'definit'):
            return self.lv(e['e'], frame, st)
        if k == 'cast':
            return self.lv(e['e'], frame, st)
        if k == 'this':
            return [(st, frame.this)]
        if k == 'var':
            b = frame.vars.get(e['id'])
            if b is None:
                if e.get('vk') in ('global', 'static_member'):
                    return [(st, ('G', e.get('qn') or e['n']))]
                raise AnalysisBroken('unbound variable %s in %s' % (e['n'], frame.fn.short))
            return [(st, b[1])]
        if k == 'mem':
            out = []
            for s2, base in self.lv(e['b'], frame, st):
                if e.get('arrow') and base in s2.refs:
                    base = s2.refs[base]          # `p->f` through a pointer member bound to a known object (see init_member)
                loc = base + (e['f'],)
                if e.get('ref'):
                    r = s2.refs.get(loc)
                    if r is None:
                        r = ('U', 'ref') + loc      # unbound reference: an unknown object
                    loc = r
                out.append((s2, loc))
            return out
        if k == 'idx':
            return [(s2, base + ('[]',)) for s2, base in self.lv(e['b'], frame, st)]
        if k == 'un' and e['op'] == '*':
            out = []
            for s2, loc in self.lv(e['e'], frame, st):
                out.append((s2, s2.refs.get(loc, loc) if '*' in (ir.strip(e['e']).get('ty') or '') else loc))     # a pointer member bound to a known object
            return out
        if k == 'un' and e['op'] == '&':
            return self.lv(e['e'], frame, st)
        if k in ('call', 'ctor', 'init', 'cond', 'asg', 'zero', 'new'):
            out = []
            for s2, v in self.ev(e, frame, st):
                if v[0] == 'o':
                    out.append((s2, v[1]))
                elif v[0] == 'lv':
                    out.append((s2, v[1]))
                else:
                    # materialise a scalar temporary
                    loc = self.tmp_loc(frame, e)
                    if v[0] == 's':
                        s2.set(loc, v[1])
                    elif v[0] == 'b' and v[1] is not None:
                        s2.set_const(loc, 1 if v[1] else 0)
                    else:
                        s2.set_unknown(loc)
                    out.append((s2, loc))
            return out
        if k == 'c':
            loc = self.tmp_loc(frame, e)
            st.set_const(loc, e['v'])
            return [(st, loc)]
        raise AnalysisBroken('lvalue of expression kind %s in %s: %s' % (k, frame.fn.short, ir.pp(e)))

    # ---------------------------------------------------------------- rvalues
    def as_scalar(self, st, v):
        """class id of a value used as a scalar"""
        if v[0] == 's':
            return v[1]
        if v[0] == 'b':
            if v[1] is None:
                return st.fresh()
            return st.kclass(1 if v[1] else 0)
        if v[0] in ('o', 'lv'):
            return st.get(v[1])
        return st.fresh()

    def truth(self, st, v):
        """(True/False/None, pred) of a value used as a condition"""
        if v[0] == 'b':
            return v[1], v[2]
        if v[0] == 's':
            k = st.cconst(v[1])
            if k is not None:
                return (k != 0), None
            if st.excluded(v[1], 0):
                return True, None
            return None, ('ne', v[1], ('k', 0))
        if v[0] in ('o', 'lv'):
            c = st.get(v[1])
            return self.truth(st, V_s(c))
        return None, None

    def refine(self, st, pred, outcome):
        """apply predicate (or its negation) to a copy of st; returns None if infeasible"""
        if pred is None:
            return st
        op, a, b = pred
        if not outcome:
            op = 'ne' if op == 'eq' else 'eq'
        try:
            if isinstance(b, tuple) and b[0] == 'k':
                if op == 'eq':
                    st.assume_const(a, b[1])
                else:
                    st.exclude(a, b[1])
            else:
                if op == 'eq':
                    st.merge_classes(a, b)
                else:
                    ka, kb = st.cconst(a), st.cconst(b)
                    if a == b:
                        raise Infeasible()
                    if ka is not None and kb is None:
                        st.exclude(b, ka)
                    elif kb is not None and ka is None:
                        st.exclude(a, kb)
        except Infeasible:
            return None
        return st

    def branch(self, outcomes):
        """split a list of (state, value) into (true_states, false_states) with refinement"""
        ts, fs = [], []
        for st, v in outcomes:
            t, pred = self.truth(st, v)
            if t is True:
                ts.append(st)
            elif t is False:
                fs.append(st)
            else:
                a = self.refine(st.copy(), pred, True)
                b = self.refine(st, pred, False)
                if a is not None:
                    ts.append(a)
                if b is not None:
                    fs.append(b)
        return ts, fs

    def compare(self, st, op, a, b):
        """abstract comparison of two class ids"""
        ka, kb = st.cconst(a), st.cconst(b)
        if op in ('==', '!='):
            if a == b:
                r = True
            elif ka is not None and kb is not None:
                r = ka == kb
            elif ka is not None and st.excluded(b, ka):
                r = False
            elif kb is not None and st.excluded(a, kb):
                r = False
            else:
                r = None
            pred = None
            if r is None:
                if kb is not None:
                    pred = ('eq', a, ('k', kb))
                elif ka is not None:
                    pred = ('eq', b, ('k', ka))
                else:
                    pred = ('eq', a, b)
            if op == '!=':
                r = None if r is None else (not r)
                if pred is not None:
                    pred = ('ne',) + pred[1:]
            return V_b(r, pred)
        if ka is not None and kb is not None:
            r = {'<': ka < kb, '<=': ka <= kb, '>': ka > kb, '>=': ka >= kb}[op]
            return V_b(r)
        if a == b:
            return V_b(op in ('<=', '>='))
        return V_b(None)

    def ev(self, e, frame, st):
        """list of (state, value)"""
        k = e['k']
        if k in ('tmp', 'definit'):
            return self.ev(e['e'], frame, st)
        if k == 'cast':
            return self.ev(e['e'], frame, st)
        if k == 'c':
            return [(st, V_s(st.kclass(e['v'])))]
        if k in ('zero',):
            if e.get('ty') and self.fields_of(e['ty']):
                loc = self.tmp_loc(frame, e)
                for f in self.fields_of(e['ty']):
                    st.set_const(loc + f, 0)
                return [(st, V_o(loc))]
            return [(st, V_s(st.kclass(0)))]
        if k == 'null':
            return [(st, V_s(st.kclass(0)))]
        if k == 'var' and frame.vars.get(e['id'], ('', None))[0] == 'fnval':
            return [(st, ('fn', frame.vars[e['id']][1]))]
        if k in ('this', 'var', 'mem', 'idx'):
            out = []
            for s2, loc in self.lv(e, frame, st):
                if self.untracked(loc):
                    out.append((s2, V_U))
                elif self.is_object_type(e):
                    out.append((s2, V_o(loc)))
                else:
                    out.append((s2, V_s(s2.get(loc))))
            return out
        if k == 'un':
            op = e['op']
            if op == '!':
                out = []
                for s2, v in self.ev(e['e'], frame, st):
                    t, pred = self.truth(s2, v)
                    if pred is not None:
                        pred = ('ne' if pred[0] == 'eq' else 'eq',) + pred[1:]
                    out.append((s2, V_b(None if t is None else (not t), pred)))
                return out
            if op in ('++', '--'):
                out = []
                for s2, loc in self.lv(e['e'], frame, st):
                    old = s2.get(loc)
                    ko = s2.cconst(old)
                    if ko is not None:
                        s2.set_const(loc, ko + (1 if op == '++' else -1))
                    else:
                        s2.set_unknown(loc)
                    self.on_write(s2, loc, frame, e)
                    out.append((s2, V_s(old if e.get('post') else s2.get(loc))))
                return out
            if op == '&' and ir.strip(e['e'])['k'] == 'fnref':
                return [(st, ('fn', ir.strip(e['e'])))]
            if op in ('*', '&'):
                out = []
                for s2, loc in self.lv(e['e'], frame, st):
                    out.append((s2, V_o(loc)))
                return out
            out = []
            for s2, v in self.ev(e['e'], frame, st):
                c = self.as_scalar(s2, v)
                kk = s2.cconst(c)
                if kk is not None and op == '-':
                    out.append((s2, V_s(s2.kclass(-kk))))
                elif kk is not None and op == '~':
                    out.append((s2, V_s(s2.kclass(~kk))))
                else:
                    out.append((s2, V_s(s2.fresh())))
            return out
        if k == 'bin':
            op = e['op']
            if op in ('&&', '||'):
                out = []
                for s2, v in self.ev(e['l'], frame, st):
                    ts, fs = self.branch([(s2, v)])
                    short, cont = (fs, ts) if op == '&&' else (ts, fs)
                    for s3 in short:
                        out.append((s3, V_b(op == '||')))
                    for s3 in cont:
                        for s4, v2 in self.ev(e['r'], frame, s3):
                            t, pred = self.truth(s4, v2)
                            out.append((s4, V_b(t, pred)))
                return out
            out = []
            for s2, lvv in self.ev(e['l'], frame, st):
                for s3, rvv in self.ev(e['r'], frame, s2):
                    a = self.as_scalar(s3, lvv)
                    b = self.as_scalar(s3, rvv)
                    if op in ('==', '!=', '<', '<=', '>', '>='):
                        out.append((s3, self.compare(s3, op, a, b)))
                    else:
                        ka, kb = s3.cconst(a), s3.cconst(b)
                        r = None
                        if ka is not None and kb is not None:
                            try:
                                r = {'+': ka + kb, '-': ka - kb, '*': ka * kb, '&': ka & kb, '|': ka | kb, '^': ka ^ kb,
                                     '<<': ka << kb if 0 <= kb < 64 else None, '>>': ka >> kb if 0 <= kb < 64 else None,
                                     '/': ka // kb if kb else None, '%': ka % kb if kb else None}.get(op)
                            except Exception:
                                r = None
                        out.append((s3, V_s(s3.kclass(r) if r is not None else s3.fresh())))
            return out
        if k == 'cond':
            out = []
            for s2, v in self.ev(e['c'], frame, st):
                ts, fs = self.branch([(s2, v)])
                for s3 in ts:
                    out.extend(self.ev(e['t'], frame, s3))
                for s3 in fs:
                    out.extend(self.ev(e['f'], frame, s3))
            return out
        if k == 'asg':
            return self.assign(e, frame, st)
        if k == 'call':
            return self.call_expr(e, frame, st)
        if k == 'ctor':
            loc = self.tmp_loc(frame, e)
            return [(s2, V_o(loc)) for s2 in self.construct_expr(e, loc, frame, st)]
        if k == 'init':
            es = e.get('es', [])
            if len(es) == 1:
                return self.ev(es[0], frame, st)
            if not es:
                return [(st, V_s(st.kclass(0)))]
            return [(st, V_U)]
        if k == 'new':
            # placement new of a payload: the storage slot becomes a copy of the initialiser (opaque scalar)
            out = []
            for s2, loc in self.lv(e['place'][0], frame, st):
                if e.get('init') is not None:
                    for s3, v in self.ev(e['init'], frame, s2):
                        s3.set(loc, self.as_scalar(s3, v))
                        self.on_write(s3, loc, frame, e)
                        out.append((s3, V_o(loc)))
                else:
                    s2.set_unknown(loc)
                    out.append((s2, V_o(loc)))
            return out
        if k == 'fnref':
            return [(st, ('fn', e))]
        if k in ('memptr', 'str', 'typeid', 'float'):
            return [(st, V_U)]
        if k == 'arraycopy':
            return self.ev(e['src'], frame, st)
        raise AnalysisBroken('expression kind %s in %s: %s' % (k, frame.fn.short, ir.pp(e)))

    def is_object_type(self, e):
        ty = e.get('ty', '')
        t = ty.replace('const ', '').rstrip('&').strip()
        return t in self.F.rec_by_name and bool(self.fields_of(t)) or (t.startswith('ffsm2::') and t in self.F.rec_by_name)

    # ---------------------------------------------------------------- assignment
    def assign(self, e, frame, st):
        out = []
        op = e['op']
        for s2, rv in self.ev(e['r'], frame, st):
            for s3, loc in self.lv(e['l'], frame, s2):
                if self.untracked(loc):
                    out.append((s3, V_U))
                    continue
                if op == '=':
                    if rv[0] == 'o' and self.fields_of(ir.strip(e['l']).get('ty', '')):
                        s3.copy_obj(loc, rv[1])
                        self.on_obj_copy(s3, loc, rv[1], frame, e)
                    else:
                        s3.set(loc, self.as_scalar(s3, rv))
                        self.on_write(s3, loc, frame, e)
                else:
                    old = s3.get(loc)
                    c = self.as_scalar(s3, rv)
                    ka, kb = s3.cconst(old), s3.cconst(c)
                    r = None
                    if ka is not None and kb is not None:
                        bop = op[:-1]
                        try:
                            r = {'+': ka + kb, '-': ka - kb, '|': ka | kb, '&': ka & kb, '^': ka ^ kb, '*': ka * kb,
                                 '<<': ka << kb if 0 <= kb < 64 else None, '>>': ka >> kb if 0 <= kb < 64 else None}.get(bop)
                        except Exception:
                            r = None
                    if r is not None:
                        s3.set_const(loc, r)
                    else:
                        s3.set_unknown(loc)
                    self.on_write(s3, loc, frame, e)
                out.append((s3, ('lv', loc)))
        return out

    # ---------------------------------------------------------------- calls
    def resolve_callee(self, e, frame):
        if e.get('fn') is not None:
            return self.F.fn(e['fn']), e
        if e.get('pm'):
            r = None
            p = ir.strip(e['pm']['ptr'])
            if p['k'] == 'var' and frame.vars.get(p['id'], ('', None))[0] == 'fnval':
                r = frame.vars[p['id']][1]
            if r is None:
                r = self.E.resolve_pm(frame.fn, e)
            if r is not None and r.get('fn') is not None:
                return self.F.fn(r['fn']), dict(e, obj=e['pm']['obj'], m=r.get('m'), cls=r.get('cls'), ext=r.get('ext'), defloc=r.get('defloc'))
        return None, e

    def call_expr(self, e, frame, st):
        g, e2 = self.resolve_callee(e, frame)
        m = e2.get('m') or ''
        # object
        objs = [(st, None)]
        if ir.is_expr(e2.get('obj')):
            objs = self.lv(e2['obj'], frame, st)
        elif g is not None and g.cls and not g.d.get('static') and g.kind != 'func':
            objs = [(st, frame.this)]
        out = []
        for s2, this_loc in objs:
            # arguments: evaluated lazily by bind (needs parameter kinds)
            if g is None or ((e2.get('op') == '=' or m == 'operator=') and (g.d.get('implicit') or g.d.get('defaulted'))):
                out.extend(self.external_call(e2, frame, s2, this_loc))
                continue
            tag = self.is_primitive(g, e2, frame)
            if tag is not None:
                argvals = []
                sts = [(s2, [])]
                for a in e2.get('args', []):
                    nxt = []
                    for s3, acc in sts:
                        for s4, loc_or_val in self.arg_value(a, frame, s3):
                            nxt.append((s4, acc + [loc_or_val]))
                    sts = nxt
                for s3, acc in sts:
                    self.events_seen += 1
                    out.extend(self.on_primitive(tag, g, e2, frame, s3, acc, this_loc))
                continue
            if self.skip_call(g, e2, frame):
                # evaluate arguments for their side effects (none expected), result unknown
                out.append((s2, V_U))
                continue
            out.extend(self.invoke(g, e2, frame, s2, this_loc))
        return out

    def arg_value(self, a, frame, st):
        """(state, ('loc', loc) | value) for a primitive's argument"""
        x = ir.strip(a)
        if x['k'] in ('var', 'mem', 'this', 'idx') or (x['k'] == 'un' and x['op'] in ('*', '&')):
            return [(s2, ('loc', loc)) for s2, loc in self.lv(x, frame, st)]
        return self.ev(a, frame, st)

    def external_call(self, e, frame, st, this_loc):
        m = e.get('m') or ''
        if e.get('op') == '=' or m == 'operator=':
            # implicit / trivial assignment operator without a body: memberwise copy
            out = []
            for s2, v in self.ev(e['args'][0], frame, st):
                if v[0] == 'o' and this_loc is not None and not self.untracked(this_loc):
                    s2.copy_obj(this_loc, v[1])
                    self.on_obj_copy(s2, this_loc, v[1], frame, e)
                out.append((s2, V_o(this_loc) if this_loc else V_U))
            return out
        if m in ('memset', '__builtin_memset'):
            out = []
            for s2, loc in self.lv(e['args'][0], frame, st):
                if not self.untracked(loc):
                    s2.havoc_prefix(loc)
                out.append((s2, V_U))
            return out
        if m == '~' or m.startswith('~'):
            return [(st, V_U)]
        if effects.is_user(e):
            raise AnalysisBroken('user call %s reached by the interpreter outside a primitive (in %s)' % (m, frame.fn.short))
        # other externals (type_index, operator new handled in 'new'): no effect on tracked state
        return [(st, V_U)]

    def invoke(self, g, e, frame, st, this_loc):
        """interpret callee g at this call site"""
        self.calls_interpreted += 1
        depth = 0
        p = frame
        while p is not None:
            depth += 1
            p = p.parent
        if depth > 14:
            raise AnalysisBroken('call depth exceeded at %s' % g.short)
        fid = frame.fid + '/' + g.m
        nf = Frame(g, fid, this_loc if this_loc is not None else frame.this, frame)
        sts = self.bind_params(g, e.get('args', []), frame, nf, st)
        out = []
        for s2 in sts:
            fl = self.exec_body(g, nf, [s2])
            rets = list(fl.ret) + [(s3, None) for s3 in fl.normal]
            for s3, v in rets:
                if v is None:
                    v = V_U
                out.append((s3, v))
        return out

    def bind_params(self, g, args, frame, nf, st):
        sts = [st]
        for i, p in enumerate(g.params):
            a = args[i] if i < len(args) else None
            nxt = []
            for s2 in sts:
                if a is None:
                    loc = ('F', nf.fid, p['n'] or ('p%d' % i))
                    s2.set_unknown(loc)
                    nf.vars[p['id']] = ('loc', loc)
                    nxt.append(s2)
                    continue
                if p.get('ref'):
                    for s3, loc in self.lv(a, frame, s2):
                        nf.vars[p['id']] = ('ref', loc)
                        nxt.append(s3)
                else:
                    loc = ('F', nf.fid, p['n'] or ('p%d' % i))
                    for s3, v in self.ev(a, frame, s2):
                        if v[0] == 'fn':
                            nf.vars[p['id']] = ('fnval', v[1])
                            nxt.append(s3)
                            continue
                        if v[0] == 'o':
                            s3.copy_obj(loc, v[1])
                        else:
                            s3.set(loc, self.as_scalar(s3, v))
                        nf.vars[p['id']] = ('loc', loc)
                        nxt.append(s3)
            sts = nxt
        return sts

    # ---------------------------------------------------------------- construction
    def construct_expr(self, e, loc, frame, st):
        """construct an object described by a 'ctor' expression at loc; returns states"""
        g = self.F.fn(e['fn']) if e.get('fn') is not None else None
        args = e.get('args', [])
        if (e.get('copy') or e.get('move')) and len(args) == 1 and (g is None or g.d.get('implicit') or g.d.get('defaulted') or e.get('trivial')):
            out = []
            for s2, v in self.ev(args[0], frame, st):
                if v[0] in ('o', 'lv'):
                    s2.copy_obj(loc, v[1])
                    self.on_obj_copy(s2, loc, v[1], frame, e)
                else:
                    s2.havoc_prefix(loc)
                out.append(s2)
            return out
        if g is None:
            # no body: default member initialisers from the record
            self.default_init(st, loc, e.get('cls') or e.get('ty', ''))
            return [st]
        return self.run_ctor(g, loc, args, frame, st)

    def default_init(self, st, loc, tyname):
        rec = self.F.rec_by_name.get(tyname.replace('const ', '').strip())
        if rec is None:
            return
        for b in rec.get('bases', []):
            self.default_init(st, loc, b['name'])
        for f in rec['fields']:
            if f.get('anon'):
                for m in f.get('members', []):
                    if m.get('nsdmi') and ir.const_val(m.get('nsdmi_e')) is not None:
                        st.set_const(loc + (m['n'],), ir.const_val(m['nsdmi_e']))
            elif f.get('cls') and not f.get('extent') and not f.get('ref'):
                self.default_init(st, loc + (f['n'],), f['cls'])
            elif f.get('nsdmi') and ir.const_val(f.get('nsdmi_e')) is not None:
                st.set_const(loc + (f['n'],), ir.const_val(f['nsdmi_e']))
            elif not f.get('ref'):
                st.set_unknown(loc + (f['n'],))

    def run_ctor(self, g, loc, args, frame, st, depth=0):
        if depth > 10:
            raise AnalysisBroken('constructor depth at ' + g.short)
        self.calls_interpreted += 1
        fid = frame.fid + '/' + 'ctor:' + (g.tkey or g.m).split('::')[-1]
        nf = Frame(g, fid, loc, frame)
        sts = self.bind_params(g, args, frame, nf, st)
        # inheriting constructor: forwards all parameters to the inherited one
        out_states = []
        for s2 in sts:
            cur = [s2]
            for i in g.inits:
                nxt = []
                for s3 in cur:
                    nxt.extend(self.run_init(g, i, loc, nf, s3, depth))
                cur = nxt
            if g.body is not None:
                fl = self.exec_stmt(g.body, nf, cur)
                cur = fl.normal + [s for s, _ in fl.ret]
            out_states.extend(cur)
        return out_states

    def run_init(self, g, i, loc, nf, st, depth):
        e = i.get('e')
        t = i['t']
        if t == 'base' or t == 'delegating':
            x = e
            while ir.is_expr(x) and x['k'] in ('tmp', 'definit', 'cast'):
                x = x['e']
            if x is None:
                return [st]
            if x['k'] == 'ctor':
                bg = self.F.fn(x['fn']) if x.get('fn') is not None else None
                if (x.get('copy') or x.get('move')) and (bg is None or bg.d.get('implicit') or bg.d.get('defaulted')) and len(x.get('args', [])) == 1:
                    out = []
                    for s2, v in self.ev(x['args'][0], nf, st):
                        if v[0] in ('o', 'lv'):
                            # copy the base part: all slots (derived slots of the source do not exist under the same names)
                            s2.copy_obj(loc, v[1])
                            self.on_obj_copy(s2, loc, v[1], nf, x)
                        out.append(s2)
                    return out
                if bg is None:
                    self.default_init(st, loc, x.get('cls') or i.get('name', ''))
                    return [st]
                return self.run_ctor(bg, loc, x.get('args', []), nf, st, depth + 1)
            if x['k'] == 'inhctor':
                bg = self.F.fn(x['fn']) if x.get('fn') is not None else None
                if bg is None:
                    return [st]
                # forward own parameters positionally
                fargs = [{'k': 'var', 'n': p['n'], 'id': p['id'], 'vk': 'param', 'pi': j, 'ty': p['ty']} for j, p in enumerate(g.params)]
                return self.run_ctor(bg, loc, fargs, nf, st, depth + 1)
            if x['k'] in ('init', 'zero'):
                self.default_init(st, loc, i.get('name', ''))
                return [st]
            raise AnalysisBroken('base initialiser kind %s in %s' % (x['k'], g.short))
        name = i.get('name')
        floc = loc + (name,)
        # reference member?
        rec = self.F.rec_by_name.get(g.cls) or {}
        fdesc = None
        for f in rec.get('fields', []):
            if f['n'] == name:
                fdesc = f
            if f.get('anon'):
                for m in f.get('members', []):
                    if m['n'] == name:
                        fdesc = m
        if fdesc is not None and fdesc.get('ref'):
            x = e
            while ir.is_expr(x) and x['k'] in ('tmp', 'definit', 'cast'):
                x = x['e']
            if x['k'] == 'init' and len(x.get('es', [])) == 1:
                x = x['es'][0]
            out = []
            for s2, target in self.lv(x, nf, st):
                s2.refs[floc] = target
                out.append(s2)
            return out
        if fdesc is not None and '*' in (fdesc.get('ty') or '') and not fdesc.get('cls'):
            # a pointer member initialised with the address of an object: the same alias as a reference member
            x = e
            while ir.is_expr(x) and x['k'] in ('tmp', 'definit', 'cast'):
                x = x['e']
            if ir.is_expr(x) and x['k'] == 'init' and len(x.get('es', [])) == 1:
                x = x['es'][0]
            while ir.is_expr(x) and x['k'] in ('cast',):
                x = x['e']
            if ir.is_expr(x) and x['k'] == 'un' and x['op'] == '&':
                out = []
                for s2, target in self.lv(x['e'], nf, st):
                    s2.refs[floc] = target
                    out.append(s2)
                return out
        if self.untracked(floc):
            return [st]
        x = e
        while ir.is_expr(x) and x['k'] in ('tmp', 'definit'):
            x = x['e']
        if x is None:
            return [st]
        if x['k'] == 'ctor':
            return self.construct_expr(x, floc, nf, st)
        if x['k'] == 'init' and fdesc is not None and fdesc.get('cls') and not fdesc.get('extent'):
            if len(x.get('es', [])) == 1:
                out = []
                for s2, v in self.ev(x['es'][0], nf, st):
                    if v[0] in ('o', 'lv'):
                        s2.copy_obj(floc, v[1])
                        self.on_obj_copy(s2, floc, v[1], nf, x)
                    out.append(s2)
                return out
            self.default_init(st, floc, fdesc['cls'])
            return [st]
        if fdesc is not None and fdesc.get('extent') is not None:
            st.set_const(floc, 0) if x['k'] in ('init', 'zero') else st.set_unknown(floc)
            return [st]
        out = []
        for s2, v in self.ev(x, nf, st):
            if v[0] in ('o', 'lv') and fdesc is not None and fdesc.get('cls'):
                s2.copy_obj(floc, v[1])
                self.on_obj_copy(s2, floc, v[1], nf, x)
            else:
                s2.set(floc, self.as_scalar(s2, v))
                self.on_write(s2, floc, nf, i)
            out.append(s2)
        return out

    # ---------------------------------------------------------------- statements
    def exec_body(self, g, frame, states):
        if g.body is None:
            return Flow(normal=states)
        return self.exec_stmt(g.body, frame, states)

    def exec_stmt(self, s, frame, states):
        if s is None or not states:
            return Flow(normal=states)
        k = s.get('s')
        if k == 'block':
            fl = Flow(normal=states)
            scope_vars = []
            for c in s['b']:
                if not fl.normal:
                    break
                if c and c.get('s') == 'decl':
                    scope_vars.extend(v for v in c['vars'] if isinstance(v, dict) and v.get('dtor'))
                sub = self.exec_stmt(c, frame, fl.normal)
                fl.normal = sub.normal
                fl.ret += sub.ret
                fl.brk += sub.brk
                fl.cont += sub.cont
            if scope_vars:
                # implicit destructors at every exit of the scope, innermost first
                fl.normal = self.run_dtors(scope_vars, frame, fl.normal)
                fl.brk = self.run_dtors(scope_vars, frame, fl.brk)
                fl.cont = self.run_dtors(scope_vars, frame, fl.cont)
                fl.ret = [(st, v) for (st, v) in self.run_dtors_ret(scope_vars, frame, fl.ret)]
            return fl
        if k == 'decl':
            cur = states
            for v in s['vars']:
                nxt = []
                for st in cur:
                    nxt.extend(self.exec_decl(v, frame, st))
                cur = nxt
            return Flow(normal=cur)
        if k == 'expr':
            out = []
            for st in states:
                out.extend(s2 for s2, _ in self.ev(s['e'], frame, st))
            return Flow(normal=out)
        if k == 'null':
            return Flow(normal=states)
        if k == 'ret':
            rets = []
            for st in states:
                if s.get('e') is None:
                    rets.append((st, None))
                else:
                    rt = frame.fn.d.get('ret', '')
                    if rt.endswith('&'):
                        for s2, loc in self.lv(s['e'], frame, st):
                            rets.append((s2, V_o(loc)))
                    else:
                        for s2, v in self.ev(s['e'], frame, st):
                            if v[0] == 'lv':
                                v = V_s(s2.get(v[1]))
                            elif v[0] == 'o':
                                # returned by value: snapshot into a temporary owned by the caller
                                tl = ('T', frame.fid, 'ret')
                                s2.copy_obj(tl, v[1])
                                v = V_o(tl)
                            rets.append((s2, v))
            return Flow(ret=rets)
        if k == 'if':
            cur = states
            if s.get('init'):
                cur = self.exec_stmt(s['init'], frame, cur).normal
            if s.get('cv'):
                nxt = []
                for st in cur:
                    nxt.extend(self.exec_decl(s['cv'], frame, st))
                cur = nxt
            outcomes = []
            for st in cur:
                outcomes.extend(self.ev(s['c'], frame, st))
            ts, fs = self.branch(outcomes)
            ft = self.exec_stmt(s['t'], frame, ts)
            fe = self.exec_stmt(s.get('e'), frame, fs) if s.get('e') else Flow(normal=fs)
            return Flow(normal=self.merge(ft.normal + fe.normal), ret=ft.ret + fe.ret, brk=ft.brk + fe.brk, cont=ft.cont + fe.cont)
        if k in ('for', 'while'):
            cur = states
            if s.get('init'):
                cur = self.exec_stmt(s['init'], frame, cur).normal
            return self.exec_loop(s, frame, cur)
        if k == 'rfor':
            # iterate an unknown number of times over untracked elements
            return self.exec_loop(s, frame, states, range_for=True)
        if k == 'break':
            return Flow(brk=states)
        if k == 'cont':
            return Flow(cont=states)
        raise AnalysisBroken('statement kind %s in %s' % (k, frame.fn.short))

    def run_dtors(self, vars_, frame, states):
        cur = states
        for v in reversed(vars_):
            d = v['dtor']
            g = self.F.fn(d['fn']) if d.get('fn') is not None else None
            if g is None:
                continue
            b = frame.vars.get(v['id'])
            if b is None:
                continue
            nxt = []
            for st in cur:
                nf = Frame(g, frame.fid + '/~' + v['n'], b[1], frame)
                fl = self.exec_body(g, nf, [st])
                nxt.extend(fl.normal + [s for s, _ in fl.ret])
            cur = nxt
        return cur

    def run_dtors_ret(self, vars_, frame, rets):
        out = []
        for st, v in rets:
            for s2 in self.run_dtors(vars_, frame, [st]):
                out.append((s2, v))
        return out

    def exec_decl(self, v, frame, st):
        if 'unknown_decl' in v:
            raise AnalysisBroken('unknown declaration in ' + frame.fn.short)
        loc = ('F', frame.fid, v['n'])
        init = v.get('init')
        if v.get('ref'):
            if init is None:
                raise AnalysisBroken('reference without initialiser')
            out = []
            for s2, target in self.lv(init, frame, st):
                frame.vars[v['id']] = ('ref', target)
                out.append(s2)
            return out
        frame.vars[v['id']] = ('loc', loc)
        if self.untracked_type(v.get('ty', '')):
            return [st]
        st.drop_prefix(loc)
        if init is None:
            st.set_unknown(loc)
            return [st]
        x = init
        while ir.is_expr(x) and x['k'] in ('tmp', 'definit'):
            x = x['e']
        if x['k'] == 'ctor':
            return self.construct_expr(x, loc, frame, st)
        out = []
        for s2, val in self.ev(init, frame, st):
            if val[0] == 'fn':
                frame.vars[v['id']] = ('fnval', val[1])
                out.append(s2)
                continue
            if val[0] in ('o', 'lv') and v.get('cls'):
                s2.copy_obj(loc, val[1])
                self.on_obj_copy(s2, loc, val[1], frame, init)
            else:
                s2.set(loc, self.as_scalar(s2, val))
            out.append(s2)
        return out

    def untracked_type(self, ty):
        return False

    def exec_loop(self, s, frame, entry, range_for=False):
        head = self.merge(entry)
        brk_all = []
        ret_all = []
        exit_states = []
        for it in range(MAX_ITER):
            if range_for:
                ts = [st.copy() for st in head]
                fs = [st.copy() for st in head]
                if s.get('var'):
                    v = s['var']
                    loc = ('F', frame.fid, v['n'])
                    for st in ts:
                        if v.get('ref'):
                            frame.vars[v['id']] = ('ref', ('U', 'elem', frame.fid, v['n']))
                        else:
                            frame.vars[v['id']] = ('loc', loc)
                            st.set_unknown(loc)
            else:
                outcomes = []
                if s.get('c') is not None:
                    for st in head:
                        outcomes.extend(self.ev(s['c'], frame, st.copy()))
                    ts, fs = self.branch(outcomes)
                else:
                    ts, fs = [st.copy() for st in head], []
            body = self.exec_stmt(s.get('body'), frame, ts)
            after = body.normal + body.cont
            if s.get('inc') is not None:
                nxt = []
                for st in after:
                    nxt.extend(s2 for s2, _ in self.ev(s['inc'], frame, st))
                after = nxt
            new_head = self.merge([st.copy() for st in entry] + after)
            exit_states = fs
            brk_all = body.brk
            ret_all = body.ret
            if self.same_sets(new_head, head):
                break
            head = new_head
        else:
            raise AnalysisBroken('loop fixpoint not reached in ' + frame.fn.short)
        return Flow(normal=self.merge(exit_states + brk_all), ret=ret_all)

    # ---------------------------------------------------------------- entry
    def run_entry(self, fn, this_loc, st, arg_locs=None):
        """interpret fn as an API entry point; returns list of (state, value) at return"""
        frame = Frame(fn, fn.m, this_loc, None)
        for i, p in enumerate(fn.params):
            loc = ('A', fn.m, p['n'] or 'p%d' % i)
            if p.get('ref'):
                frame.vars[p['id']] = ('ref', loc)
            else:
                frame.vars[p['id']] = ('loc', loc)
        if fn.kind == 'ctor':
            sts = [st]
            cur = sts
            for i in fn.inits:
                nxt = []
                for s3 in cur:
                    nxt.extend(self.run_init(fn, i, this_loc, frame, s3, 0))
                cur = nxt
            fl = self.exec_stmt(fn.body, frame, cur) if fn.body is not None else Flow(normal=cur)
        else:
            fl = self.exec_body(fn, frame, [st])
        return [(s, v) for s, v in fl.ret] + [(s, None) for s in fl.normal]
