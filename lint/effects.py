"""Resolved call graph and transitive effect (write) sets with access paths re-rooted at call sites.

Access paths are tuples. Roots:
  'core'        the instance's CoreT (reached through R_::_core or any control's `_core` reference -- that every such
                reference is bound to the instance's own core is rule C06.b)
  'this'        the object the analysed member function is called on
  'param:<i>'   a reference/pointer parameter
  'local:<n>'   a local object of the analysed function
  'plan'        a short-lived PlanT/CPlanT handle (its members are references into core.planData)
  'global:<n>'  namespace-scope / static data
  '?'           an lvalue the analysis cannot name (reported by the rules that care)
A trailing '*' means "the whole object below this path".
"""
from . import ir
from .common import AnalysisBroken

# reference members are canonicalised by the type they refer to (one such object per instance)
TYPE_CANON = [
    ('ffsm2::detail::CoreT<', ('core',)),
    ('ffsm2::detail::PlanDataT<', ('core', 'planData')),
    ('ffsm2::detail::Registry', ('core', 'registry')),
    ('ffsm2::detail::Bounds', ('core', 'planData', 'tasksBounds')),
]


def canon_by_type(ty):
    t = ty.replace('const ', '').strip()
    for pre, path in TYPE_CANON:
        if t.startswith(pre):
            return path
    return None


def is_user(e):
    """call into user (witness) code"""
    if not e.get('ext'):
        return False
    d = e.get('defloc', '')
    return '/witness/' in d or '/.build/' in d or d.startswith('witness/')


class Effects:
    def __init__(self, F):
        self.F = F
        self._summary = {}
        self._decls = {}
        self._callees = {}
        self._callstar = {}
        self._callers = None
        self._fnptr = None

    # ------------------------------------------------------------------ call graph
    def call_sites(self, fn):
        """[(expr, callee Fn or None)] for every call/ctor/inhctor expression in fn (initialisers included),
        plus implicit destructor calls of scoped locals."""
        r = self._callees.get(fn.id)
        if r is not None:
            return r
        out = []
        for e in ir.all_exprs(fn):
            if e['k'] in ('call', 'ctor', 'inhctor'):
                g = self.F.fn(e['fn']) if e.get('fn') is not None else None
                out.append((e, g))
        for s in ir.walk_stmts(fn.body):
            vs = []
            if s.get('s') == 'decl':
                vs = s['vars']
            elif s.get('s') in ('if', 'for') and s.get('cv'):
                vs = [s['cv']]
            elif s.get('s') == 'rfor' and s.get('var'):
                vs = [s['var']]
            for v in vs:
                if isinstance(v, dict) and v.get('dtor'):
                    d = v['dtor']
                    g = self.F.fn(d['fn']) if d.get('fn') is not None else None
                    out.append(({'k': 'call', 'fn': d.get('fn'), 'm': d.get('m'), 'name': d.get('name'),
                                 'obj': {'k': 'var', 'n': v['n'], 'id': v['id'], 'vk': 'local', 'ty': v['ty']},
                                 'args': [], 'l': v.get('l'), 'implicit_dtor': True}, g))
        self._callees[fn.id] = out
        return out

    def fnptr_args(self):
        """(callee id, parameter index) -> list of fnref nodes passed there by any call site of the unit"""
        if self._fnptr is None:
            self._fnptr = {}
            for f in self.F.fns:
                for x in ir.all_exprs(f):
                    if x['k'] in ('call', 'ctor') and x.get('fn') is not None:
                        for i, a in enumerate(x.get('args', [])):
                            y = ir.strip(a)
                            while y['k'] == 'cast':
                                y = ir.strip(y['e'])
                            if y['k'] == 'un' and y['op'] == '&':
                                y = ir.strip(y['e'])
                            if y['k'] == 'fnref':
                                self._fnptr.setdefault((x['fn'], i), []).append(y)
        return self._fnptr

    def resolve_pm_all(self, fn, e):
        """all possible callees of a member-pointer call: a local initialised from &Class::member, or a parameter that
        receives &Class::member at the call sites of fn (context-insensitive)."""
        pm = e.get('pm')
        if not pm:
            return []
        p = ir.strip(pm['ptr'])
        if p['k'] == 'var' and p.get('vk') == 'param':
            return list(self.fnptr_args().get((fn.id, p.get('pi')), []))
        r = self.resolve_pm(fn, e)
        return [r] if r is not None else []

    def resolve_pm(self, fn, e):
        """callee of (this->*method)(...) where `method` is a local initialised from &Class::member (or a parameter with a
        single possible target)."""
        pm = e.get('pm')
        if not pm:
            return None
        p = ir.strip(pm['ptr'])
        if p['k'] == 'var' and p.get('vk') == 'param':
            cands = self.fnptr_args().get((fn.id, p.get('pi')), [])
            ids = set(c.get('fn') for c in cands)
            return cands[0] if len(ids) == 1 else None
        if p['k'] == 'var':
            d = self.decls(fn).get(p['id'])
            if d is not None and d.get('init') is not None:
                p = ir.strip(d['init'])
        while p['k'] == 'cast':
            p = ir.strip(p['e'])
        if p['k'] == 'un' and p['op'] == '&':
            p = ir.strip(p['e'])
        if p['k'] == 'fnref':
            return p
        return None

    def callees(self, fn):
        """set of Fn directly called (bodies available)."""
        out = []
        for e, g in self.call_sites(fn):
            if g is not None:
                out.append(g)
            elif e.get('pm'):
                for r in self.resolve_pm_all(fn, e):
                    if r.get('fn') is not None:
                        g2 = self.F.fn(r['fn'])
                        if g2 is not None:
                            out.append(g2)
        return out

    def user_calls(self, fn):
        """[(expr-like dict with m/name/cls)] calls from fn into user code."""
        out = []
        for e, g in self.call_sites(fn):
            if g is None and e.get('pm'):
                r = self.resolve_pm(fn, e)
                if r is not None and is_user(r):
                    out.append(dict(r, args=e.get('args', []), l=e.get('l'), via_pm=True))
                elif r is None:
                    out.append({'m': '?', 'unresolved_pm': True, 'l': e.get('l')})
            elif g is None and is_user(e):
                out.append(e)
        return out

    def calls_star(self, fn):
        r = self._callstar.get(fn.id)
        if r is not None:
            return r
        seen = {}
        st = [fn]
        while st:
            x = st.pop()
            for g in self.callees(x):
                if g.id not in seen:
                    seen[g.id] = g
                    st.append(g)
        self._callstar[fn.id] = seen
        return seen

    def reaches_user(self, fn, pred=None):
        """user calls reachable from fn: [(via Fn, call expr)]"""
        out = []
        for g in [fn] + list(self.calls_star(fn).values()):
            for u in self.user_calls(g):
                if pred is None or pred(u):
                    out.append((g, u))
        return out

    def callers(self):
        if self._callers is None:
            self._callers = {}
            for fn in self.F.fns:
                for g in self.callees(fn):
                    self._callers.setdefault(g.id, set()).add(fn.id)
        return self._callers

    def path_to(self, fn, pred, limit=12):
        """a call chain [fn.short, ..., g.short] to the first callee satisfying pred, or None."""
        seen = set()

        def rec(x, depth):
            if x.id in seen or depth > limit:
                return None
            seen.add(x.id)
            for g in self.callees(x):
                if pred(g):
                    return [x.short, g.short]
                r = rec(g, depth + 1)
                if r:
                    return [x.short] + r
            return None
        return rec(fn, 0)

    # ------------------------------------------------------------------ declarations
    def decls(self, fn):
        d = self._decls.get(fn.id)
        if d is None:
            d = {}
            for s in ir.walk_stmts(fn.body):
                k = s.get('s')
                if k == 'decl':
                    for v in s['vars']:
                        if 'id' in v:
                            d[v['id']] = v
                elif k in ('if', 'for') and s.get('cv'):
                    d[s['cv']['id']] = s['cv']
                elif k == 'rfor' and s.get('var'):
                    v = dict(s['var'])
                    v['_range'] = s.get('range')
                    d[v['id']] = v
            self._decls[fn.id] = d
        return d

    # ------------------------------------------------------------------ lvalue paths
    def lv(self, e, fn, depth=0):
        """set of access paths the lvalue / object expression e may denote, in fn's own roots."""
        if e is None or not ir.is_expr(e):
            return {('?',)}
        if depth > 10:
            return {('?',)}
        k = e['k']
        if k in ('tmp', 'definit'):
            return self.lv(e['e'], fn, depth)
        if k == 'cast':
            return self.lv(e['e'], fn, depth)
        if k == 'this':
            return {('this',)}
        if k == 'mem':
            c = canon_by_type(e.get('ty', '')) if e.get('ref') else None
            if c is None and e.get('ty', '').replace('const ', '').startswith('ffsm2::detail::CoreT<'):
                c = ('core',)
            if c is not None:
                return {c}
            return {p + (e['f'],) for p in self.lv(e['b'], fn, depth)}
        if k == 'var':
            vk = e.get('vk')
            if vk == 'param':
                c = canon_by_type(e.get('ty', ''))
                if c is not None:
                    return {c}
                return {('param:%d' % e.get('pi', -1),)}
            if vk in ('global', 'static_member', 'static_local'):
                return {('global:' + (e.get('qn') or e['n']),)}
            d = self.decls(fn).get(e['id'])
            if d is not None and d.get('ref'):
                if d.get('_range') is not None:
                    return {p + ('[]',) for p in self.lv(d['_range'], fn, depth + 1)}
                c = canon_by_type(d.get('ty', ''))
                if c is not None:
                    return {c}
                if d.get('init') is not None:
                    return self.lv(d['init'], fn, depth + 1)
            if d is not None and ('ffsm2::detail::PlanT<' in d.get('ty', '') or 'ffsm2::detail::PayloadPlanT<' in d.get('ty', '')
                                  or 'ffsm2::detail::CPlanT<' in d.get('ty', '')) and '::Iterator' not in d.get('ty', '') \
                    and '::CIterator' not in d.get('ty', ''):
                return {('plan',)}
            return {('local:' + e['n'],)}
        if k == 'idx':
            return {p + ('[]',) for p in self.lv(e['b'], fn, depth)}
        if k == 'un' and e['op'] in ('*', '&'):
            return self.lv(e['e'], fn, depth)
        if k == 'un' and e['op'] in ('++', '--'):
            return self.lv(e['e'], fn, depth)
        if k == 'asg':
            return self.lv(e['l'], fn, depth)
        if k == 'cond':
            return self.lv(e['t'], fn, depth) | self.lv(e['f'], fn, depth)
        if k == 'call':
            g = self.F.fn(e['fn']) if e.get('fn') is not None else None
            if g is None:
                return {('?',)}
            rets = self.summary(g)['returns']
            out = set()
            for p in rets:
                out |= self.reroot(p, e, fn, depth)
            return out or {('?',)}
        if k == 'ctor':
            ty = e.get('ty', '')
            if 'ffsm2::detail::PlanT<' in ty or 'ffsm2::detail::PayloadPlanT<' in ty or 'ffsm2::detail::CPlanT<' in ty:
                return {('plan',)}
            return {('temp',)}
        if k in ('c', 'zero', 'null', 'init', 'new'):
            return {('temp',)}
        return {('?',)}

    def reroot(self, path, call, fn, depth=0):
        """translate a callee-rooted path to the caller's roots at this call expression."""
        root = path[0]
        if root in ('core', 'plan', '?') or root.startswith('global:'):
            return {path}
        if root == 'this':
            if ir.is_expr(call.get('obj')):
                base = self.lv(call['obj'], fn, depth + 1)
            elif call['k'] in ('ctor',):
                base = {('temp',)}
            else:
                base = {('this',)}      # implicit this (static helpers called unqualified)
            return {b + path[1:] for b in base}
        if root.startswith('param:'):
            i = int(root.split(':')[1])
            args = call.get('args', [])
            if i < len(args):
                base = self.lv(args[i], fn, depth + 1)
                return {b + path[1:] for b in base}
            return {('?',)}
        if root in ('temp',) or root.startswith('local:'):
            return {('temp',) + path[1:]}
        return {path}

    # ------------------------------------------------------------------ summaries
    def summary(self, fn):
        """{'writes': set(paths), 'returns': set(paths)} in fn's roots; locals/temps of fn are dropped from writes."""
        s = self._summary.get(fn.id)
        if s is not None:
            return s
        s = {'writes': set(), 'returns': set(), 'user': set()}
        self._summary[fn.id] = s     # break (impossible) recursion
        writes = set()
        # direct writes
        for e in ir.all_exprs(fn):
            k = e['k']
            if k == 'asg':
                for p in self.lv(e['l'], fn):
                    writes.add(p)
            elif k == 'un' and e['op'] in ('++', '--'):
                for p in self.lv(e['e'], fn):
                    writes.add(p)
            elif k == 'new':
                for a in e.get('place', []):
                    for p in self.lv(a, fn):
                        writes.add(p + ('*',))
        # constructor initialisers write this.<member>
        if fn.kind == 'ctor':
            for i in fn.inits:
                if i['t'] in ('member', 'indirect'):
                    writes.add(('this', i.get('name')))
        # calls
        for e, g in self.call_sites(fn):
            if g is None and e.get('pm'):
                targets = self.resolve_pm_all(fn, e)
                handled = False
                for r in targets:
                    if r.get('fn') is not None and self.F.fn(r['fn']) is not None:
                        g2 = self.F.fn(r['fn'])
                        e2 = dict(e, obj=e['pm']['obj'])
                        gs = self.summary(g2)
                        for p in gs['writes']:
                            writes |= self.reroot(p, e2, fn)
                        s['user'] |= gs['user']
                        handled = True
                    elif is_user(r):
                        s['user'].add(self.user_tag(r, e))
                        handled = True
                if handled or targets:
                    continue
                r = None
            if g is not None:
                gs = self.summary(g)
                for p in gs['writes']:
                    writes |= self.reroot(p, e, fn)
                s['user'] |= gs['user']
                continue
            # no body
            m = e.get('m') or ''
            info = self.F.info(e['fn']) if e.get('fn') is not None else None
            if is_user(e):
                s['user'].add(self.user_tag(e, e))
                continue
            if e['k'] == 'call' and (e.get('op') == '=' or m == 'operator='):
                if ir.is_expr(e.get('obj')):
                    for p in self.lv(e['obj'], fn):
                        writes.add(p + ('*',))
                continue
            if m == 'memset' or m == '__builtin_memset':
                for p in self.lv(e['args'][0], fn) if e.get('args') else ():
                    writes.add(p + ('*',))
                continue
            # trivial constructors / destructors / other externals: no effect on named state
        # returns
        for st in ir.walk_stmts(fn.body):
            if st.get('s') == 'ret' and st.get('e') is not None:
                # the path of the returned expression (for by-value accessors: the slot that is read)
                s['returns'] |= self.lv(st['e'], fn)
        s['writes'] = {p for p in writes if not (p[0].startswith('local:') or p[0] == 'temp')}
        s['local_writes'] = {p for p in writes if p[0].startswith('local:')}
        return s

    def user_tag(self, callee, call):
        m = callee.get('m') or '?'
        ctl = ''
        for a in call.get('args', []) or []:
            pass
        return m

    def writes_star(self, fn):
        return self.summary(fn)['writes']

    def writes_with_locals(self, fn):
        s = self.summary(fn)
        return s['writes'] | s.get('local_writes', set())


def covers(write_path, target):
    """does a write to write_path (possibly ending in '*') affect target?"""
    w = write_path
    if w and w[-1] == '*':
        w = w[:-1]
        return target[:len(w)] == w
    # a write to a prefix object through '[]' etc. is only the exact path
    return w == target[:len(w)] and len(w) <= len(target) and (len(w) == len(target))


def touches(write_path, prefix):
    """write_path is at or below prefix, or a whole-object write of an ancestor of prefix."""
    w = write_path
    if w and w[-1] == '*':
        w = w[:-1]
        return w == prefix[:len(w)] or w[:len(prefix)] == prefix
    return w[:len(prefix)] == prefix


class MustWrites:
    """paths that are definitely written (at least once) on every path from a start node to the function's exit;
    calls contribute the must-writes of their callee (from its entry), re-rooted at the call site."""

    def __init__(self, E):
        self.E = E
        self.F = E.F
        self._fn = {}

    def of_function(self, fn, depth=0):
        r = self._fn.get(fn.id)
        if r is not None:
            return r
        self._fn[fn.id] = set()
        from . import cfg as cfgmod
        c = cfgmod.cfg_of(fn)
        r = self.after(fn, c, c.entry, depth)
        if fn.kind == 'ctor':
            r = set(r) | {('this', i.get('name')) for i in fn.inits if i['t'] in ('member', 'indirect')}
        self._fn[fn.id] = r
        return r

    def gen(self, fn, n, depth):
        E = self.E
        out = set()
        if n.kind == 'write' and ir.is_expr(n.e):
            tgt = n.e['l'] if n.e['k'] == 'asg' else n.e.get('e')
            ps = E.lv(tgt, fn)
            if len(ps) == 1:
                out |= ps
        elif n.kind == 'new' and ir.is_expr(n.e) and len(n.e.get('place') or []) == 1 and depth < 10:
            # placement new: the object constructed in place gets every member its constructor definitely writes
            tgt = ir.strip(n.e['place'][0])
            if tgt['k'] == 'un' and tgt['op'] == '&':
                tgt = tgt['e']
            ps = E.lv(tgt, fn)
            init = ir.strip(n.e['init']) if ir.is_expr(n.e.get('init')) else None
            g = self.F.fn(init['fn']) if init is not None and init.get('k') == 'ctor' and init.get('fn') is not None else None
            if len(ps) == 1:
                base = next(iter(ps))
                if g is not None:
                    for p_ in self.of_function(g, depth + 1):
                        if p_[0] == 'this':
                            out.add(base + p_[1:])
                else:
                    out.add(base + ('*',))
        elif n.kind in ('call', 'ctor', 'dtor') and depth < 10:
            e = n.e if n.kind != 'dtor' else None
            if n.kind == 'dtor':
                d = n.extra or {}
                g = self.F.fn(d['fn']) if d.get('fn') is not None else None
                if g is not None:
                    e = {'k': 'call', 'obj': {'k': 'var', 'n': n.e['n'], 'id': n.e['id'], 'vk': 'local', 'ty': n.e.get('ty', '')}, 'args': []}
                    for p in self.of_function(g, depth + 1):
                        out |= E.reroot(p, e, fn)
                return out
            g = self.F.fn(e['fn']) if e.get('fn') is not None else None
            if g is not None:
                for p in self.of_function(g, depth + 1):
                    rr = E.reroot(p, e, fn)
                    if len(rr) == 1:
                        out |= rr
            elif (e.get('op') == '=' or e.get('m') == 'operator=') and ir.is_expr(e.get('obj')):
                ps = E.lv(e['obj'], fn)
                if len(ps) == 1:
                    out |= {p + ('*',) for p in ps}
        return out

    def _full_loops(self, fn, c):
        """{id of the condition branch: (loop head, successor inside the loop, successor outside)} for loops that certainly run at
        least once and over their whole range: a range-for over a fixed array with at least one element"""
        out = {}
        for h in c.events(('loophead',)):
            st = h.e if isinstance(h.e, dict) else None
            if not st:
                continue
            if st.get('s') == 'rfor':
                if not st.get('extent') or st['extent'] < 1:
                    continue
            elif st.get('s') in ('for', 'while'):
                # a counted loop over a constant, non-empty range with no early exit runs its body (at least once, for every index)
                from . import loops as _loops
                b = _loops.bounded(fn, st)
                if not b or b['problems'] or b['extra_conds'] or b['per_iteration'] != 1 or b['start'] is None or b['bound_val'] is None:
                    continue
                if not ((b['bound_op'] == '<' and b['bound_val'] > b['start']) or (b['bound_op'] == '<=' and b['bound_val'] >= b['start']) or
                        (b['bound_op'] == '!=' and b['bound_val'] > b['start'])):
                    continue
                if _loops.has_jump(_loops.classify(st) if st.get('s') == 'for' else type('L', (), {'body': st.get('body')})()):
                    continue
            else:
                continue
            x = h.succ[0][0] if h.succ else None
            hops = 0
            while x is not None and x.kind != 'branch' and x.succ and hops < 6:
                x = x.succ[0][0]
                hops += 1
            if x is None or x.kind != 'branch':
                continue
            body = c.loop_body(h)
            inside = [s2 for s2, lab in x.succ if lab == 'T']
            outside = [s2 for s2, lab in x.succ if lab == 'F']
            if len(inside) == 1 and len(outside) == 1:
                out[x.id] = (h, inside[0], outside[0])
        return out

    def _solve(self, fn, c, nodes, gens, fixed, full):
        TOP = None
        mw = {n.id: TOP for n in nodes}
        mw.update(fixed)
        changed = True
        it = 0
        ids = set(n.id for n in nodes)
        while changed and it < 100:
            changed = False
            it += 1
            for n in reversed(nodes):
                if n.id in fixed:
                    continue
                if n.id in full:
                    # the loop body runs (at least once, over every element), then the code after the loop
                    h, inside, outside = full[n.id]
                    vals = [full['body', n.id]] if ('body', n.id) in full else []
                    o = mw.get(outside.id) if outside.id in ids else set()
                    if o is TOP:
                        continue
                    new = gens[n.id] | (vals[0] if vals else set()) | set(o or ())
                else:
                    succs = [s2 for s2, lab in n.succ if s2.id in ids]
                    vals = [mw[s2.id] for s2 in succs if mw[s2.id] is not TOP]
                    if not vals:
                        continue
                    inter = set(vals[0])
                    for v in vals[1:]:
                        inter &= v
                    new = gens[n.id] | inter
                if mw[n.id] is TOP or new != mw[n.id]:
                    mw[n.id] = new
                    changed = True
        return mw

    def after(self, fn, c, start, depth=0):
        """must-write set on every path start -> exit (start's own effect included)"""
        reach = set()
        st = [start]
        while st:
            x = st.pop()
            if x.id in reach:
                continue
            reach.add(x.id)
            for s, _ in x.succ:
                st.append(s)
        nodes = [n for n in c.nodes if n.id in reach]
        gens = {n.id: self.gen(fn, n, depth) for n in nodes}
        full = {}
        for bid, (h, inside, outside) in self._full_loops(fn, c).items():
            if bid not in reach:
                continue
            body_ids = c.loop_body(h)
            bnodes = [n for n in nodes if n.id in body_ids]
            # one iteration: from the first node inside to the loop head (treated as the end of the iteration)
            sub = self._solve(fn, c, bnodes, gens, {h.id: set()}, {})
            full[bid] = (h, inside, outside)
            full['body', bid] = set(sub.get(inside.id) or ())
        mw = self._solve(fn, c, nodes, gens, {c.exit.id: set()}, full)
        return mw.get(start.id) or set()
