"""Helpers over the JSON expression / statement trees written by ffsm2-facts."""
from .common import AnalysisBroken

EXPR_CHILD_KEYS = ('e', 'b', 'l', 'r', 'c', 't', 'f', 'i', 'obj', 'init', 'src', 'indirect', 'filler')
EXPR_LIST_KEYS = ('args', 'es', 'place')


def is_expr(x):
    return isinstance(x, dict) and 'k' in x


def children(e):
    """direct sub-expressions of expression e, in evaluation order (object, then arguments)."""
    k = e['k']
    if k == 'call':
        if e.get('pm'):
            yield e['pm']['obj']
            yield e['pm']['ptr']
        if is_expr(e.get('obj')):
            yield e['obj']
        if is_expr(e.get('indirect')):
            yield e['indirect']
        for a in e.get('args', []):
            if is_expr(a):
                yield a
        return
    if k == 'asg':
        # right operand first is the C++17 order for built-in assignment; either is fine for our rules
        if is_expr(e.get('r')):
            yield e['r']
        if is_expr(e.get('l')):
            yield e['l']
        return
    for key in EXPR_CHILD_KEYS:
        v = e.get(key)
        if is_expr(v):
            yield v
    for key in EXPR_LIST_KEYS:
        for a in e.get(key, []) or []:
            if is_expr(a):
                yield a


def walk(e):
    """pre-order over e and all sub-expressions."""
    if not is_expr(e):
        return
    stack = [e]
    while stack:
        x = stack.pop()
        yield x
        ch = list(children(x))
        stack.extend(reversed(ch))


def stmt_children(s):
    k = s.get('s')
    if k == 'block':
        for c in s['b']:
            if c:
                yield c
    elif k == 'if':
        if s.get('init'):
            yield s['init']
        yield s['t']
        if s.get('e'):
            yield s['e']
    elif k in ('for',):
        if s.get('init'):
            yield s['init']
        if s.get('body'):
            yield s['body']
    elif k in ('rfor', 'while', 'do', 'switch'):
        if s.get('body'):
            yield s['body']
    elif k in ('case', 'default'):
        if s.get('sub'):
            yield s['sub']


def stmt_exprs(s):
    """expressions directly attached to statement s (not those of sub-statements)."""
    k = s.get('s')
    if k == 'decl':
        for v in s['vars']:
            if is_expr(v.get('init')):
                yield v['init']
    elif k == 'if':
        if s.get('cv') and is_expr(s['cv'].get('init')):
            yield s['cv']['init']
        if is_expr(s.get('c')):
            yield s['c']
    elif k == 'for':
        if is_expr(s.get('c')):
            yield s['c']
        if is_expr(s.get('inc')):
            yield s['inc']
    elif k == 'rfor':
        if is_expr(s.get('range')):
            yield s['range']
    elif k in ('while', 'do', 'switch'):
        if is_expr(s.get('c')):
            yield s['c']
    elif k in ('ret', 'expr'):
        if is_expr(s.get('e')):
            yield s['e']
    elif k == 'case':
        if is_expr(s.get('v')):
            yield s['v']


def walk_stmts(s):
    if not s:
        return
    stack = [s]
    while stack:
        x = stack.pop()
        yield x
        stack.extend(reversed(list(stmt_children(x))))


def all_exprs(fn):
    """every expression node in a function: initialisers then body."""
    for i in fn.inits:
        for x in walk(i.get('e')):
            yield x
    for s in walk_stmts(fn.body):
        for e in stmt_exprs(s):
            for x in walk(e):
                yield x


def has_unknown(fn):
    if fn.d.get('has_unknown'):
        return True
    for s in walk_stmts(fn.body):
        if s.get('s') == 'unknown':
            return True
    return False


def strip(e):
    """remove value-preserving wrappers (temporaries, default-init markers, non-reinterpreting casts)."""
    while is_expr(e):
        k = e['k']
        if k in ('tmp', 'definit'):
            e = e['e']
        elif k == 'cast' and e.get('ck') == 'implicit':
            e = e['e']
        elif k == 'cast' and e.get('ck') in ('static', 'functional', 'cstyle', 'const') and \
                e.get('kind') not in ('BitCast', 'LValueBitCast', 'ReinterpretMemberPointer', 'BaseToDerived',
                                      'IntegralToPointer', 'PointerToIntegral'):
            e = e['e']
        elif k == 'ctor' and (e.get('copy') or e.get('move')) and e.get('elidable') and len(e.get('args', [])) == 1:
            e = e['args'][0]
        else:
            break
    return e


def pp(e, depth=0):
    """compact C-like rendering (for reports and for sibling comparison after normalisation)."""
    if e is None:
        return 'null'
    if not is_expr(e):
        return repr(e)
    if depth > 40:
        return '...'
    k = e['k']
    d = depth + 1
    if k == 'this':
        return 'this'
    if k == 'var':
        return e['n']
    if k == 'mem':
        b = e['b']
        while is_expr(b) and b['k'] == 'cast' and b.get('ck') == 'implicit':
            b = b['e']
        if is_expr(b) and b['k'] == 'this':
            return e['f']
        return pp(b, d) + ('->' if e.get('arrow') else '.') + e['f']
    if k == 'c':
        if e.get('n'):
            return '%s(%s)' % (e['n'], e['v'])
        return str(e['v'])
    if k == 'un':
        if e.get('post'):
            return pp(e['e'], d) + e['op']
        return e['op'] + pp(e['e'], d)
    if k == 'bin':
        return '(%s %s %s)' % (pp(e['l'], d), e['op'], pp(e['r'], d))
    if k == 'asg':
        return '%s %s %s' % (pp(e['l'], d), e['op'], pp(e['r'], d))
    if k == 'cond':
        return '(%s ? %s : %s)' % (pp(e['c'], d), pp(e['t'], d), pp(e['f'], d))
    if k == 'idx':
        return '%s[%s]' % (pp(e['b'], d), pp(e['i'], d))
    if k == 'call':
        args = ', '.join(pp(a, d) for a in e.get('args', []))
        if e.get('pm'):
            return '(%s.*%s)(%s)' % (pp(e['pm']['obj'], d), pp(e['pm']['ptr'], d), args)
        name = e.get('m') or e.get('name') or '?'
        if e.get('op') == '[]' and is_expr(e.get('obj')) and len(e.get('args', [])) == 1:
            return '%s[%s]' % (pp(e['obj'], d), args)
        if e.get('op'):
            name = 'operator' + e['op']
        if is_expr(e.get('obj')):
            o = e['obj']
            while is_expr(o) and o['k'] == 'cast' and o.get('ck') == 'implicit':
                o = o['e']
            if o['k'] == 'this':
                return '%s(%s)' % (name, args)
            return '%s.%s(%s)' % (pp(o, d), name, args)
        return '%s(%s)' % (name, args)
    if k == 'ctor':
        return '%s{%s}' % (short_type(e.get('ty', '?')), ', '.join(pp(a, d) for a in e.get('args', [])))
    if k == 'cast':
        if e.get('ck') == 'implicit':
            return pp(e['e'], d)
        return '%s_cast<%s>(%s)' % (e.get('ck'), short_type(e.get('ty', '?')), pp(e['e'], d))
    if k == 'tmp':
        return pp(e['e'], d)
    if k == 'definit':
        return pp(e['e'], d)
    if k == 'new':
        return 'new(%s) %s{%s}' % (', '.join(pp(a, d) for a in e.get('place', [])), short_type(e.get('ty', '?')),
                                   pp(e.get('init'), d) if e.get('init') else '')
    if k == 'init':
        return '{%s}' % ', '.join(pp(a, d) for a in e.get('es', []))
    if k == 'fnref':
        return '&' + (e.get('m') or '?')
    if k == 'zero':
        return '%s{}' % short_type(e.get('ty', ''))
    if k == 'null':
        return 'nullptr'
    if k == 'typeid':
        return 'typeid(%s)' % short_type(e.get('ty', ''))
    if k == 'inhctor':
        return 'inherited-ctor'
    if k == 'arraycopy':
        return 'arraycopy(%s)' % pp(e.get('src'), d)
    if k == 'memptr':
        return '&' + e.get('n', '?')
    if k == 'str':
        return '"%s"' % e.get('v', '')
    if k == 'delete':
        return 'delete ' + pp(e.get('e'), d)
    return '<%s>' % k


def short_type(t):
    if len(t) > 60:
        i = t.find('<')
        if i > 0:
            return t[:i].replace('ffsm2::detail::', '').replace('ffsm2::', '') + '<...>' + (
                t[t.rfind('>') + 1:] if t.rfind('>') >= 0 else '')
    return t.replace('ffsm2::detail::', '').replace('ffsm2::', '')


def const_val(e):
    e = strip(e)
    if is_expr(e) and e['k'] == 'c':
        return e['v']
    return None


def callee_fn(facts, e):
    if is_expr(e) and e['k'] in ('call', 'ctor', 'inhctor', 'fnref') and e.get('fn') is not None:
        return facts.fn(e['fn'])
    return None


def expand(e, decls, depth=0):
    """substitute the initialisers of const local value variables (single-assignment temporaries) into e."""
    if not is_expr(e) or depth > 20:
        return e
    e = strip(e)
    if not is_expr(e):
        return e
    if e['k'] == 'var' and e.get('vk') == 'local':
        d = decls.get(e['id'])
        if d is not None and d.get('const') and not d.get('ref') and d.get('init') is not None:
            return expand(d['init'], decls, depth + 1)
        if d is not None and d.get('ref') and d.get('ty', '').startswith('const ') and d.get('init') is not None and d.get('_range') is None:
            return expand(d['init'], decls, depth + 1)      # read-only alias
        return e
    out = dict(e)
    for key in EXPR_CHILD_KEYS:
        if is_expr(e.get(key)):
            out[key] = expand(e[key], decls, depth + 1)
    for key in EXPR_LIST_KEYS:
        if e.get(key):
            out[key] = [expand(a, decls, depth + 1) if is_expr(a) else a for a in e[key]]
    return out


def normalize(e):
    """strip value-preserving wrappers everywhere and canonicalise shift/mask forms of div/mod by powers of two."""
    if not is_expr(e):
        return e
    e = strip(e)
    if not is_expr(e):
        return e
    out = dict(e)
    for key in EXPR_CHILD_KEYS:
        if is_expr(e.get(key)):
            out[key] = normalize(e[key])
    for key in EXPR_LIST_KEYS:
        if e.get(key):
            out[key] = [normalize(a) if is_expr(a) else a for a in e[key]]
    if out['k'] == 'bin':
        r = out.get('r')
        if out['op'] == '>>' and is_expr(r) and r['k'] == 'c' and 0 <= r['v'] < 31:
            out = dict(out, op='/', r={'k': 'c', 'v': 1 << r['v']})
        elif out['op'] == '&' and is_expr(r) and r['k'] == 'c' and r['v'] > 0 and (r['v'] & (r['v'] + 1)) == 0:
            out = dict(out, op='%', r={'k': 'c', 'v': r['v'] + 1})
    if out['k'] == 'c':
        out = {'k': 'c', 'v': out['v']}
    return out


NEG_OP = {'==': '!=', '!=': '==', '<': '>=', '>=': '<', '>': '<=', '<=': '>'}
SWAP_OP = {'==': '==', '!=': '!=', '<': '>', '>': '<', '<=': '>=', '>=': '<='}


def decision_alias_trees(e, lab):
    """every spelling of one branch decision as (condition tree, 'T'/'F'): `a == b` taken == `a != b` not taken ==
    `b == a` taken == `!(a == b)` not taken ... Rules that key on a decision look it up through these aliases so that a branch
    written with the negated condition and swapped arms is the same decision."""
    flip = {'T': 'F', 'F': 'T'}
    e = normalize(e)
    if lab not in flip:
        return [(e, lab)]
    out = [(e, lab)]
    while e['k'] == 'un' and e['op'] == '!':
        e = normalize(e['e'])
        lab = flip[lab]
        out.append((e, lab))
    out.append(({'k': 'un', 'op': '!', 'e': e}, flip[lab]))
    if e['k'] == 'bin' and e['op'] in NEG_OP:
        for op, l2 in ((e['op'], lab), (NEG_OP[e['op']], flip[lab])):
            out.append((dict(e, op=op), l2))
            out.append((dict(e, op=SWAP_OP[op], l=e['r'], r=e['l']), l2))
    return out


def decision_aliases(e, lab):
    return [(pp(t), l) for t, l in decision_alias_trees(e, lab)]


def find_decisions(c, pred):
    """branch nodes of CFG `c` that decide a condition for which pred(tree) holds in *some* spelling; returns
    [(node, successor on which that condition is true, successor on which it is false)]."""
    out = []
    for b in c.events(('branch',)):
        if b.e is None:
            continue
        for t, lab in decision_alias_trees(b.e, 'T'):
            if pred(t):
                tt = [s for s, l in b.succ if l == lab]
                ff = [s for s, l in b.succ if l in ('T', 'F') and l != lab]
                if tt and ff:
                    out.append((b, tt[0], ff[0]))
                break
    return out


def npp(e, decls=None):
    """normalised pretty form (for sibling comparison)."""
    if decls is not None:
        e = expand(e, decls)
    return pp(normalize(e))


def pp_stmt(s, erase=None, indent=0):
    """compact rendering of a statement tree; statements for which erase(s) is true are dropped."""
    if s is None:
        return ''
    if erase is not None and erase(s):
        return ''
    pad = ' ' * indent
    k = s.get('s')
    if k == 'block':
        inner = [pp_stmt(c, erase, indent + 1) for c in s['b']]
        inner = [x for x in inner if x]
        return pad + '{\n' + '\n'.join(inner) + '\n' + pad + '}'
    if k == 'decl':
        out = []
        for v in s['vars']:
            if 'unknown_decl' in v:
                out.append(pad + '<unknown decl>')
            else:
                out.append(pad + '%s %s = %s;' % (short_type(v.get('ty', '')), v['n'], pp(v.get('init')) if v.get('init') is not None else '<none>'))
        return '\n'.join(out)
    if k == 'expr':
        return pad + pp(s['e']) + ';'
    if k == 'null':
        return ''
    if k == 'ret':
        return pad + 'return %s;' % (pp(s['e']) if s.get('e') is not None else '')
    if k == 'if':
        cv = ''
        if s.get('cv'):
            cv = '%s %s = %s; ' % (short_type(s['cv'].get('ty', '')), s['cv']['n'], pp(s['cv'].get('init')))
        t = pp_stmt(s['t'], erase, indent + 1)
        e = pp_stmt(s.get('e'), erase, indent + 1) if s.get('e') else ''
        r = pad + 'if (%s%s)\n%s' % (cv, pp(s['c']), t or (pad + ' ;'))
        if e:
            r += '\n' + pad + 'else\n' + e
        return r
    if k == 'for':
        return pad + 'for (%s; %s; %s)\n%s' % (pp_stmt(s.get('init'), erase, 0).strip() if s.get('init') else '',
                                               pp(s['c']) if s.get('c') is not None else '', pp(s['inc']) if s.get('inc') is not None else '',
                                               pp_stmt(s.get('body'), erase, indent + 1))
    if k == 'rfor':
        return pad + 'for (%s : %s)\n%s' % (s['var']['n'] if s.get('var') else '?', pp(s.get('range')), pp_stmt(s.get('body'), erase, indent + 1))
    if k in ('while', 'do'):
        return pad + '%s (%s)\n%s' % (k, pp(s['c']), pp_stmt(s.get('body'), erase, indent + 1))
    if k == 'break':
        return pad + 'break;'
    if k == 'cont':
        return pad + 'continue;'
    if k == 'switch':
        return pad + 'switch (%s)\n%s' % (pp(s['c']), pp_stmt(s.get('body'), erase, indent + 1))
    if k == 'case':
        return pad + 'case %s:\n%s' % (pp(s.get('v')), pp_stmt(s.get('sub'), erase, indent + 1))
    if k == 'default':
        return pad + 'default:\n%s' % pp_stmt(s.get('sub'), erase, indent + 1)
    return pad + '<%s>' % k
