"""A deliberately small interval analysis for one variable at a time inside one function (rule G2 and the constant
shift checks of C18.d). It only knows: constants, `x % c`, `x & c`, `c - r`, `min(a, b)`, single-assignment const
locals, refinement by a dominating comparison against a compile-time constant, `++x`, and copies `y = x`.
Anything else is "unknown": the caller gives no verdict there.
"""
from . import ir, cfg as cfgmod

UNKNOWN = None


def rng_of(e, decls, env=None, depth=0):
    """(lo, hi) or None"""
    if not ir.is_expr(e) or depth > 12:
        return None
    e = ir.strip(e)
    k = e['k']
    if k == 'c':
        return (e['v'], e['v'])
    if k == 'var':
        if env is not None and ir.pp(e) in env:
            return env[ir.pp(e)]
        d = decls.get(e['id'])
        if d is not None and d.get('const') and not d.get('ref') and d.get('init') is not None and e.get('vk') == 'local':
            return rng_of(d['init'], decls, env, depth + 1)
        return None
    if k == 'mem':
        if env is not None and ir.pp(e) in env:
            return env[ir.pp(e)]
        return None
    if k == 'bin':
        op = e['op']
        l = rng_of(e['l'], decls, env, depth + 1)
        r = rng_of(e['r'], decls, env, depth + 1)
        if op == '%' and r is not None and r[0] == r[1] and r[0] > 0:
            return (0, r[0] - 1)
        if op == '&' and r is not None and r[0] == r[1] and r[0] >= 0:
            return (0, r[0])
        if op == '&' and l is not None and l[0] == l[1] and l[0] >= 0:
            return (0, l[0])
        if l is None or r is None:
            return None
        if op == '+':
            return (l[0] + r[0], l[1] + r[1])
        if op == '-':
            return (l[0] - r[1], l[1] - r[0])
        if op == '*' and l[0] >= 0 and r[0] >= 0:
            return (l[0] * r[0], l[1] * r[1])
        if op == '/' and r[0] == r[1] and r[0] > 0 and l[0] >= 0:
            return (l[0] // r[0], l[1] // r[0])
        if op == '>>' and r[0] == r[1] and 0 <= r[0] < 64 and l[0] >= 0:
            return (l[0] >> r[0], l[1] >> r[0])
        return None
    if k == 'call' and e.get('m') == 'min' and len(e.get('args', [])) == 2:
        a = rng_of(e['args'][0], decls, env, depth + 1)
        b = rng_of(e['args'][1], decls, env, depth + 1)
        if a is not None and b is not None:
            return (min(a[0], b[0]), min(a[1], b[1]))
        if a is not None:
            return (None, a[1]) if False else None
        return None
    if k == 'call' and e.get('m') == 'max' and len(e.get('args', [])) == 2:
        a = rng_of(e['args'][0], decls, env, depth + 1)
        b = rng_of(e['args'][1], decls, env, depth + 1)
        if a is not None and b is not None:
            return (max(a[0], b[0]), max(a[1], b[1]))
        return None
    if k == 'cond':
        a = rng_of(e['t'], decls, env, depth + 1)
        b = rng_of(e['f'], decls, env, depth + 1)
        if a is not None and b is not None:
            return (min(a[0], b[0]), max(a[1], b[1]))
    return None


def upper_of_min(e, decls, depth=0):
    """upper bound of min(a, b) when only one side is known"""
    e = ir.strip(e)
    if ir.is_expr(e) and e['k'] == 'var' and e.get('vk') == 'local':
        d = decls.get(e['id'])
        if d is not None and d.get('const') and d.get('init') is not None and depth < 6:
            return upper_of_min(d['init'], decls, depth + 1)
    if ir.is_expr(e) and e['k'] == 'call' and e.get('m') == 'min' and len(e.get('args', [])) == 2:
        his = []
        for a in e['args']:
            r = rng_of(a, decls)
            if r is not None:
                his.append(r[1])
        if his:
            return min(his)
    r = rng_of(e, decls)
    return r[1] if r is not None else None


def guarded_subscripts(fn, E):
    """G2. Yields (subscript expr, extent, (lo,hi) or None, guard description) for every member-array subscript in fn.
    The index range is inferred by walking the CFG from the entry with an environment of ranges for scalar paths,
    refined on branch edges `path < K` / `path <= K` / `path != K`..., updated by ++path and path = other."""
    c = cfgmod.cfg_of(fn)
    decls = E.decls(fn)
    results = []
    # forward propagation with join = hull, over an acyclic-or-small graph; iterate to a fixpoint with widening to None
    env_at = {c.entry.id: {}}
    work = [c.entry]
    it = 0
    while work and it < 4000:
        it += 1
        n = work.pop()
        env = dict(env_at.get(n.id, {}))
        # transfer
        if n.kind == 'write' and ir.is_expr(n.e):
            e = n.e
            if e['k'] == 'un' and e['op'] in ('++', '--'):
                key = ir.pp(ir.strip(e['e']))
                r = env.get(key)
                env[key] = None if r is None else ((r[0] + 1, r[1] + 1) if e['op'] == '++' else (r[0] - 1, r[1] - 1))
            elif e['k'] == 'asg':
                key = ir.pp(ir.strip(e['l']))
                if e['op'] == '=':
                    env[key] = rng_of(e['r'], decls, env)
                else:
                    env[key] = None
        elif n.kind == 'call' and ir.is_expr(n.e):
            # calls may change members: forget everything that is not a local
            if n.e.get('m') not in ('min', 'max'):
                for k2 in list(env):
                    if not k2.startswith('local:'):
                        pass
        for s, lab in n.succ:
            env2 = dict(env)
            if n.kind == 'branch' and ir.is_expr(n.e) and lab in ('T', 'F'):
                b = ir.strip(n.e)
                if b['k'] == 'bin' and b['op'] in ('<', '<=', '>', '>=', '==', '!='):
                    l, r = ir.strip(b['l']), ir.strip(b['r'])
                    kv = ir.const_val(r)
                    key = ir.pp(l)
                    op = b['op']
                    if kv is None and ir.const_val(l) is not None:
                        kv = ir.const_val(l)
                        key = ir.pp(r)
                        op = {'<': '>', '>': '<', '<=': '>=', '>=': '<=', '==': '==', '!=': '!='}[op]
                    if kv is not None:
                        if lab == 'F':
                            op = {'<': '>=', '<=': '>', '>': '<=', '>=': '<', '==': '!=', '!=': '=='}[op]
                        old = env2.get(key) or (0, 1 << 62)
                        lo, hi = old
                        if op == '<':
                            hi = min(hi, kv - 1)
                        elif op == '<=':
                            hi = min(hi, kv)
                        elif op == '>':
                            lo = max(lo, kv + 1)
                        elif op == '>=':
                            lo = max(lo, kv)
                        elif op == '==':
                            lo, hi = kv, kv
                        env2[key] = (lo, hi)
            prev = env_at.get(s.id)
            if prev is None:
                env_at[s.id] = env2
                work.append(s)
            else:
                merged = {}
                for k2 in set(prev) & set(env2):
                    a, b2 = prev[k2], env2[k2]
                    if a is None or b2 is None:
                        merged[k2] = None
                    else:
                        merged[k2] = (min(a[0], b2[0]), max(a[1], b2[1]))
                if merged != prev:
                    # widening: anything that keeps growing becomes unknown
                    for k2 in merged:
                        if prev.get(k2) is not None and merged[k2] is not None and merged[k2] != prev[k2] and it > 200:
                            merged[k2] = None
                    env_at[s.id] = merged
                    work.append(s)
    # collect subscripts with the environment at their node
    for n in c.nodes:
        if n.id not in env_at:
            continue
        exprs = []
        if n.kind in ('call', 'ctor', 'write', 'new', 'ret', 'branch', 'decl') and n.e is not None:
            if n.kind == 'decl':
                if ir.is_expr(n.e.get('init')):
                    exprs.append(n.e['init'])
            elif n.kind == 'ret':
                if ir.is_expr(n.e.get('e')):
                    exprs.append(n.e['e'])
            elif ir.is_expr(n.e):
                exprs.append(n.e)
        for e in exprs:
            for x in ir.walk(e):
                if x['k'] == 'idx' and x.get('extent') is not None:
                    r = rng_of(x['i'], decls, env_at[n.id])
                    results.append((x, x['extent'], r, n))
    # de-duplicate by expression identity
    seen = set()
    out = []
    for x, ext, r, n in results:
        if id(x) in seen:
            continue
        seen.add(id(x))
        out.append((x, ext, r, n))
    return out
