"""Bit-provenance abstract interpretation for the small integer kernels of the library (bit streams, bit arrays).

Domain: every integer value is a vector of bits, each bit being 0, 1, a *named input bit* (e.g. bit k of the item being
written, bit k of the buffer's initial contents) or unknown ('?'). Shifts by known amounts, masks, ORs, truncation to the
declared width of the variable that is assigned, and reads / writes of byte arrays are exact in this domain; arithmetic
and comparisons are evaluated only when every bit involved is a constant (loop counters, cursors, widths), otherwise the
result is unknown. There are no path conditions on data: a branch or loop condition must evaluate to a constant, or the
analysis refuses ("analysis broken"). Hence this is constant propagation + a bit-level dataflow, not symbolic execution:
nothing is handed to a solver and no input value is ever chosen.

It is used to decide, for *every* field width and start cursor, that write<N> places exactly the item's N low bits at
[cursor, cursor+N) and changes nothing else, and that read<N> returns exactly those buffer bits (C13.d); and, for every
capacity of the witness family and every index, that BitArrayT's operations refine the set-of-integers model bit by bit
(C20.e).
"""
from . import ir
from .common import AnalysisBroken

W = 64


class Refuse(AnalysisBroken):
    pass


def const_bits(v, width=W):
    v &= (1 << width) - 1
    return tuple((v >> i) & 1 for i in range(width)) + (0,) * (W - width)


def is_const(bits):
    return all(b in (0, 1) for b in bits)


def to_int(bits):
    if not is_const(bits):
        return None
    return sum((1 << i) for i, b in enumerate(bits) if b == 1)


def trunc(bits, width):
    return tuple(bits[:width]) + (0,) * (W - width)


def width_of(ty):
    t = (ty or '').replace('const ', '').replace('&', '').strip()
    if t in ('unsigned char', 'char', 'signed char', 'bool', 'uint8_t'):
        return 8
    if t in ('unsigned short', 'short'):
        return 16
    if t in ('unsigned int', 'int'):
        return 32
    if t in ('unsigned long', 'long', 'unsigned long long', 'long long'):
        return 64
    return None


def b_and(a, b):
    out = []
    for x, y in zip(a, b):
        if x == 0 or y == 0:
            out.append(0)
        elif x == 1:
            out.append(y)
        elif y == 1:
            out.append(x)
        elif x == y:
            out.append(x)
        else:
            out.append(('and',) + tuple(sorted([x, y], key=repr)))
    return tuple(out)


def b_or(a, b):
    out = []
    for x, y in zip(a, b):
        if x == 1 or y == 1:
            out.append(1)
        elif x == 0:
            out.append(y)
        elif y == 0:
            out.append(x)
        elif x == y:
            out.append(x)
        else:
            out.append('?')
    return tuple(out)


def b_not(a):
    out = []
    for x in a:
        if x == 0:
            out.append(1)
        elif x == 1:
            out.append(0)
        elif isinstance(x, tuple) and x[0] == 'not':
            out.append(x[1])
        elif x == '?':
            out.append('?')
        else:
            out.append(('not', x))
    return tuple(out)


def shl(a, n):
    if n >= W:
        return (0,) * W
    return (0,) * n + tuple(a[:W - n])


def shr(a, n):
    if n >= W:
        return (0,) * W
    return tuple(a[n:]) + (0,) * n


UNKNOWN = ('?',) * W


class Interp:
    def __init__(self, F):
        self.F = F
        # optional: decides "is this group of named bits non-zero?" for zero tests of non-constant data (predicate abstraction over
        # "unit is zero"); the caller enumerates the decisions (explore()). Without it such a test is refused.
        self.oracle = None
        self.depth = 0
        self.assumed_zero = set()      # named bits a path has assumed to be 0 (a zero test decided "is zero")

    def nonzero(self, bits, node):
        """truth value of `bits != 0`"""
        c = to_int(bits)
        if c is not None:
            return bool(c)
        if any(b == 1 for b in bits):
            return True
        if self.oracle is None or any(b == '?' for b in bits):
            raise Refuse('zero test of non-constant data: ' + ir.pp(node))
        key = frozenset(b for b in bits if b != 0)
        nz = self.oracle(key)
        if not nz:
            for b in key:
                self.assumed_zero.add(b)
        return nz

    def explore(self, fn, make_state, args=(), limit=4096):
        """run fn once per combination of oracle decisions (depth-first over the decisions actually consulted).
        make_state() -> fresh `this`; returns [(decisions {key: bool}, result bits, this)]"""
        out = []
        pending = [[]]
        while pending:
            prefix = pending.pop()
            taken = []
            decisions = {}

            def oracle(key):
                if key in decisions:
                    return decisions[key]
                i = len(taken)
                if i < len(prefix):
                    d = prefix[i]
                else:
                    d = False
                    pending.append(taken[:] + [True])
                taken.append(d)
                decisions[key] = d
                return d
            self.oracle = oracle
            self.assumed_zero = set()
            try:
                this = make_state()
                res = self.run(fn, this, list(args))
            finally:
                self.oracle = None
            out.append((decisions, res, this, set(self.assumed_zero)))
            if len(out) > limit:
                raise Refuse('more than %d decision paths' % limit)
        return out

    def run(self, fn, this, args):
        """this: dict field name -> value (bits, or dict for nested objects, or list of bits for arrays); args: list of bits.
        returns the returned bits (or None)"""
        env = {}
        for p, a in zip(fn.params, args):
            if isinstance(a, dict):
                env[p['id']] = ['ref', ('obj', a), None]      # an object handed in by reference (another bit array)
                continue
            w = width_of(p['ty']) or W
            env[p['id']] = ['val', trunc(a, w), w]
        try:
            self.stmt(fn.body, fn, this, env, 0)
        except _Ret as r:
            return r.v
        return None

    # ---- lvalues: ('var', id) | ('field', obj dict, name) | ('elem', list, index)
    def lv(self, e, fn, this, env):
        e = ir.strip(e)
        k = e['k']
        if k == 'var':
            b = env.get(e['id'])
            if b is None:
                raise Refuse('unbound variable ' + e['n'])
            if b[0] == 'ref':
                return b[1]
            return ('var', e['id'])
        if k == 'mem':
            base = self.obj(e['b'], fn, this, env)
            if not isinstance(base, dict) or e['f'] not in base:
                raise Refuse('no field %s' % e['f'])
            return ('field', base, e['f'], width_of(e.get('ty')))
        if k == 'idx':
            arr = self.load(self.lv(e['b'], fn, this, env), env)
            i = to_int(self.ev(e['i'], fn, this, env))
            if i is None:
                raise Refuse('array index is not a constant: ' + ir.pp(e))
            if not isinstance(arr, list) or not (0 <= i < len(arr)):
                raise Refuse('index %s out of range in %s' % (i, ir.pp(e)))
            return ('elem', arr, i)
        if k == 'un' and e['op'] == '*':
            try:
                arr, i = self.ptr(e['e'], fn, this, env)
            except Refuse:
                return self.lv(e['e'], fn, this, env)
            if not (0 <= i < len(arr)):
                raise Refuse('index %s out of range in %s' % (i, ir.pp(e)))
            return ('elem', arr, i)
        raise Refuse('lvalue ' + ir.pp(e))

    def ptr(self, e, fn, this, env):
        """value of a pointer expression as (array, index)"""
        e = ir.strip(e)
        k = e['k']
        if k == 'var':
            b = env.get(e['id'])
            if b is not None and b[0] == 'ptr':
                return b[1]
        if k in ('var', 'mem'):
            arr = self.load(self.lv(e, fn, this, env), env)
            if isinstance(arr, list):
                return (arr, 0)          # array-to-pointer decay
        if k == 'cast':
            return self.ptr(e['e'], fn, this, env)
        if k == 'un' and e['op'] == '&':
            l = self.lv(e['e'], fn, this, env)
            if l[0] == 'elem':
                return (l[1], l[2])
        if k == 'un' and e['op'] in ('++', '--'):
            t = ir.strip(e['e'])
            b = env.get(t.get('id')) if t['k'] == 'var' else None
            if b is not None and b[0] == 'ptr':
                old = b[1]
                new = (old[0], old[1] + (1 if e['op'] == '++' else -1))
                b[1] = new
                return old if e.get('post') else new
        if k == 'bin' and e['op'] in ('+', '-'):
            base = self.ptr(e['l'], fn, this, env)
            n = to_int(self.ev(e['r'], fn, this, env))
            if n is not None:
                return (base[0], base[1] + (n if e['op'] == '+' else -n))
        raise Refuse('pointer expression ' + ir.pp(e))

    def obj(self, e, fn, this, env):
        e = ir.strip(e)
        if e['k'] == 'this':
            return this
        if e['k'] == 'un' and e['op'] == '*':
            return self.obj(e['e'], fn, this, env)
        lv = self.lv(e, fn, this, env)
        return self.load(lv, env)

    def load(self, lv, env):
        if lv[0] == 'var':
            if env[lv[1]][0] == 'ptr':
                raise Refuse('pointer used as a value')
            return env[lv[1]][1]
        if lv[0] == 'field':
            return lv[1][lv[2]]
        if lv[0] == 'elem':
            return lv[1][lv[2]]
        if lv[0] == 'obj':
            return lv[1]
        raise Refuse('load')

    def store(self, lv, v, env):
        if lv[0] == 'var':
            w = env[lv[1]][2]
            env[lv[1]][1] = trunc(v, w) if w else v
        elif lv[0] == 'field':
            w = lv[3]
            lv[1][lv[2]] = trunc(v, w) if w else v
        elif lv[0] == 'elem':
            lv[1][lv[2]] = trunc(v, 8)
        else:
            raise Refuse('store')

    # ---- expressions
    def ev(self, e, fn, this, env):
        e0 = e
        e = ir.strip(e)
        k = e['k']
        if k == 'c':
            return const_bits(e['v'])
        if k in ('var', 'mem', 'idx'):
            v = self.load(self.lv(e, fn, this, env), env)
            if isinstance(v, (dict, list)):
                raise Refuse('object used as a value: ' + ir.pp(e))
            return v
        if k == 'cast':
            v = self.ev(e['e'], fn, this, env)
            w = width_of(e.get('ty'))
            return trunc(v, w) if w else v
        if k == 'un':
            if e['op'] == '~':
                return b_not(self.ev(e['e'], fn, this, env))
            if e['op'] == '!':
                cv = self.ev(e['e'], fn, this, env)
                c = to_int(cv)
                if c is None:
                    if self.oracle is None:
                        raise Refuse('! of a non-constant')
                    c = self.nonzero(cv, e)
                return const_bits(0 if c else 1)
            if e['op'] in ('++', '--'):
                lv = self.lv(e['e'], fn, this, env)
                c = to_int(self.load(lv, env))
                if c is None:
                    raise Refuse('++ of a non-constant')
                self.store(lv, const_bits(c + (1 if e['op'] == '++' else -1)), env)
                return const_bits(c if e.get('post') else c + (1 if e['op'] == '++' else -1))
            if e['op'] == '*' and ir.strip(e['e'])['k'] == 'this':
                return None         # `return *this;` of an assignment operator: the object itself, not a bit value
            raise Refuse('unary ' + e['op'])
        if k == 'bin':
            op = e['op']
            if op in ('&&', '||'):
                l = to_int(self.ev(e['l'], fn, this, env))
                if l is None:
                    raise Refuse('non-constant condition ' + ir.pp(e['l']))
                if op == '&&' and not l:
                    return const_bits(0)
                if op == '||' and l:
                    return const_bits(1)
                r = to_int(self.ev(e['r'], fn, this, env))
                if r is None:
                    raise Refuse('non-constant condition ' + ir.pp(e['r']))
                return const_bits(1 if r else 0)
            a = self.ev(e['l'], fn, this, env)
            b = self.ev(e['r'], fn, this, env)
            if op == '&':
                return b_and(a, b)
            if op == '|':
                return b_or(a, b)
            if op in ('<<', '>>'):
                n = to_int(b)
                if n is None:
                    raise Refuse('shift by a non-constant amount: ' + ir.pp(e))
                # the left operand is promoted to int (32 bits) before shifting
                return shl(a, n) if op == '<<' else shr(a, n)
            ia, ib = to_int(a), to_int(b)
            if ia is None and ib == 0 and op in ('!=', '=='):
                # "is this single extracted bit set?": a vector that is zero except for one named bit
                named = [x for x in a if x not in (0,)]
                if len(named) == 1 and named[0] != 1 and named[0] != '?' and self.oracle is None:
                    bit = named[0]
                    return (bit if op == '!=' else b_not((bit,))[0],) + (0,) * (W - 1)
                if self.oracle is not None:
                    nz = self.nonzero(a, e)
                    return const_bits(1 if (nz == (op == '!=')) else 0)
            if ib is None and ia == 0 and op in ('!=', '==') and self.oracle is not None:
                nz = self.nonzero(b, e)
                return const_bits(1 if (nz == (op == '!=')) else 0)
            if ia is None or ib is None:
                if op in ('==', '!=', '<', '<=', '>', '>='):
                    raise Refuse('comparison of non-constant data: ' + ir.pp(e))
                return UNKNOWN
            if op == '+':
                return const_bits(ia + ib)
            if op == '-':
                return const_bits(ia - ib)
            if op == '*':
                return const_bits(ia * ib)
            if op == '/':
                return const_bits(ia // ib) if ib else UNKNOWN
            if op == '%':
                return const_bits(ia % ib) if ib else UNKNOWN
            if op == '^':
                return const_bits(ia ^ ib)
            if op in ('==', '!=', '<', '<=', '>', '>='):
                r = {'==': ia == ib, '!=': ia != ib, '<': ia < ib, '<=': ia <= ib, '>': ia > ib, '>=': ia >= ib}[op]
                return const_bits(1 if r else 0)
            raise Refuse('operator ' + op)
        if k == 'cond':
            c = to_int(self.ev(e['c'], fn, this, env))
            if c is None:
                raise Refuse('non-constant condition ' + ir.pp(e['c']))
            return self.ev(e['t'] if c else e['f'], fn, this, env)
        if k == 'asg':
            lv = self.lv(e['l'], fn, this, env)
            r = self.ev(e['r'], fn, this, env)
            op = e['op']
            if op != '=':
                cur = self.load(lv, env)
                fake = {'k': 'bin', 'op': op[:-1], 'l': {'k': '_v', 'v': cur}, 'r': {'k': '_v', 'v': r}}
                r = self.binop(op[:-1], cur, r, e)
            self.store(lv, r, env)
            return self.load(lv, env)
        if k == 'call':
            g = self.F.fn(e['fn']) if e.get('fn') is not None else None
            if g is None:
                raise Refuse('call without a body: ' + str(e.get('m')))
            if g.qn in ('ffsm2::min', 'ffsm2::max'):
                a = to_int(self.ev(e['args'][0], fn, this, env))
                b = to_int(self.ev(e['args'][1], fn, this, env))
                if a is None or b is None:
                    raise Refuse('min/max of non-constants')
                return const_bits(min(a, b) if g.qn.endswith('min') else max(a, b))
            # a library helper with a body: interpret it (value parameters; `this` of a member call is the same object unless an
            # object expression is given)
            if g.body is None or self.depth > 8:
                raise Refuse('call to ' + g.short)
            obj = this
            if ir.is_expr(e.get('obj')) and ir.strip(e['obj'])['k'] != 'this':
                obj = self.obj(e['obj'], fn, this, env)
                if not isinstance(obj, dict):
                    raise Refuse('call on a non-object: ' + ir.pp(e))
            cenv = {}
            for p, a in zip(g.params, e.get('args', [])):
                if '&' in (p.get('ty') or '') and 'const' not in (p.get('ty') or ''):
                    cenv[p['id']] = ['ref', self.lv(a, fn, this, env), None]
                elif '&' in (p.get('ty') or '') and ir.strip(a)['k'] in ('var', 'mem', 'idx') and \
                        isinstance(self.load(self.lv(a, fn, this, env), env), (dict, list)):
                    cenv[p['id']] = ['ref', self.lv(a, fn, this, env), None]       # an object handed on by const reference
                else:
                    w = width_of(p['ty']) or W
                    v = self.ev(a, fn, this, env)
                    cenv[p['id']] = ['val', trunc(v, w), w]
            self.depth += 1
            try:
                self.stmt(g.body, g, obj, cenv, 0)
            except _Ret as r:
                return r.v
            finally:
                self.depth -= 1
            return None
        if k == '_v':
            return e['v']
        if k == 'zero':
            return const_bits(0)
        raise Refuse('expression %s: %s' % (k, ir.pp(e0)))

    def binop(self, op, a, b, node):
        if op == '&':
            return b_and(a, b)
        if op == '|':
            return b_or(a, b)
        if op in ('<<', '>>'):
            n = to_int(b)
            if n is None:
                raise Refuse('shift by a non-constant amount: ' + ir.pp(node))
            return shl(a, n) if op == '<<' else shr(a, n)
        ia, ib = to_int(a), to_int(b)
        if ia is None or ib is None:
            return UNKNOWN
        if op == '+':
            return const_bits(ia + ib)
        if op == '-':
            return const_bits(ia - ib)
        raise Refuse('compound operator ' + op)

    # ---- statements
    def stmt(self, s, fn, this, env, depth):
        if s is None:
            return
        k = s.get('s')
        if k == 'block':
            for c in s['b']:
                self.stmt(c, fn, this, env, depth)
        elif k == 'decl':
            for v in s['vars']:
                if 'unknown_decl' in v:
                    raise Refuse('unknown declaration')
                if v.get('ref'):
                    env[v['id']] = ['ref', self.lv(v['init'], fn, this, env), None]
                elif (v.get('ty') or '').rstrip().endswith('*'):
                    # a pointer walking over a byte array: (array, index); dereferences are bounds-checked against the array
                    env[v['id']] = ['ptr', self.ptr(v['init'], fn, this, env), None]
                else:
                    w = width_of(v.get('ty')) or W
                    val = self.ev(v['init'], fn, this, env) if v.get('init') is not None else UNKNOWN
                    env[v['id']] = ['val', trunc(val, w), w]
        elif k == 'expr':
            x = ir.strip(s['e'])
            if x['k'] == 'c' or (x['k'] == 'cast' and ir.strip(x['e'])['k'] == 'c'):
                return
            self.ev(s['e'], fn, this, env)
        elif k == 'null':
            return
        elif k == 'ret':
            raise _Ret(self.ev(s['e'], fn, this, env) if s.get('e') is not None else None)
        elif k == 'if':
            if s.get('cv'):       # condition variable
                self.stmt({'s': 'decl', 'vars': [s['cv']]}, fn, this, env, depth)
            cv = self.ev(s['c'], fn, this, env)
            c = to_int(cv)
            if c is None:
                if self.oracle is None:
                    raise Refuse('non-constant branch condition: ' + ir.pp(s['c']))
                c = self.nonzero(cv, s['c'])
            if c:
                self.stmt(s['t'], fn, this, env, depth)
            elif s.get('e'):
                self.stmt(s['e'], fn, this, env, depth)
        elif k in ('for', 'while', 'do'):
            if k == 'for' and s.get('init'):
                self.stmt(s['init'], fn, this, env, depth)
            n = 0
            first = True
            while True:
                if s.get('c') is not None and not (k == 'do' and first):
                    c = to_int(self.ev(s['c'], fn, this, env))
                    if c is None:
                        raise Refuse('non-constant loop condition: ' + ir.pp(s['c']))
                    if not c:
                        break
                first = False
                try:
                    self.stmt(s.get('body'), fn, this, env, depth)
                except _Break:
                    break
                except _Continue:
                    pass
                if k == 'for' and s.get('inc') is not None:
                    self.ev(s['inc'], fn, this, env)
                n += 1
                if n > 600:
                    raise Refuse('loop does not terminate within 600 iterations')
        elif k == 'break':
            raise _Break()
        elif k == 'cont':
            raise _Continue()
        elif k == 'rfor':
            arr = self.load(self.lv(s['range'], fn, this, env), env)
            if not isinstance(arr, list):
                raise Refuse('range-for over a non-array')
            v = s['var']
            for i in range(len(arr)):
                if v.get('ref'):
                    env[v['id']] = ['ref', ('elem', arr, i), None]
                else:
                    env[v['id']] = ['val', arr[i], 8]
                try:
                    self.stmt(s.get('body'), fn, this, env, depth)
                except _Break:
                    break
                except _Continue:
                    pass
        else:
            raise Refuse('statement kind %s' % k)


class _Break(Exception):
    pass


class _Continue(Exception):
    pass


class _Ret(Exception):
    def __init__(self, v):
        self.v = v


def assume_zero(bit, zero):
    """the bit under the assumption that every named bit in `zero` is 0"""
    if bit in zero:
        return 0
    if isinstance(bit, tuple) and bit and bit[0] == 'and':
        parts = [assume_zero(x, zero) for x in bit[1:]]
        if any(x == 0 for x in parts):
            return 0
        parts = [x for x in parts if x != 1]
        if not parts:
            return 1
        return parts[0] if len(parts) == 1 else ('and',) + tuple(sorted(parts, key=repr))
    if isinstance(bit, tuple) and bit and bit[0] == 'not':
        x = assume_zero(bit[1], zero)
        return 1 if x == 0 else 0 if x == 1 else ('not', x)
    return bit
