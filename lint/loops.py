"""Loop classification: range-for over member arrays and counted for-loops (G1, G2, C04.a)."""
from . import ir
from .common import AnalysisBroken


class Loop:
    def __init__(self, stmt, kind):
        self.stmt = stmt
        self.kind = kind          # 'range', 'counted', 'other'
        self.array = None         # range: pp of the range expression
        self.extent = None        # range: array extent
        self.var = None           # counted: induction variable decl
        self.start = None         # counted: constant start
        self.bound = None         # counted: expression E of `i < E` (may be None)
        self.bound_val = None     # counted: constant value of E if constant
        self.bound_op = None
        self.extra_conds = []     # counted: further conjuncts of the loop condition
        self.step = None          # counted: +1 / -1 / None
        self.loc = stmt.get('l')
        self.body = stmt.get('body')
        self.problems = []


def conjuncts(e):
    e = ir.strip(e)
    if ir.is_expr(e) and e['k'] == 'bin' and e['op'] == '&&':
        return conjuncts(e['l']) + conjuncts(e['r'])
    return [e]


def classify(stmt):
    k = stmt.get('s')
    if k == 'rfor':
        L = Loop(stmt, 'range')
        L.array = ir.pp(ir.strip(stmt.get('range')))
        L.extent = stmt.get('extent')
        L.var = stmt.get('var')
        return L
    if k != 'for':
        return Loop(stmt, 'other')
    L = Loop(stmt, 'other')
    init = stmt.get('init')
    if not init or init.get('s') != 'decl' or not init.get('vars'):
        return L
    # induction variable: the declared variable that the increment expression modifies
    inc = stmt.get('inc')
    inc_var = None
    step = None
    if inc is not None:
        x = ir.strip(inc)
        if x['k'] == 'un' and x['op'] in ('++', '--'):
            t = ir.strip(x['e'])
            if t['k'] == 'var':
                inc_var = t['id']
                step = 1 if x['op'] == '++' else -1
        elif x['k'] == 'asg' and x['op'] in ('+=', '-='):
            t = ir.strip(x['l'])
            c = ir.const_val(x['r'])
            if t['k'] == 'var' and c is not None:
                inc_var = t['id']
                step = c if x['op'] == '+=' else -c
    var = None
    for v in init['vars']:
        if inc_var is not None and v.get('id') == inc_var:
            var = v
    if var is None and inc is None and len(init['vars']) >= 1:
        # loops that advance inside the body (bit streams): not counted loops
        return L
    if var is None:
        return L
    L.var = var
    L.step = step
    L.start = ir.const_val(var.get('init')) if var.get('init') is not None else None
    cond = stmt.get('c')
    if cond is None:
        return L
    for cj in conjuncts(cond):
        if cj['k'] == 'bin' and cj['op'] in ('<', '<=', '!=', '>', '>='):
            l, r = ir.strip(cj['l']), ir.strip(cj['r'])
            if l['k'] == 'var' and l['id'] == var['id'] and L.bound is None:
                L.bound = r
                L.bound_op = cj['op']
                L.bound_val = ir.const_val(r)
                continue
            if r['k'] == 'var' and r['id'] == var['id'] and L.bound is None:
                mirror = {'<': '>', '>': '<', '<=': '>=', '>=': '<=', '!=': '!='}
                L.bound = l
                L.bound_op = mirror[cj['op']]
                L.bound_val = ir.const_val(l)
                continue
        L.extra_conds.append(cj)
    if L.bound is not None and L.step is not None and L.start is not None:
        L.kind = 'counted'
    return L


def loops_of(fn):
    out = []
    for s in ir.walk_stmts(fn.body):
        if s.get('s') in ('for', 'rfor', 'while', 'do'):
            out.append(classify(s))
    return out


def body_writes_var(loop, var_id):
    """assignments / increments of the induction variable inside the loop body (not the increment expression)."""
    out = []
    for s in ir.walk_stmts(loop.body):
        for e in ir.stmt_exprs(s):
            for x in ir.walk(e):
                if x['k'] == 'asg':
                    t = ir.strip(x['l'])
                    if t['k'] == 'var' and t['id'] == var_id:
                        out.append(x)
                elif x['k'] == 'un' and x['op'] in ('++', '--'):
                    t = ir.strip(x['e'])
                    if t['k'] == 'var' and t['id'] == var_id:
                        out.append(x)
                elif x['k'] == 'un' and x['op'] == '&':
                    t = ir.strip(x['e'])
                    if t['k'] == 'var' and t['id'] == var_id:
                        out.append(x)
    return out


def has_jump(loop, kinds=('cont', 'break')):
    """continue / break statements belonging to this loop (not to nested loops)."""
    found = []

    def rec(s, depth):
        if s is None:
            return
        k = s.get('s')
        if k in kinds and depth == 0:
            found.append(k)
        nd = depth + (1 if k in ('for', 'rfor', 'while', 'do') else 0)
        if k == 'switch' and 'break' in kinds:
            nd = depth + 1
        for c in ir.stmt_children(s):
            rec(c, nd)
    rec(loop.body, 0)
    return found


def full_extent(loop, extent, array_pp=None):
    """G1: the loop visits indices 0..extent-1 exactly (range-for over the array, or i=0; i<extent; ++i)."""
    if loop.kind == 'range':
        return loop.extent == extent and (array_pp is None or loop.array == array_pp)
    if loop.kind == 'counted':
        if loop.start != 0 or loop.step != 1 or loop.extra_conds:
            return False
        if loop.bound_val is None:
            return False
        if loop.bound_op == '<':
            return loop.bound_val == extent
        if loop.bound_op == '!=':
            return loop.bound_val == extent
        if loop.bound_op == '<=':
            return loop.bound_val == extent - 1
        return False
    return False


def subscripts_in(node_iter):
    for x in node_iter:
        if x['k'] == 'idx':
            yield x


# ---------------------------------------------------------------------------------------------------------------------------
# Bounded loops in any spelling (for / while, increment in the header or at the end of every iterating path)

def _writes_to(e, var_id):
    """[(kind, amount)] for every write to the variable inside expression e: ('inc', +-n) or ('other', None)"""
    out = []
    for x in ir.walk(e):
        if x['k'] == 'un' and x['op'] in ('++', '--'):
            t = ir.strip(x['e'])
            if t['k'] == 'var' and t['id'] == var_id:
                out.append(('inc', 1 if x['op'] == '++' else -1))
        elif x['k'] == 'asg':
            t = ir.strip(x['l'])
            if t['k'] == 'var' and t['id'] == var_id:
                c = ir.const_val(x['r'])
                if x['op'] == '+=' and c is not None:
                    out.append(('inc', c))
                elif x['op'] == '-=' and c is not None:
                    out.append(('inc', -c))
                else:
                    # i = i + 1
                    r = ir.strip(x['r'])
                    if x['op'] == '=' and r['k'] == 'bin' and r['op'] == '+' and ir.strip(r['l']).get('id') == var_id and ir.const_val(r['r']) is not None:
                        out.append(('inc', ir.const_val(r['r'])))
                    else:
                        out.append(('other', None))
        elif x['k'] == 'un' and x['op'] == '&':
            t = ir.strip(x['e'])
            if t['k'] == 'var' and t['id'] == var_id:
                out.append(('other', None))
    return out


def _is_write_node(x, var_id):
    if x['k'] == 'un' and x['op'] in ('++', '--', '&'):
        t = ir.strip(x['e'])
        return t['k'] == 'var' and t['id'] == var_id
    if x['k'] == 'asg':
        t = ir.strip(x['l'])
        return t['k'] == 'var' and t['id'] == var_id
    return False


def _iteration_paths(s, var_id, limit=512):
    """structured paths through a loop body: [(list of writes to the variable, outcome)], outcome in fall / cont / break / ret.
    Nested loops that write the variable make the analysis give up (('other', None) is recorded)."""
    if s is None:
        return [([], 'fall')]
    k = s.get('s')
    if k == 'block':
        paths = [([], 'fall')]
        for c in s['b']:
            nxt = []
            sub = None
            for w, o in paths:
                if o != 'fall':
                    nxt.append((w, o))
                    continue
                if sub is None:
                    sub = _iteration_paths(c, var_id, limit)
                for w2, o2 in sub:
                    nxt.append((w + w2, o2))
            paths = nxt
            if len(paths) > limit:
                raise AnalysisBroken('too many paths through a loop body')
        return paths
    if k == 'if':
        cw = _writes_to(s['c'], var_id) if ir.is_expr(s.get('c')) else []
        out = []
        for branch in (s.get('t'), s.get('e')):
            for w, o in _iteration_paths(branch, var_id, limit):
                out.append((cw + w, o))
        return out
    if k == 'break':
        return [([], 'break')]
    if k == 'cont':
        return [([], 'cont')]
    if k == 'ret':
        return [(_writes_to(s['e'], var_id) if ir.is_expr(s.get('e')) else [], 'ret')]
    if k in ('for', 'while', 'do', 'rfor', 'switch'):
        ws = []
        for t in ir.walk_stmts(s):
            for e in ir.stmt_exprs(t):
                ws += _writes_to(e, var_id)
        return [([('other', None)] if ws else [], 'fall')]
    ws = []
    for e in ir.stmt_exprs(s):
        ws += _writes_to(e, var_id)
    return [(ws, 'fall')]


def bounded(fn, st):
    """Describe loop `st` of function fn as a bounded counting loop, in whatever spelling: returns a dict with
       var, start, bound_op, bound_val, per_iteration (the amount every iterating path adds to the counter, or None when the paths
       disagree / write it otherwise), extra_conds, problems -- or None when no counter can be identified."""
    if st.get('s') not in ('for', 'while'):
        return None
    cond = st.get('c')
    if cond is None:
        return None
    for cj in conjuncts(cond):
        if not (cj['k'] == 'bin' and cj['op'] in ('<', '<=', '!=', '>', '>=')):
            continue
        l, r = ir.strip(cj['l']), ir.strip(cj['r'])
        mirror = {'<': '>', '>': '<', '<=': '>=', '>=': '<=', '!=': '!='}
        for v, other, op in ((l, r, cj['op']), (r, l, mirror[cj['op']])):
            if v['k'] != 'var' or v.get('vk') not in ('local', None) or ir.const_val(other) is None:
                continue
            var_id = v['id']
            # declaration: in the for-init, or a local of the function declared before the loop with a constant initialiser
            decl = None
            if st.get('s') == 'for' and st.get('init') and st['init'].get('s') == 'decl':
                for d in st['init']['vars']:
                    if d.get('id') == var_id:
                        decl = d
            outside_writes = []
            if decl is None:
                for t in ir.walk_stmts(fn.body):
                    if t.get('s') == 'decl':
                        for d in t['vars']:
                            if d.get('id') == var_id:
                                decl = d
                # every write to the counter must be inside this loop
                inside = set(id(x) for t in ir.walk_stmts(st) for e in ir.stmt_exprs(t) for x in ir.walk(e))
                for t in ir.walk_stmts(fn.body):
                    for e in ir.stmt_exprs(t):
                        for x in ir.walk(e):
                            if id(x) not in inside and _is_write_node(x, var_id):
                                outside_writes.append(ir.pp(x))
            if decl is None or decl.get('ref'):
                continue
            inc_w = _writes_to(st['inc'], var_id) if st.get('s') == 'for' and ir.is_expr(st.get('inc')) else []
            amounts = set()
            problems = []
            for w, o in _iteration_paths(st.get('body'), var_id):
                if o in ('break', 'ret'):
                    continue     # leaves the loop
                tot = list(w) + list(inc_w)      # `continue` in a for loop still runs the increment
                if any(kind == 'other' for kind, a in tot):
                    problems.append('the counter is written other than by a constant increment')
                    amounts.add(None)
                else:
                    amounts.add(sum(a for kind, a in tot))
            if outside_writes:
                problems.append('the counter is written outside the loop: %s' % outside_writes[:2])
            cw = [w for c2 in conjuncts(cond) for w in _writes_to(c2, var_id)]
            if cw:
                problems.append('the loop condition writes the counter')
            return {
                'var': decl, 'start': ir.const_val(decl.get('init')) if decl.get('init') is not None else None,
                'bound_op': op, 'bound_val': ir.const_val(other),
                'per_iteration': (next(iter(amounts)) if len(amounts) == 1 else None),
                'extra_conds': [c2 for c2 in conjuncts(cond) if c2 is not cj], 'problems': problems,
            }
    return None


def events_per_iteration(st, is_event):
    """{number of expressions satisfying is_event evaluated on a path through one iteration that iterates again} over all such
    paths of loop statement `st` (for: the increment expression counts; `continue` still runs it)"""
    def count(e):
        return sum(1 for x in ir.walk(e) if is_event(x)) if ir.is_expr(e) else 0

    def paths(s):
        if s is None:
            return [(0, 'fall')]
        k = s.get('s')
        if k == 'block':
            ps = [(0, 'fall')]
            for c in s['b']:
                nxt = []
                sub = paths(c)
                for n, o in ps:
                    if o != 'fall':
                        nxt.append((n, o))
                    else:
                        nxt += [(n + n2, o2) for n2, o2 in sub]
                ps = nxt
                if len(ps) > 2048:
                    raise AnalysisBroken('too many paths through a loop body')
            return ps
        if k == 'if':
            cn = count(s.get('c'))
            if isinstance(s.get('cv'), dict):
                cn += count(s['cv'].get('init'))
            return [(cn + n, o) for br in (s.get('t'), s.get('e')) for n, o in paths(br)]
        if k == 'break':
            return [(0, 'break')]
        if k == 'cont':
            return [(0, 'cont')]
        if k == 'ret':
            return [(count(s.get('e')), 'ret')]
        n = 0
        for t in ir.walk_stmts(s):
            for e in ir.stmt_exprs(t):
                n += count(e)
        return [(n, 'fall')]
    inc = count(st.get('inc')) if st.get('s') == 'for' else 0
    cond = count(st.get('c'))
    return set(n + inc + cond for n, o in paths(st.get('body')) if o in ('fall', 'cont'))
