"""Loop classification: range-for over member arrays and counted for-loops (G1, G2, C04.a)."""
from . import ir
from .common import AnalysisBroken


class Loop:
    def __init__(self, stmt, kind):
        self.stmt = stmt
        self.kind = kind          # 'range', 'counted', 'other'
        self.array = None         # range: pp of the range expression
        self.extent = None        # range: array extent
        self.var = None           # counted: induction variable decl
        self.start = None         # counted: constant start
        self.bound = None         # counted: expression E of `i < E` (may be None)
        self.bound_val = None     # counted: constant value of E if constant
        self.bound_op = None
        self.extra_conds = []     # counted: further conjuncts of the loop condition
        self.step = None          # counted: +1 / -1 / None
        self.loc = stmt.get('l')
        self.body = stmt.get('body')
        self.problems = []


def conjuncts(e):
    e = ir.strip(e)
    if ir.is_expr(e) and e['k'] == 'bin' and e['op'] == '&&':
        return conjuncts(e['l']) + conjuncts(e['r'])
    return [e]


def classify(stmt):
    k = stmt.get('s')
    if k == 'rfor':
        L = Loop(stmt, 'range')
        L.array = ir.pp(ir.strip(stmt.get('range')))
        L.extent = stmt.get('extent')
        L.var = stmt.get('var')
        return L
    if k != 'for':
        return Loop(stmt, 'other')
    L = Loop(stmt, 'other')
    init = stmt.get('init')
    if not init or init.get('s') != 'decl' or not init.get('vars'):
        return L
    # induction variable: the declared variable that the increment expression modifies
    inc = stmt.get('inc')
    inc_var = None
    step = None
    if inc is not None:
        x = ir.strip(inc)
        if x['k'] == 'un' and x['op'] in ('++', '--'):
            t = ir.strip(x['e'])
            if t['k'] == 'var':
                inc_var = t['id']
                step = 1 if x['op'] == '++' else -1
        elif x['k'] == 'asg' and x['op'] in ('+=', '-='):
            t = ir.strip(x['l'])
            c = ir.const_val(x['r'])
            if t['k'] == 'var' and c is not None:
                inc_var = t['id']
                step = c if x['op'] == '+=' else -c
    var = None
    for v in init['vars']:
        if inc_var is not None and v.get('id') == inc_var:
            var = v
    if var is None and inc is None and len(init['vars']) >= 1:
        # loops that advance inside the body (bit streams): not counted loops
        return L
    if var is None:
        return L
    L.var = var
    L.step = step
    L.start = ir.const_val(var.get('init')) if var.get('init') is not None else None
    cond = stmt.get('c')
    if cond is None:
        return L
    for cj in conjuncts(cond):
        if cj['k'] == 'bin' and cj['op'] in ('<', '<=', '!=', '>', '>='):
            l, r = ir.strip(cj['l']), ir.strip(cj['r'])
            if l['k'] == 'var' and l['id'] == var['id'] and L.bound is None:
                L.bound = r
                L.bound_op = cj['op']
                L.bound_val = ir.const_val(r)
                continue
            if r['k'] == 'var' and r['id'] == var['id'] and L.bound is None:
                mirror = {'<': '>', '>': '<', '<=': '>=', '>=': '<=', '!=': '!='}
                L.bound = l
                L.bound_op = mirror[cj['op']]
                L.bound_val = ir.const_val(l)
                continue
        L.extra_conds.append(cj)
    if L.bound is not None and L.step is not None and L.start is not None:
        L.kind = 'counted'
    return L


def loops_of(fn):
    out = []
    for s in ir.walk_stmts(fn.body):
        if s.get('s') in ('for', 'rfor', 'while', 'do'):
            out.append(classify(s))
    return out


def body_writes_var(loop, var_id):
    """assignments / increments of the induction variable inside the loop body (not the increment expression)."""
    out = []
    for s in ir.walk_stmts(loop.body):
        for e in ir.stmt_exprs(s):
            for x in ir.walk(e):
                if x['k'] == 'asg':
                    t = ir.strip(x['l'])
                    if t['k'] == 'var' and t['id'] == var_id:
                        out.append(x)
                elif x['k'] == 'un' and x['op'] in ('++', '--'):
                    t = ir.strip(x['e'])
                    if t['k'] == 'var' and t['id'] == var_id:
                        out.append(x)
                elif x['k'] == 'un' and x['op'] == '&':
                    t = ir.strip(x['e'])
                    if t['k'] == 'var' and t['id'] == var_id:
                        out.append(x)
    return out


def has_jump(loop, kinds=('cont', 'break')):
    """continue / break statements belonging to this loop (not to nested loops)."""
    found = []

    def rec(s, depth):
        if s is None:
            return
        k = s.get('s')
        if k in kinds and depth == 0:
            found.append(k)
        nd = depth + (1 if k in ('for', 'rfor', 'while', 'do') else 0)
        if k == 'switch' and 'break' in kinds:
            nd = depth + 1
        for c in ir.stmt_children(s):
            rec(c, nd)
    rec(loop.body, 0)
    return found


def full_extent(loop, extent, array_pp=None):
    """G1: the loop visits indices 0..extent-1 exactly (range-for over the array, or i=0; i<extent; ++i)."""
    if loop.kind == 'range':
        return loop.extent == extent and (array_pp is None or loop.array == array_pp)
    if loop.kind == 'counted':
        if loop.start != 0 or loop.step != 1 or loop.extra_conds:
            return False
        if loop.bound_val is None:
            return False
        if loop.bound_op == '<':
            return loop.bound_val == extent
        if loop.bound_op == '!=':
            return loop.bound_val == extent
        if loop.bound_op == '<=':
            return loop.bound_val == extent - 1
        return False
    return False


def subscripts_in(node_iter):
    for x in node_iter:
        if x['k'] == 'idx':
            yield x
