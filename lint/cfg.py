"""Control-flow graphs over the extracted statement trees, and order rules on them.

Nodes are *events* in evaluation order: every call / constructor / write / new / implicit destructor of a scoped
local / return is one node; short-circuit operators and ?: become branch nodes whose out-edges are labelled 'T'/'F'.
"""
from . import ir
from .common import AnalysisBroken


class Node:
    __slots__ = ('id', 'kind', 'e', 'succ', 'pred', 'what', 'loc', 'extra')

    def __init__(self, nid, kind, e=None, what=None, loc=None, extra=None):
        self.id = nid
        self.kind = kind      # entry exit call ctor write new dtor ret branch join decl loophead
        self.e = e
        self.succ = []        # (node, label)
        self.pred = []
        self.what = what
        self.loc = loc
        self.extra = extra

    def __repr__(self):
        return '<%d %s %s>' % (self.id, self.kind, self.what or '')


class CFG:
    def __init__(self, fn, facts=None):
        self.fn = fn
        self.F = facts or fn.facts
        self.nodes = []
        self.entry = self.new('entry')
        self.exit = self.new('exit')
        self.scopes = []          # stack of lists of (vardecl) with destructors
        self.loop_stack = []      # (continue_target_builder, break_join, scope_depth)
        cur = self.entry
        # constructor initialisers first
        for i in fn.inits:
            cur = self.expr(i.get('e'), cur)
            n = self.new('init', e=i, what='init ' + str(i.get('name')), loc=i.get('l'))
            self.link(cur, n)
            cur = n
        if fn.body is not None:
            cur = self.stmt(fn.body, cur)
        if cur is not None:
            self.link(cur, self.exit)
        self._dom = None
        self._pdom = None

    # ------------------------------------------------------------------ construction
    def new(self, kind, e=None, what=None, loc=None, extra=None):
        n = Node(len(self.nodes), kind, e, what, loc, extra)
        self.nodes.append(n)
        return n

    def link(self, a, b, label=None):
        if a is None:
            return
        a.succ.append((b, label))
        b.pred.append((a, label))

    def event(self, cur, kind, e, what=None, loc=None, extra=None):
        n = self.new(kind, e, what, loc or (e.get('l') if isinstance(e, dict) else None), extra)
        self.link(cur, n)
        return n

    def expr(self, e, cur):
        """value context: returns the tail node after evaluating e (cur may be None = unreachable)."""
        if e is None or not ir.is_expr(e) or cur is None:
            return cur
        k = e['k']
        if k in ('tmp', 'definit', 'cast'):
            return self.expr(e['e'], cur)
        if k == 'bin' and e['op'] in ('&&', '||'):
            t, f = self.cond(e, cur)
            j = self.new('join', what='value of ' + e['op'])
            self.link(t, j)
            self.link(f, j)
            return j
        if k == 'un' and e['op'] == '!':
            return self.expr(e['e'], cur)
        if k == 'cond':
            t, f = self.cond(e['c'], cur)
            t2 = self.expr(e['t'], t)
            f2 = self.expr(e['f'], f)
            j = self.new('join', what='value of ?:')
            self.link(t2, j)
            self.link(f2, j)
            return j
        if k == 'call':
            if e.get('pm'):
                cur = self.expr(e['pm']['obj'], cur)
                cur = self.expr(e['pm']['ptr'], cur)
            if ir.is_expr(e.get('obj')):
                cur = self.expr(e['obj'], cur)
            if ir.is_expr(e.get('indirect')):
                cur = self.expr(e['indirect'], cur)
            for a in e.get('args', []):
                cur = self.expr(a, cur)
            return self.event(cur, 'call', e, what=e.get('m') or e.get('name'))
        if k == 'ctor':
            for a in e.get('args', []):
                cur = self.expr(a, cur)
            if (e.get('copy') or e.get('move')) and e.get('elidable'):
                return cur
            return self.event(cur, 'ctor', e, what=e.get('m'))
        if k == 'asg':
            cur = self.expr(e['r'], cur)
            cur = self.expr(e['l'], cur)
            return self.event(cur, 'write', e, what=ir.pp(e['l']), loc=e.get('loc'))
        if k == 'un' and e['op'] in ('++', '--'):
            cur = self.expr(e['e'], cur)
            return self.event(cur, 'write', e, what=ir.pp(e['e']))
        if k == 'new':
            for a in e.get('place', []):
                cur = self.expr(a, cur)
            cur = self.expr(e.get('init'), cur)
            return self.event(cur, 'new', e, what='new')
        if k == 'delete':
            cur = self.expr(e.get('e'), cur)
            return self.event(cur, 'delete', e, what='delete')
        if k == 'unknown':
            raise AnalysisBroken('unknown expression node %s in %s' % (e.get('cls'), self.fn.short))
        for c in ir.children(e):
            cur = self.expr(c, cur)
        return cur

    def cond(self, e, cur):
        """condition context: returns (true_tail, false_tail)."""
        if cur is None:
            return None, None
        e = e if ir.is_expr(e) else None
        if e is None:
            return cur, None
        k = e['k']
        if k in ('tmp', 'definit') or (k == 'cast' and e.get('ck') in ('implicit', 'static', 'functional', 'cstyle')):
            return self.cond(e['e'], cur)
        if k == 'un' and e['op'] == '!':
            t, f = self.cond(e['e'], cur)
            return f, t
        if k == 'bin' and e['op'] == '&&':
            t1, f1 = self.cond(e['l'], cur)
            t2, f2 = self.cond(e['r'], t1)
            f = self.merge(f1, f2)
            return t2, f
        if k == 'bin' and e['op'] == '||':
            t1, f1 = self.cond(e['l'], cur)
            t2, f2 = self.cond(e['r'], f1)
            t = self.merge(t1, t2)
            return t, f2
        if k == 'c':
            # constant condition folds
            cur = cur
            if e['v']:
                return cur, None
            return None, cur
        cur = self.expr(e, cur)
        b = self.new('branch', e, what=ir.pp(e)[:80], loc=e.get('l'))
        self.link(cur, b)
        t = self.new('join', what='T')
        f = self.new('join', what='F')
        self.link(b, t, 'T')
        self.link(b, f, 'F')
        return t, f

    def merge(self, a, b):
        if a is None:
            return b
        if b is None:
            return a
        j = self.new('join')
        self.link(a, j)
        self.link(b, j)
        return j

    def decl(self, v, cur):
        if 'unknown_decl' in v:
            raise AnalysisBroken('unknown declaration kind in ' + self.fn.short)
        cur = self.expr(v.get('init'), cur)
        n = self.event(cur, 'decl', v, what='decl ' + v['n'], loc=v.get('l'))
        if v.get('dtor') and self.scopes:
            self.scopes[-1].append(v)
        return n

    def unwind(self, cur, depth):
        """emit destructor events for all scopes deeper than `depth` (innermost first)."""
        for sc in reversed(self.scopes[depth:]):
            for v in reversed(sc):
                cur = self.event(cur, 'dtor', v, what='~' + v['n'], loc=v.get('l'), extra=v['dtor'])
        return cur

    def stmt(self, s, cur):
        if s is None or cur is None:
            return cur
        k = s.get('s')
        if k == 'block':
            self.scopes.append([])
            for c in s['b']:
                cur = self.stmt(c, cur)
                if cur is None:
                    break
            if cur is not None:
                cur = self.unwind(cur, len(self.scopes) - 1)
            self.scopes.pop()
            return cur
        if k == 'decl':
            for v in s['vars']:
                cur = self.decl(v, cur)
            return cur
        if k == 'expr':
            return self.expr(s['e'], cur)
        if k == 'null':
            return cur
        if k == 'ret':
            cur = self.expr(s.get('e'), cur)
            r = self.event(cur, 'ret', s, what='return', loc=s.get('l'))
            r = self.unwind(r, 0)
            self.link(r, self.exit)
            return None
        if k == 'if':
            self.scopes.append([])
            if s.get('init'):
                cur = self.stmt(s['init'], cur)
            if s.get('cv'):
                cur = self.decl(s['cv'], cur)
            t, f = self.cond(s['c'], cur)
            t2 = self.stmt_scoped(s['t'], t)
            f2 = self.stmt_scoped(s.get('e'), f) if s.get('e') else f
            j = self.merge(t2, f2)
            if j is not None:
                j = self.unwind(j, len(self.scopes) - 1)
            self.scopes.pop()
            return j
        if k in ('for', 'while'):
            self.scopes.append([])
            if s.get('init'):
                cur = self.stmt(s['init'], cur)
            head = self.new('loophead', s, what='loop', loc=s.get('l'))
            self.link(cur, head)
            if s.get('c') is not None:
                t, f = self.cond(s['c'], head)
            else:
                t, f = head, None
            brk = self.new('join', what='break')
            cont = self.new('join', what='continue')
            self.loop_stack.append((cont, brk, len(self.scopes)))
            b = self.stmt_scoped(s.get('body'), t)
            self.loop_stack.pop()
            self.link(b, cont)
            c2 = cont
            if s.get('inc') is not None:
                c2 = self.expr(s['inc'], cont)
            self.link(c2, head, 'back')
            self.link(f, brk)
            out = brk if brk.pred else None
            if out is not None:
                out = self.unwind(out, len(self.scopes) - 1)
            self.scopes.pop()
            return out
        if k == 'rfor':
            self.scopes.append([])
            cur = self.expr(s.get('range'), cur)
            head = self.new('loophead', s, what='range-for', loc=s.get('l'))
            self.link(cur, head)
            b = self.new('branch', None, what='more elements')
            self.link(head, b)
            t = self.new('join', what='T')
            f = self.new('join', what='F')
            self.link(b, t, 'T')
            self.link(b, f, 'F')
            brk = self.new('join', what='break')
            cont = self.new('join', what='continue')
            self.loop_stack.append((cont, brk, len(self.scopes)))
            t = self.decl(s['var'], t) if s.get('var') else t
            body = self.stmt_scoped(s.get('body'), t)
            self.loop_stack.pop()
            self.link(body, cont)
            self.link(cont, head, 'back')
            self.link(f, brk)
            self.scopes.pop()
            return brk
        if k == 'do':
            head = self.new('loophead', s, what='do', loc=s.get('l'))
            self.link(cur, head)
            brk = self.new('join', what='break')
            cont = self.new('join', what='continue')
            self.loop_stack.append((cont, brk, len(self.scopes)))
            b = self.stmt_scoped(s.get('body'), head)
            self.loop_stack.pop()
            self.link(b, cont)
            t, f = self.cond(s['c'], cont)
            self.link(t, head, 'back')
            self.link(f, brk)
            return brk if brk.pred else None
        if k == 'break':
            if not self.loop_stack:
                raise AnalysisBroken('break outside a loop in ' + self.fn.short)
            cont, brk, depth = self.loop_stack[-1]
            cur = self.unwind(cur, depth)
            self.link(cur, brk)
            return None
        if k == 'cont':
            if not self.loop_stack:
                raise AnalysisBroken('continue outside a loop in ' + self.fn.short)
            cont, brk, depth = self.loop_stack[-1]
            cur = self.unwind(cur, depth)
            self.link(cur, cont)
            return None
        if k == 'switch':
            # only methodName() uses a switch; model as a multi-way branch without fallthrough precision
            cur = self.expr(s['c'], cur)
            b = self.new('branch', s['c'], what='switch')
            self.link(cur, b)
            brk = self.new('join', what='break')
            self.loop_stack.append((brk, brk, len(self.scopes)))
            body = s.get('body') or {}
            for c in body.get('b', []) if body.get('s') == 'block' else [body]:
                tail = self.new('join', what='case')
                self.link(b, tail, 'case')
                sub = c
                while sub is not None and sub.get('s') in ('case', 'default'):
                    sub = sub.get('sub')
                t = self.stmt(sub, tail)
                self.link(t, brk)
            self.loop_stack.pop()
            return brk
        if k in ('case', 'default'):
            return self.stmt(s.get('sub'), cur)
        raise AnalysisBroken('statement kind %s in %s' % (k, self.fn.short))

    def stmt_scoped(self, s, cur):
        if s is None:
            return cur
        if s.get('s') == 'block':
            return self.stmt(s, cur)
        self.scopes.append([])
        cur = self.stmt(s, cur)
        if cur is not None:
            cur = self.unwind(cur, len(self.scopes) - 1)
        self.scopes.pop()
        return cur

    # ------------------------------------------------------------------ queries
    def reachable(self):
        seen = set()
        st = [self.entry]
        while st:
            n = st.pop()
            if n.id in seen:
                continue
            seen.add(n.id)
            for s, _ in n.succ:
                st.append(s)
        return seen

    def events(self, kinds=None, pred=None):
        reach = self.reachable()
        out = []
        for n in self.nodes:
            if n.id not in reach:
                continue
            if kinds and n.kind not in kinds:
                continue
            if pred and not pred(n):
                continue
            out.append(n)
        return out

    def calls(self, pred=None):
        return self.events(('call', 'ctor'), pred)

    def _compute_dom(self, forward=True):
        reach = self.reachable()
        nodes = [n for n in self.nodes if n.id in reach]
        root = self.entry if forward else self.exit
        allset = set(n.id for n in nodes)
        dom = {n.id: set(allset) for n in nodes}
        dom[root.id] = {root.id}
        changed = True
        while changed:
            changed = False
            for n in nodes:
                if n is root:
                    continue
                ps = [p for p, _ in (n.pred if forward else n.succ) if p.id in reach]
                if not ps:
                    new = {n.id}
                else:
                    new = set(dom[ps[0].id])
                    for p in ps[1:]:
                        new &= dom[p.id]
                    new.add(n.id)
                if new != dom[n.id]:
                    dom[n.id] = new
                    changed = True
        return dom

    def dominates(self, a, b):
        """every path entry -> b passes through a"""
        if self._dom is None:
            self._dom = self._compute_dom(True)
        return a.id in self._dom.get(b.id, ())

    def postdominates(self, a, b):
        """every path b -> exit passes through a"""
        if self._pdom is None:
            self._pdom = self._compute_dom(False)
        return a.id in self._pdom.get(b.id, ())

    def path_counts(self, pred):
        """(min, max) number of nodes satisfying pred on any entry->exit path; max is capped at 2 ('many'),
        loops containing a match count as 'many'."""
        reach = self.reachable()
        INF = 2
        # iterative dataflow on (min,max) at node entry
        val = {}
        order = [n for n in self.nodes if n.id in reach]
        val[self.entry.id] = (0, 0)
        changed = True
        it = 0
        while changed and it < 200:
            changed = False
            it += 1
            for n in order:
                if n.id not in val:
                    continue
                lo, hi = val[n.id]
                if pred(n):
                    lo, hi = min(lo + 1, INF), min(hi + 1, INF)
                for s, _ in n.succ:
                    if s.id not in val:
                        val[s.id] = (lo, hi)
                        changed = True
                    else:
                        a, b = val[s.id]
                        new = (min(a, lo), max(b, hi))
                        if new != val[s.id]:
                            val[s.id] = new
                            changed = True
        return val.get(self.exit.id, (0, 0))

    def controlled_by(self, n):
        """list of (branch node, label) such that n is reachable only through that labelled edge (edge dominance)."""
        out = []
        for b in self.events(('branch',)):
            for s, lab in b.succ:
                if lab in ('T', 'F') and self.dominates(s, n) and not self._reaches_without(b, n, s):
                    out.append((b, lab))
        return out

    def _reaches_without(self, b, n, via):
        return False

    def control_deps(self, n, ignore_loop_conditions=True):
        """branch nodes n is control dependent on (n post-dominates one successor of b but not b itself)."""
        out = []
        for b in self.events(('branch',)):
            if b is n:
                continue
            if ignore_loop_conditions and self._is_loop_condition(b):
                continue
            if self.postdominates(n, b):
                continue
            if any(self.postdominates(n, s) for s, _ in b.succ):
                out.append(b)
        return out

    def control_deps_closure(self, n, ignore_loop_conditions=True):
        out = []
        seen = set()
        work = [n]
        while work:
            x = work.pop()
            for b in self.control_deps(x, ignore_loop_conditions):
                if b.id not in seen:
                    seen.add(b.id)
                    out.append(b)
                    work.append(b)
        return out

    def _is_loop_condition(self, b):
        # a branch whose evaluation belongs to a loop header: reached from a loophead through joins/calls only
        for h in self.events(('loophead',)):
            body = self.loop_body(h)
            if b.id in body:
                # is b on the header's condition chain, i.e. does one of its edges leave the loop?
                for s, _ in b.succ:
                    x = s
                    hops = 0
                    while x.kind == 'join' and x.succ and hops < 6:
                        if x.id not in body:
                            break
                        x = x.succ[0][0]
                        hops += 1
                    if x.id not in body:
                        return True
        return False

    def in_loop(self, n):
        """loop heads whose natural loop contains n."""
        out = []
        for h in self.events(('loophead',)):
            body = self.loop_body(h)
            if n.id in body:
                out.append(h)
        return out

    def loop_body(self, head):
        body = {head.id}
        st = [p for p, lab in head.pred if lab == 'back']
        while st:
            x = st.pop()
            if x.id in body:
                continue
            body.add(x.id)
            for p, _ in x.pred:
                st.append(p)
        return body


_cfg_cache = {}


def cfg_of(fn):
    key = (id(fn.facts), fn.id)
    c = _cfg_cache.get(key)
    if c is None:
        c = CFG(fn)
        _cfg_cache[key] = c
    return c


def clear_cache():
    _cfg_cache.clear()


def enumerate_paths(c, limit=400):
    """all acyclic entry->exit paths (back edges are not followed) as lists of (node, label-taken-to-leave-it)."""
    out = []

    def rec(n, acc, seen):
        if len(out) >= limit:
            return
        if n is c.exit:
            out.append(acc)
            return
        for s, lab in n.succ:
            if lab == 'back' or s.id in seen:
                continue
            rec(s, acc + [(n, lab)], seen | {s.id})
    rec(c.entry, [], {c.entry.id})
    return out
