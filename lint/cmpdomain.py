"""Finite comparison-domain evaluation (DESIGN 2.2-4).

A small pure library predicate whose inputs are only ever *compared* (==, !=, <, <=, >, >= against each other or
against constants; `v >> c == 0`; combined by !, &&, ||, ?:) is constant on every cell of the finite partition of its
input space induced by the constants that occur in it. The checker (1) verifies that the function really is in that
fragment -- otherwise it refuses with "analysis broken" -- and (2) evaluates it on one representative per cell, which
is therefore exhaustive over all inputs. No library code is executed: the evaluation is over the extracted expression
tree.
"""
import itertools

from . import ir
from .common import AnalysisBroken


class NotPure(AnalysisBroken):
    pass


CMP_OPS = {'==', '!=', '<', '<=', '>', '>='}


class Obj(dict):
    """a record value: field name -> value (int / bool / Obj)"""
    pass


def _cmp(op, a, b):
    if op == '==':
        return a == b
    if op == '!=':
        return a != b
    if op == '<':
        return a < b
    if op == '<=':
        return a <= b
    if op == '>':
        return a > b
    if op == '>=':
        return a >= b
    raise NotPure('operator ' + op)


class Evaluator:
    """Evaluates side-effect-free library functions over the extracted trees.

    `inputs` is the set of ids (python id()) of value leaves regarded as *inputs*; the evaluator records how each
    input-derived value is used, so that the caller can check the comparison-only restriction.
    """

    def __init__(self, facts, max_depth=12):
        self.F = facts
        self.max_depth = max_depth
        self.constants = set()       # integer constants an input was compared with
        self.other_uses = []         # (description) uses of an input outside the comparison fragment
        self.shift_thresholds = set()
        self.models = {}             # fn id -> callable(evaluator, this, args): a decided summary used instead of interpreting the body

    # values are plain python ints/bools/Obj; inputs are wrapped so that uses can be tracked
    class In(object):
        __slots__ = ('v', 'name')

        def __init__(self, v, name):
            self.v = v
            self.name = name

    def raw(self, x):
        return x.v if isinstance(x, Evaluator.In) else x

    def call(self, fn, this, args, depth=0):
        if depth > self.max_depth:
            raise NotPure('call depth')
        env = {}
        for p, a in zip(fn.params, args):
            env[p['id']] = a
        return self.exec_fn(fn, this, env, depth)

    def exec_fn(self, fn, this, env, depth):
        try:
            self.exec_stmt(fn.body, fn, this, env, depth)
        except _Return as r:
            return r.value
        return None

    def exec_stmt(self, s, fn, this, env, depth):
        if s is None:
            return
        k = s.get('s')
        if k == 'block':
            for c in s['b']:
                self.exec_stmt(c, fn, this, env, depth)
        elif k == 'ret':
            raise _Return(self.ev(s['e'], fn, this, env, depth) if s.get('e') is not None else None)
        elif k == 'if':
            if s.get('cv'):       # `if (auto* logger = _core.logger)`: the condition variable is declared first
                self.exec_stmt({'s': 'decl', 'vars': [s['cv']]}, fn, this, env, depth)
            c = self.truth(self.ev(s['c'], fn, this, env, depth))
            if c:
                self.exec_stmt(s['t'], fn, this, env, depth)
            elif s.get('e'):
                self.exec_stmt(s['e'], fn, this, env, depth)
        elif k == 'decl':
            for v in s['vars']:
                if 'unknown_decl' in v:
                    raise NotPure('unknown declaration')
                env[v['id']] = self.ev(v['init'], fn, this, env, depth) if v.get('init') is not None else None
        elif k == 'expr':
            e = ir.strip(s['e'])
            if e['k'] == 'c':
                return     # ((void)0) asserts
            if e['k'] == 'asg' and e['op'] == '=':
                tgt = ir.strip(e['l'])
                if tgt['k'] == 'mem':
                    base = self.raw(self.ev(tgt['b'], fn, this, env, depth))
                    if isinstance(base, Obj):
                        base[tgt['f']] = self.ev(e['r'], fn, this, env, depth)
                        return
                raise NotPure('assignment to something other than an object field: ' + ir.pp(e))
            if e['k'] == 'cast' and ir.is_expr(e.get('e')) and ir.strip(e['e'])['k'] == 'c':
                return
            if e['k'] in ('var', 'mem') or (e['k'] == 'cast' and ir.is_expr(e.get('e')) and ir.strip(e['e'])['k'] in ('var', 'mem')):
                return     # (void) x;  -- a discarded read
            if e['k'] == 'call' and e.get('op') == '=' and ir.is_expr(e.get('obj')) and len(e.get('args', [])) == 1 and \
                    (e.get('fn') is None or self.F.fn(e['fn']) is None or self.F.fn(e['fn']).d.get('implicit') or self.F.fn(e['fn']).d.get('defaulted')):
                # implicit (member-wise) copy / move assignment of a value object
                tgt = self.raw(self.ev(e['obj'], fn, this, env, depth))
                src = self.raw(self.ev(e['args'][0], fn, this, env, depth))
                if isinstance(tgt, Obj) and isinstance(src, Obj):
                    vals = dict(src)
                    tgt.clear()
                    tgt.update(vals)
                    return
            raise NotPure('expression statement in a predicate: ' + ir.pp(e))
        elif k == 'null':
            return
        else:
            raise NotPure('statement kind %s in %s' % (k, fn.short))

    def truth(self, v):
        r = self.raw(v)
        if isinstance(v, Evaluator.In):
            # an input used directly as a condition: it is a comparison with 0
            self.constants.add(0)
        if isinstance(r, Obj):
            raise NotPure('object used as a condition')
        return bool(r)

    def ev(self, e, fn, this, env, depth):
        e0 = e
        if e is None:
            return None
        k = e['k']
        if k in ('tmp', 'definit'):
            return self.ev(e['e'], fn, this, env, depth)
        if k == 'cast':
            if e.get('ck') == 'reinterpret':
                raise NotPure('reinterpret_cast')
            return self.ev(e['e'], fn, this, env, depth)
        if k == 'c':
            return e['v']
        if k == 'this':
            return this
        if k == 'var':
            if e['id'] in env:
                return env[e['id']]
            raise NotPure('free variable ' + e['n'])
        if k == 'mem':
            b = self.ev(e['b'], fn, this, env, depth)
            b = self.raw(b)
            if not isinstance(b, Obj):
                raise NotPure('member of a non-object: ' + ir.pp(e))
            if e['f'] not in b:
                raise NotPure('object has no field %s (%s)' % (e['f'], ir.pp(e)))
            return b[e['f']]
        if k == 'un':
            v = self.ev(e['e'], fn, this, env, depth)
            if e['op'] == '!':
                return not self.truth(v)
            if e['op'] == '*':
                return v
            if e['op'] == '&':
                return v
            self.use_other(v, 'unary ' + e['op'])
            r = self.raw(v)
            if e['op'] == '-':
                return -r
            if e['op'] == '~':
                return ~r
            raise NotPure('unary ' + e['op'])
        if k == 'bin':
            op = e['op']
            if op == '&&':
                return self.truth(self.ev(e['l'], fn, this, env, depth)) and self.truth(self.ev(e['r'], fn, this, env, depth))
            if op == '||':
                return self.truth(self.ev(e['l'], fn, this, env, depth)) or self.truth(self.ev(e['r'], fn, this, env, depth))
            l = self.ev(e['l'], fn, this, env, depth)
            r = self.ev(e['r'], fn, this, env, depth)
            if op in CMP_OPS:
                self.note_cmp(l, r)
                return _cmp(op, self.raw(l), self.raw(r))
            if op == '>>' and isinstance(l, Evaluator.In) and not isinstance(r, Evaluator.In) and isinstance(self.raw(r), int):
                # v >> c : only meaningful to us as a threshold test (checked by the caller: result compared with 0)
                self.shift_thresholds.add(1 << self.raw(r))
                return Evaluator.In(self.raw(l) >> self.raw(r), l.name + '>>')
            self.use_other(l, 'operator ' + op)
            self.use_other(r, 'operator ' + op)
            a, b = self.raw(l), self.raw(r)
            if op == '+':
                return a + b
            if op == '-':
                return a - b
            if op == '*':
                return a * b
            if op == '/':
                return a // b
            if op == '%':
                return a % b
            if op == '&':
                return a & b
            if op == '|':
                return a | b
            if op == '^':
                return a ^ b
            if op == '<<':
                return a << b
            if op == '>>':
                return a >> b
            raise NotPure('operator ' + op)
        if k == 'cond':
            c = self.truth(self.ev(e['c'], fn, this, env, depth))
            return self.ev(e['t'] if c else e['f'], fn, this, env, depth)
        if k == 'call':
            if e.get('fn') is None:
                raise NotPure('indirect call ' + ir.pp(e))
            g = self.F.fn(e['fn'])
            if g is None and e.get('m') in ('memcmp', '__builtin_memcmp') and len(e.get('args', [])) == 3:
                a = self.raw(self.ev(e['args'][0], fn, this, env, depth))
                b = self.raw(self.ev(e['args'][1], fn, this, env, depth))
                return 0 if a == b else 1      # byte arrays are modelled as one opaque value
            if g is None:
                raise NotPure('call to a function without a body: ' + str(e.get('name')))
            obj = self.ev(e['obj'], fn, this, env, depth) if ir.is_expr(e.get('obj')) else (this if g.cls == fn.cls else None)
            args = [self.ev(a, fn, this, env, depth) for a in e.get('args', [])]
            if g.id in self.models:
                return self.models[g.id](self, obj, args)
            return self.call(g, obj, args, depth + 1)
        if k == 'ctor':
            g = self.F.fn(e['fn']) if e.get('fn') is not None else None
            args = [self.ev(a, fn, this, env, depth) for a in e.get('args', [])]
            if (e.get('copy') or e.get('move')) and len(args) == 1:
                return args[0]
            if g is None:
                raise NotPure('constructor without a body: ' + str(e.get('name')))
            return self.construct(g, args, depth + 1)
        if k == 'init':
            if len(e.get('es', [])) == 1:
                return self.ev(e['es'][0], fn, this, env, depth)
            raise NotPure('initializer list ' + ir.pp(e))
        if k == 'zero':
            return 0
        if k == 'null':
            return 0
        raise NotPure('expression kind %s: %s' % (k, ir.pp(e0)))

    def construct(self, ctor, args, depth):
        """build an Obj by interpreting member initialisers (scalar members only)."""
        rec = self.F.rec_by_name.get(ctor.cls)
        if rec is None:
            raise NotPure('unknown record ' + str(ctor.cls))
        obj = Obj()
        self.default_fields(rec, obj)
        env = {}
        for p, a in zip(ctor.params, args):
            env[p['id']] = a
        for i in ctor.inits:
            if i['t'] == 'delegating':
                b = ir.strip(i['e'])
                g = self.F.fn(b['fn']) if b.get('k') == 'ctor' and b.get('fn') is not None else None
                if g is None or depth > self.max_depth:
                    raise NotPure('delegating constructor without a body')
                bargs = [self.ev(a, ctor, obj, env, depth) for a in b.get('args', [])]
                obj.update(self.construct(g, bargs, depth + 1))
            elif i['t'] == 'base':
                b = ir.strip(i['e'])
                if b['k'] == 'ctor':
                    g = self.F.fn(b['fn']) if b.get('fn') is not None else None
                    bargs = [self.ev(a, ctor, obj, env, depth) for a in b.get('args', [])]
                    if g is not None:
                        obj.update(self.construct(g, bargs, depth + 1))
                    elif (b.get('copy') or b.get('move')) and bargs:
                        obj.update(self.raw(bargs[0]))
                elif b['k'] == 'inhctor':
                    g = self.F.fn(b['fn']) if b.get('fn') is not None else None
                    if g is None:
                        raise NotPure('inherited constructor without a body')
                    obj.update(self.construct(g, list(args), depth + 1))
            elif i['t'] in ('member', 'indirect'):
                try:
                    obj[i['name']] = self.ev(i['e'], ctor, obj, env, depth)
                except NotPure:
                    obj[i['name']] = None
        # constructor body: placement-new of a value into a byte-array member is modelled as "that member now holds the value"
        # (byte arrays are one opaque value in this domain); anything else in a body is outside the fragment
        body = ctor.body
        for st in (ir.walk_stmts(body) if body else []):
            if st.get('s') in ('block', 'null'):
                continue
            e = ir.strip(st['e']) if st.get('s') == 'expr' and ir.is_expr(st.get('e')) else None
            if e is not None and e['k'] == 'c':
                continue
            if e is not None and e['k'] == 'cast' and ir.is_expr(e.get('e')) and ir.strip(e['e'])['k'] == 'c':
                continue
            if e is not None and (e['k'] in ('var', 'mem') or (e['k'] == 'cast' and ir.is_expr(e.get('e')) and ir.strip(e['e'])['k'] in ('var', 'mem'))):
                continue
            if e is not None and e['k'] == 'new' and len(e.get('place') or []) == 1:
                tgt = ir.strip(e['place'][0])
                if tgt['k'] == 'un' and tgt['op'] == '&':
                    tgt = ir.strip(tgt['e'])
                if tgt['k'] == 'mem' and ir.strip(tgt['b'])['k'] == 'this':
                    init = ir.strip(e['init']) if ir.is_expr(e.get('init')) else None
                    srcs = [self.ev(a, ctor, obj, env, depth) for a in ((init.get('args') or init.get('es') or []) if init is not None and init['k'] in ('ctor', 'init') else ([init] if init is not None else []))]
                    obj[tgt['f']] = srcs[0] if len(srcs) == 1 else tuple(srcs)
                    continue
            if st.get('s') == 'expr' and e is not None and e['k'] == 'asg':
                self.exec_stmt(st, ctor, obj, env, depth)      # a plain assignment to a field of an object in reach (raises NotPure otherwise)
                continue
            raise NotPure('constructor body of %s: %s' % (ctor.short, ir.pp_stmt(st)[:80]))
        return obj

    def default_fields(self, rec, obj):
        for b in rec.get('bases', []):
            br = self.F.rec_by_name.get(b['name'])
            if br:
                self.default_fields(br, obj)
        for f in rec['fields']:
            if f.get('anon'):
                for m in f.get('members', []):
                    if m.get('nsdmi') and ir.const_val(m.get('nsdmi_e')) is not None:
                        obj[m['n']] = ir.const_val(m['nsdmi_e'])
            elif f.get('nsdmi') and ir.const_val(f.get('nsdmi_e')) is not None:
                obj[f['n']] = ir.const_val(f['nsdmi_e'])

    # -- use tracking
    def note_cmp(self, l, r):
        li, ri = isinstance(l, Evaluator.In), isinstance(r, Evaluator.In)
        if li and not ri and isinstance(self.raw(r), (int, bool)):
            self.constants.add(int(self.raw(r)))
        if ri and not li and isinstance(self.raw(l), (int, bool)):
            self.constants.add(int(self.raw(l)))

    def use_other(self, v, what):
        if isinstance(v, Evaluator.In):
            self.other_uses.append('%s used in %s' % (v.name, what))


class _Return(Exception):
    def __init__(self, value):
        self.value = value


def representatives(constants, n_inputs, lo=0, hi=255):
    """candidate values: every constant in range plus n_inputs interior points of every gap."""
    cs = sorted(c for c in set(constants) if lo <= c <= hi)
    cand = set(cs)
    bounds = [lo - 1] + cs + [hi + 1]
    for a, b in zip(bounds, bounds[1:]):
        width = b - a - 1
        if width <= 0:
            continue
        k = min(n_inputs, width)
        for j in range(k):
            cand.add(a + 1 + (width - 1) * j // max(1, k - 1) if k > 1 else a + 1 + width // 2)
    return sorted(cand)


def decide(F, run_eval, input_names, spec, lo=0, hi=255, extra_constants=()):
    """Exhaustively decide `impl(inputs) == spec(inputs)` for a comparison-only predicate.

    run_eval(ev, values) -> result evaluates the implementation with Evaluator `ev` on dict values (wrapped inputs).
    Two passes: a discovery pass on a seed grid collects the constants the inputs are compared with (and rejects any
    other use), then the representative grid of the induced partition is evaluated.
    Returns (ok, counterexample-or-None, cells, constants).
    """
    consts = set(extra_constants) | {lo, hi}
    for _ in range(4):
        reps = representatives(consts, len(input_names), lo, hi)
        new_consts = set(consts)
        bad = None
        cells = 0
        for combo in itertools.product(reps, repeat=len(input_names)):
            ev = Evaluator(F)
            vals = {n: Evaluator.In(v, n) for n, v in zip(input_names, combo)}
            got = run_eval(ev, vals)
            if ev.other_uses:
                raise AnalysisBroken('predicate leaves the comparison-only fragment: ' + '; '.join(ev.other_uses[:3]))
            new_consts |= ev.constants
            cells += 1
            want = spec(**{n: v for n, v in zip(input_names, combo)})
            if want is not None and bool(ev.raw(got)) != bool(want) and bad is None:
                bad = dict(zip(input_names, combo))
                bad['returns'] = bool(ev.raw(got))
                bad['expected'] = bool(want)
        if new_consts == consts:
            return bad is None, bad, cells, sorted(consts)
        consts = new_consts
    raise AnalysisBroken('constant discovery did not converge')
