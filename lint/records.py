"""Record-level rules: definite initialisation, copy/move constructor coverage, layout, statics, externals."""
from . import ir
from .common import rel, AnalysisBroken

# records that are outside the instance's object graph and never constructed by the library
EXEMPT_RECORDS = {
    'ffsm2::Request': 'unused aggregate, not part of any instance and never constructed by library code',
}


def short(name):
    return ir.short_type(name)


def scalar_fields(rec):
    """(path, field) for every scalar (non-reference) field, descending into anonymous unions/structs."""
    out = []
    for f in rec['fields']:
        if f.get('anon'):
            out.append(('anon:' + f['anon'], f))
        elif f.get('scalar') and not f.get('ref'):
            out.append((f['n'], f))
    return out


def ctor_body_assigns(fn):
    """names of own fields assigned by a top-level statement of a constructor body (dominates the exit)."""
    names = set()
    body = fn.body
    if not body or body.get('s') != 'block':
        return names
    for st in body['b']:
        if not st or st.get('s') != 'expr':
            continue
        e = st['e']
        if ir.is_expr(e) and e['k'] == 'asg' and e['op'] == '=':
            l = ir.strip(e['l'])
            if l['k'] == 'mem' and ir.is_expr(l['b']) and l['b']['k'] == 'this':
                names.add(l['f'])
    return names


def definite_init(run, rule, F, note_prefix=''):
    """Every scalar member of every FFSM2 record gets a determinate value from every constructor.

    A field is covered if it has a default member initialiser, or every non-copy/move constructor that the
    record declares initialises it (member-initialiser list or top-level body assignment); an anonymous union
    counts if one alternative has a default member initialiser. Records without any user-provided constructor
    are default-initialised somewhere in the library unless every construction site zero-initialises them.
    """
    # construction sites by class
    sites = {}
    for fn in F.fns:
        for e in ir.all_exprs(fn):
            if e['k'] == 'ctor' and e.get('cls'):
                sites.setdefault(e['cls'], []).append((fn, e))
    n = 0
    for rec in F.records:
        name = rec['name']
        if not name.startswith('ffsm2::'):
            continue
        if name in EXEMPT_RECORDS:
            continue
        if rec.get('union'):
            continue
        if rec.get('size') is None:
            continue
        fields = scalar_fields(rec)
        if not fields:
            continue
        user_ctors = []
        for c in rec['ctors']:
            if c.get('ctorkind') in ('copy', 'move'):
                continue
            if c.get('deleted'):
                continue
            if c.get('user_provided'):
                user_ctors.append(c)
        has_implicit_default = any(c.get('ctorkind') == 'default' and not c.get('user_provided') and not c.get('deleted')
                                   for c in rec['ctors']) or (not rec['ctors'] and rec.get('has_default_ctor')) or \
            rec.get('needs_implicit_default_ctor')
        for path, f in fields:
            covered = True
            why = ''
            if f.get('anon'):
                nsdmi = any(m.get('nsdmi') for m in f.get('members', []))
            else:
                nsdmi = bool(f.get('nsdmi'))
            if not nsdmi:
                # every user-provided constructor must set it
                for c in user_ctors:
                    fn = F.fn(c['fn'])
                    if fn is None:
                        continue   # never instantiated in this witness: nothing constructs through it
                    inited = set()
                    for i in fn.inits:
                        if i['t'] in ('member', 'indirect'):
                            inited.add(i.get('name'))
                            for ch in i.get('chain', []) or []:
                                inited.add(ch)
                        if i['t'] == 'delegating':
                            inited.add(f['n'])
                    inited |= ctor_body_assigns(fn)
                    fname = f['n'] if not f.get('anon') else None
                    ok = fname in inited if fname else any(m['n'] in inited for m in f.get('members', []))
                    if not ok:
                        covered = False
                        why = 'constructor %s leaves it indeterminate' % rel(c.get('l', ''))
                        break
                if covered and has_implicit_default and not user_ctors_cover_default(rec):
                    # default-initialisation through the implicit constructor: indeterminate unless every site zero-initialises
                    ss = sites.get(name, [])
                    nonzero = [s for s in ss if s[1].get('default') and not s[1].get('zeroinit')]
                    if nonzero or not ss:
                        covered = False
                        if nonzero:
                            why = 'implicit default constructor; default-initialised (not value-initialised) in %s' % nonzero[0][0].short
                        else:
                            why = 'implicit default constructor and no default member initialiser'
            n += 1
            run.ob(rule, '%s%s::%s has a determinate value after every constructor' % (note_prefix, short(rec.get('_tkey') or name), path),
                   covered, where=rec.get('l'), detail=why or None,
                   key='%s::%s is not definitely initialised' % (short(rec.get('_tkey') or name), path))
    return n


def user_ctors_cover_default(rec):
    """True if the record declares a user-provided default constructor (so the implicit one does not exist)."""
    return any(c.get('ctorkind') == 'default' and c.get('user_provided') for c in rec['ctors'])


def _source_member(e, param_name):
    """if e is (possibly move()/forward()/cast of) `param.f` or base-cast of param, return the field name / '<base>'."""
    e = ir.strip(e)
    while ir.is_expr(e) and e['k'] == 'call' and e.get('m') in ('move', 'forward') and len(e.get('args', [])) == 1:
        e = ir.strip(e['args'][0])
    if ir.is_expr(e) and e['k'] == 'ctor' and len(e.get('args', [])) == 1 and (e.get('copy') or e.get('move')):
        return _source_member(e['args'][0], param_name)
    if ir.is_expr(e) and e['k'] == 'init' and len(e.get('es', [])) == 1:
        return _source_member(e['es'][0], param_name)
    if ir.is_expr(e) and e['k'] == 'arraycopy':
        return _source_member(e['src'], param_name)
    if ir.is_expr(e) and e['k'] == 'mem':
        b = ir.strip(e['b'])
        while ir.is_expr(b) and b['k'] == 'call' and b.get('m') in ('move', 'forward'):
            b = ir.strip(b['args'][0])
        if ir.is_expr(b) and b['k'] == 'var' and b['n'] == param_name:
            return e['f']
    if ir.is_expr(e) and e['k'] == 'var' and e['n'] == param_name:
        return '<whole>'
    return None


def copy_ctor_coverage(run, rule, F, decided_elsewhere=None):
    """Every user-provided copy/move constructor initialises every base and member from the same base/member
    of its argument. `decided_elsewhere(rec)` -> text or None: a record whose hand-written copy is decided by a semantic rule (the bit
    array, whose copies are interpreted bit by bit for every capacity); this reading of the initialiser list steps aside for it."""
    n = 0
    for rec in F.records:
        name = rec['name']
        if not name.startswith('ffsm2::'):
            continue
        for c in rec['ctors']:
            if c.get('ctorkind') not in ('copy', 'move') or not c.get('user_provided'):
                continue
            why = decided_elsewhere(rec) if decided_elsewhere else None
            if why:
                n += 1
                run.ob(rule, '%s %s constructor: %s' % (short(rec.get('_tkey') or name), c['ctorkind'], why), True, where=c.get('l'))
                continue
            fn = F.fn(c['fn'])
            if fn is None:
                continue
            pname = fn.params[0]['n'] if fn.params else None
            by_member = {}
            bases_inited = []
            for i in fn.inits:
                if not i.get('written'):
                    continue
                if i['t'] == 'member':
                    by_member[i['name']] = i
                elif i['t'] == 'base':
                    bases_inited.append(i)
            body_copies = None
            for f in rec['fields']:
                if f.get('anon'):
                    continue
                i = by_member.get(f['n'])
                src = _source_member(i['e'], pname) if i else None
                ok = src == f['n']
                if not ok and src is None and fn.body is not None:
                    # copied in the constructor body instead: every assignment to the member takes it from the same member of the argument,
                    # and the member is definitely assigned on every path (a copy made on some paths only is not a copy)
                    if body_copies is None:
                        from . import effects as _eff
                        E_ = _eff.Effects(F)
                        M_ = _eff.MustWrites(E_)
                        from . import cfg as _cfg
                        c_ = _cfg.cfg_of(fn)
                        must = M_.after(fn, c_, c_.entry)        # of the body alone (member initialisers, also the implicit ones, not counted)
                        body_copies = {}
                        for e in ir.all_exprs(fn):
                            tgt = rhs = None
                            if e['k'] == 'asg' and e['op'] == '=':
                                tgt, rhs = e['l'], e['r']
                            elif e['k'] == 'call' and (e.get('op') == '=' or e.get('m') == 'operator=') and ir.is_expr(e.get('obj')) and len(e.get('args', [])) == 1:
                                tgt, rhs = e['obj'], e['args'][0]
                            if tgt is None:
                                continue
                            for p_ in E_.lv(tgt, fn):
                                if len(p_) == 2 and p_[0] == 'this':
                                    body_copies.setdefault(p_[1], []).append(_source_member(rhs, pname))
                        body_copies['<must>'] = must
                    srcs = body_copies.get(f['n'])
                    if srcs and all(s_ == f['n'] for s_ in srcs):
                        ok = ('this', f['n']) in body_copies['<must>'] or ('this', f['n'], '*') in body_copies['<must>']
                        if not ok:
                            i = {'e': {'k': 'c', 'v': 0, 'n': 'assigned in the body on some paths only'}}
                    elif srcs:
                        raise AnalysisBroken('%s %s constructor assigns member %s in its body from something this rule does not recognise' % (
                            short(rec.get('_tkey') or name), c['ctorkind'], f['n']))
                n += 1
                run.ob(rule, '%s %s constructor copies member %s from the same member of its argument' % (
                    short(rec.get('_tkey') or name), c['ctorkind'], f['n']), ok, where=c.get('l'),
                    detail=None if ok else ('no member initialiser' if not i else 'initialised from ' + ir.pp(i['e'])),
                    key='%s %s constructor does not copy member %s' % (short(rec.get('_tkey') or name), c['ctorkind'], f['n']))
            for b in rec['bases']:
                if b.get('empty') and b['name'].startswith('ffsm2::'):
                    continue      # an empty library base carries no state; a *user* base (the state class a wrapper derives from) is only
                                  # accidentally empty in the witness and must be copied like any other
                ok = any(_source_member(i['e'], pname) == '<whole>' for i in bases_inited if i.get('name') == b['name'])
                n += 1
                run.ob(rule, '%s %s constructor copies base %s from its argument' % (
                    short(rec.get('_tkey') or name), c['ctorkind'], short(b['name'])), ok, where=c.get('l'),
                    key='%s %s constructor does not copy base %s' % (short(rec.get('_tkey') or name), c['ctorkind'], short(b['name'])))
    return n


def no_mutable_statics(run, rule, F):
    n = 0
    for g in F.globals:
        ok = g.get('const') or g.get('constexpr')
        n += 1
        run.ob(rule, 'namespace-scope / static data %s is immutable' % short(g['name']), ok, where=g.get('l'),
               key='mutable static ' + short(g['name']))
    for rec in F.records:
        for m in rec.get('mutable_statics', []):
            n += 1
            run.ob(rule, 'static member %s::%s is immutable' % (short(rec['name']), m), False, where=rec.get('l'),
                   key='mutable static member %s::%s' % (short(rec.get('_tkey') or rec['name']), m))
    for fn in F.fns:
        for s in ir.walk_stmts(fn.body):
            if s.get('s') == 'decl':
                for v in s['vars']:
                    if v.get('static') and not v.get('const'):
                        n += 1
                        run.ob(rule, 'function-static %s in %s is immutable' % (v['n'], fn.short), False, where=v.get('l'),
                               key='mutable function-static %s in %s' % (v['n'], fn.short))
    return n


ALLOWED_EXTERNALS = {
    'memset': 'fill(): clears a byte buffer',
    'memcmp': 'TransitionT ==/!=: compares the payload bytes of two transitions (deterministic, allocation-free)',
    'operator new': 'reserved placement form only (checked separately)',
    'type_index': 'std::type_index constructed from typeid (debug/report features)',
}


def externals(run, rule, F):
    """Every call that leaves FFSM2 goes to an allowed external or to user (witness) code."""
    n = 0
    seen = set()
    for fn in F.fns:
        for e in ir.all_exprs(fn):
            if e['k'] not in ('call', 'ctor') or not e.get('ext'):
                continue
            m = e.get('m') or ''
            defloc = e.get('defloc', '')
            if '/witness/' in defloc or '/.build/' in defloc or defloc.startswith('witness/'):
                continue   # user code
            k = (m, fn.short)
            if k in seen:
                continue
            seen.add(k)
            ok = m in ALLOWED_EXTERNALS
            n += 1
            run.ob(rule, 'external call %s from %s is an allowed deterministic external' % (m, fn.short), ok,
                   where=e.get('l'), detail=None if ok else e.get('name'), key='external call %s from %s' % (m, fn.short))
    return n


def address_independence(run, rule, F):
    """C17.e: no value computed by FFSM2 depends on where objects live: no pointer<->integer conversion, no relational comparison
    or subtraction of pointers. (Equality tests of a pointer against null -- the logger slot -- are address-independent.) One
    obligation per function that has a pointer-typed operation at all, plus one per unit for the scan itself."""
    bad_kinds = ('PointerToIntegral', 'IntegralToPointer')
    n_fn = 0
    for fn in F.fns:
        hits = []
        ptr_ops = 0
        for e in ir.all_exprs(fn):
            if e['k'] == 'cast' and e.get('kind') in bad_kinds:
                hits.append((fn.pat, 'cast %s: %s' % (e.get('kind'), ir.pp(e)[:80])))
            elif e['k'] == 'bin' and e.get('ptr'):
                ptr_ops += 1
                if e['op'] in ('<', '>', '<=', '>=', '-'):
                    hits.append((fn.pat, 'pointer %s: %s' % (e['op'], ir.pp(e)[:80])))
                elif e['op'] in ('==', '!='):
                    # only against a null pointer constant
                    sides = [ir.strip(e['l']), ir.strip(e['r'])]
                    if not any(x['k'] == 'null' or ir.const_val(x) == 0 for x in sides):
                        hits.append((fn.pat, 'pointer identity test: %s' % ir.pp(e)[:80]))
        if ptr_ops or hits:
            n_fn += 1
            run.ob(rule, '%s: pointer-typed operations are null tests only (%d)' % (fn.short, ptr_ops), not hits,
                   where=hits[0][0] if hits else fn.pat, detail=None if not hits else [h[1] for h in hits[:4]],
                   key='%s computes a value from an address' % fn.short)
    run.ob(rule, 'scan of %d functions for address-dependent values [%s]' % (len(F.fns), F.label()), True)
    return n_fn


def payload_layout(run, rule, F):
    """C07.a / C18.b: the byte storage that holds a payload is big enough and suitably aligned for the payload type,
    both inside its record and through the record's own alignment."""
    n = 0
    for rec in F.records:
        tk = rec.get('_tkey')
        if tk not in ('ffsm2::detail::TransitionT', 'ffsm2::detail::TaskT'):
            continue
        ti = rec.get('targinfo') or []
        if not ti or 'size' not in ti[0]:
            continue   # void payload
        psize, palign, pty = ti[0]['size'], ti[0]['align'], ti[0]['ty']
        st = [f for f in rec['fields'] if f['n'] == 'storage']
        if not st:
            run.broken('no `storage` member in %s' % rec['name'])
        st = st[0]
        off = st['off_bits'] // 8
        inst = '%s<%s>' % (short(tk), pty)
        n += 3
        run.ob(rule, '%s: sizeof(storage) == sizeof(payload) (%d)' % (inst, psize), st.get('size') == psize, where=rec.get('l'),
               key='%s storage size differs from the payload size' % short(tk))
        run.ob(rule, '%s: offsetof(storage)=%d is a multiple of alignof(payload)=%d' % (inst, off, palign), off % palign == 0,
               where=rec.get('l'), detail={'offset': off, 'alignof_payload': palign, 'pack': rec.get('pack')},
               key='%s::storage is misaligned for the payload type' % short(tk))
        run.ob(rule, '%s: alignof(record)=%d is a multiple of alignof(payload)=%d' % (inst, rec.get('align'), palign),
               rec.get('align', 0) % palign == 0, where=rec.get('l'),
               detail={'alignof_record': rec.get('align'), 'alignof_payload': palign, 'pack': rec.get('pack')},
               key='%s is under-aligned for the payload type' % short(tk))
    return n


def containing_records(F):
    """records that embed another FFSM2 record by value: each embedded member's offset must respect the member's alignment
    (guards against a packed outer record re-misaligning a correctly aligned inner one)."""
    out = []
    for rec in F.records:
        if not rec['name'].startswith('ffsm2::') or rec.get('size') is None:
            continue
        for f in rec['fields']:
            if f.get('cls') and 'off_bits' in f and f.get('type_align'):
                out.append((rec, f))
    return out


def member_alignment(run, rule, F):
    n = 0
    for rec, f in containing_records(F):
        off = f['off_bits'] // 8
        ok = off % f['type_align'] == 0
        n += 1
        run.ob(rule, '%s::%s at offset %d respects alignof(%s)=%d' % (short(rec.get('_tkey') or rec['name']), f['n'], off,
                                                                        short(f['ty']), f['type_align']), ok, where=rec.get('l'),
               key='%s::%s is misaligned' % (short(rec.get('_tkey') or rec['name']), f['n']))
    return n


def placement_news(run, rule, F):
    """every new-expression is the reserved placement form into library-owned storage; no delete."""
    n = 0
    for fn in F.fns:
        for e in ir.all_exprs(fn):
            if e['k'] == 'delete':
                n += 1
                run.ob(rule, 'no delete-expression in %s' % fn.short, False, where=e.get('l'), key='delete in ' + fn.short)
            if e['k'] != 'new':
                continue
            on = e.get('opnew') or {}
            ok = bool(on.get('reserved_placement')) and len(e.get('place', [])) == 1 and not e.get('array')
            target = ''
            if ok:
                t = ir.strip(e['place'][0])
                if t['k'] == 'un' and t['op'] == '&':
                    tt = ir.strip(t['e'])
                    if tt['k'] == 'mem':
                        target = tt['f']
                    elif tt['k'] == 'idx':
                        b = ir.strip(tt['b'])
                        target = (b.get('f') or '?') + '[]'
                    elif tt['k'] == 'var':
                        target = tt['n']
                ok = target in ('storage', '_items[]', 'item')
            n += 1
            run.ob(rule, 'new-expression in %s is placement-new into %s' % (fn.short, target or '?'), ok, where=e.get('l'),
                   detail=None if ok else ir.pp(e), key='non-placement or foreign-storage new in ' + fn.short)
    return n


def reinterpret_casts(run, rule, F):
    """every reinterpret_cast reads the `storage` member whose layout payload_layout() vouches for."""
    n = 0
    for fn in F.fns:
        for e in ir.all_exprs(fn):
            if e['k'] == 'cast' and (e.get('ck') in ('reinterpret', 'cstyle') and e.get('kind') in ('BitCast', 'LValueBitCast', 'IntegralToPointer', 'PointerToIntegral')
                                     or e.get('ck') == 'reinterpret'):
                src = ir.strip(e['e'])
                ok = False
                if src['k'] == 'un' and src['op'] == '&':
                    t = ir.strip(src['e'])
                    ok = t['k'] == 'mem' and t['f'] == 'storage' and ir.is_expr(t['b']) and t['b']['k'] == 'this'
                n += 1
                run.ob(rule, 'reinterpreting cast in %s targets this->storage' % fn.short, ok, where=fn.pat,
                       detail=None if ok else ir.pp(e), key='reinterpreting cast in ' + fn.short)
    return n


def source_untouched(run, rule, F, E):
    """Copy/move construction and assignment of library objects leave their *source* as it was: the (transitive) write set of every copy/move
    constructor and assignment operator contains only paths of the object under construction. A library that owns nothing has no reason
    to "empty" a moved-from object; a moved-from machine stays a live object whose destructor runs finalExit() -- were its registry
    reset behind the callbacks' back, the states it entered would never be exited and exit would be dispatched with the invalid
    prong."""
    n = 0
    for fn in F.fns:
        if not (fn.cls or '').startswith('ffsm2::') or fn.body is None:
            continue
        kind = None
        if fn.kind == 'ctor' and fn.d.get('ctorkind') in ('copy', 'move'):
            kind = fn.d['ctorkind'] + ' constructor'
        elif fn.m == 'operator=' and len(fn.params) == 1:
            kind = 'assignment'
        if kind is None:
            continue
        ws = sorted(p for p in E.writes_star(fn) if p and p[0] != 'this')
        n += 1
        run.ob(rule, '%s %s writes only the object it initialises (its source is left as it was)' % (short(fn.tkey or fn.cls), kind), not ws, where=fn.pat,
               detail=['.'.join(map(str, p)) for p in ws[:4]] or None,
               key='%s %s modifies its source' % (short(fn.tkey or fn.cls), kind))
    return n


def views_by_reference(run, rule, F, tkeys, what):
    """a view class (a control over the machine core, a stream over a caller's buffer) must *alias* the object it is constructed on: the
    member its constructor binds parameter 0 to is a reference (or a pointer initialised with the parameter's address) and the parameter
    is taken by reference. A member that is a by-value copy makes the view work on a private snapshot."""
    n = 0
    for tk in tkeys:
        for ctor in F.find(tk):
            if ctor.kind != 'ctor' or ctor.d.get('ctorkind') in ('copy', 'move') or not ctor.params or ctor.d.get('implicit'):
                continue
            rec = F.rec_by_name.get(ctor.cls) or {}
            fields = {f.get('n'): f for f in rec.get('fields', [])}
            p0 = ctor.params[0]
            bound = []
            for i in ctor.inits:
                if i['t'] != 'member' or i.get('e') is None:
                    continue
                x = ir.strip(i['e'])
                if x['k'] == 'init' and len(x.get('es', [])) == 1:
                    x = ir.strip(x['es'][0])
                f = fields.get(i['name'], {})
                if x['k'] == 'var' and x.get('vk') == 'param' and x.get('pi') == 0:
                    bound.append((i['name'], bool(f.get('ref'))))
                elif x['k'] == 'ctor' and (x.get('copy') or x.get('move')) and len(x.get('args', [])) == 1:
                    y = ir.strip(x['args'][0])
                    if y['k'] == 'var' and y.get('vk') == 'param' and y.get('pi') == 0:
                        bound.append((i['name'], False))
                elif x['k'] == 'un' and x['op'] == '&':
                    y = ir.strip(x['e'])
                    if y['k'] == 'var' and y.get('vk') == 'param' and y.get('pi') == 0:
                        bound.append((i['name'], '*' in (f.get('ty') or '*')))
            if not bound:
                raise AnalysisBroken('cannot tell what %s binds its first parameter to' % ctor.short)
            ok = all(r for _, r in bound) and '&' in (p0.get('ty') or '')
            n += 1
            run.ob(rule, '%s views %s through a reference (member %s)' % (short(tk), what, ', '.join(m for m, _ in bound)), ok, where=ctor.pat,
                   detail={'members': bound, 'parameter type': (p0.get('ty') or '')[-30:]},
                   key='%s holds a copy of %s instead of a reference to it' % (short(tk), what))
    return n
